#!/bin/bash
# Build the overlay venv offline (py3.12 from /venv + solver wheels from the wheelhouse).
set -e
cd "$(dirname "$0")"
if [ -x .venv/bin/python ] && .venv/bin/python -c "import z3, cvc5, jsonschema, mako, markupsafe" 2>/dev/null; then
  exit 0
fi
rm -rf .venv
/venv/bin/python -m venv .venv
PIP_NO_INDEX=1 .venv/bin/pip install -q --no-index --find-links /opt/veriftools/wheels \
    z3-solver cvc5 crosshair-tool deal icontract jsonschema >/dev/null
SP=$(.venv/bin/python -c "import site; print(site.getsitepackages()[0])")
echo "import site; site.addsitedir('/venv/lib/python3.12/site-packages')" > "$SP/_repo_venv.pth"
.venv/bin/python -c "import z3, cvc5, jsonschema, mako, markupsafe; print('venv ok', z3.get_version_string())"
