#!/bin/bash
# re-evaluate every stored seeded change against the current checks (sequential; /repo is patched and restored each time)
cd /verif
for d in seeded/*/; do
  id=$(basename $d)
  props=$(python3 -c "
import json
m=json.load(open('$d/meta.json'))
p=m.get('property') or '$id'.split('-')[0]
extra={'C03-a':'C03 C13'}.get('$id', p)
print(extra)")
  echo "=== $id ($props)"
  if ! git -C /repo apply --check /verif/$d/patch.diff 2>/dev/null; then
    if git -C /repo apply --check -3 /verif/$d/patch.diff 2>/dev/null; then echo "(applies with 3-way merge only)"; else echo "PATCH NO LONGER APPLIES to the repaired tree"; continue; fi
  fi
  tools/seed_recheck.sh $id $props 2>&1 | grep -v "Warning\|WARNING" | cut -c1-200
done
git -C /repo status --short | head -3
