#!/bin/bash
# development helper: re-run every claimed check (quick), refresh evidence, validate, regenerate MANIFEST
cd /verif
.venv/bin/python tools/mkmanifest.py || exit 1
for p in $(python3 -c "import json; print(' '.join(c['property_id'] for c in json.load(open('MANIFEST.json'))['checks']))"); do
  ./vcheck check $p | head -1
done
.venv/bin/python - <<'PY'
import json,jsonschema,glob
sch=json.load(open('/root/.vp/EVIDENCE.schema.json'))
for f in sorted(glob.glob('evidence/*.json')):
    ev=json.load(open(f)); jsonschema.validate(ev, sch)
    c=ev['coverage']
    assert ev['level']!='proof' or c['obligations']==c['discharged'], f
print("evidence ok")
PY
