#!/usr/bin/env python3
"""Rewrite the table of DESIGN.md section 10.9 from seeded/*/meta.json (the 'confirmed.checks' field is written by
tools/seed_recheck.sh / tools/seed_all.sh)."""
import glob, json, os, re
root = os.path.dirname(os.path.dirname(os.path.abspath(__file__)))
rows = []
for d in sorted(glob.glob(os.path.join(root, "seeded", "*", ""))):
    m = json.load(open(os.path.join(d, "meta.json")))
    sid = os.path.basename(os.path.dirname(d))
    summ = re.sub(r"\s+", " ", m.get("summary", "")).replace("|", "\\|")[:170]
    rows.append("| %s | %s | %s |" % (sid, summ, (m.get("confirmed", {}).get("checks") or "").strip()))
p = os.path.join(root, "DESIGN.md")
t = open(p).read()
head = "| seed | change | latest result |\n|------|--------|---------------|\n"
i = t.index(head) + len(head)
j = t.index("\n\n", i)
t = t[:i] + "\n".join(rows) + t[j:]
open(p, "w").write(t)
print(len(rows), "rows")
