#!/bin/bash
# usage: seed_recheck.sh <seed-id> <property> [more]   -- apply the stored patch to /repo, run the quick checks, undo, record
set -u
id=$1; shift
out=/verif/seeded/$id
cd /verif
git -C /repo apply $out/patch.diff || { echo "patch does not apply to /repo"; exit 1; }
res=""
for p in "$@"; do
  r=$(./vcheck check $p 2>&1 | grep -E "^property|^VIOLATION|^UNDECIDED|^CHECKER" | head -4 | cut -c1-230)
  echo "$r"
  res="$res$p: $(echo "$r" | grep -c VIOLATION) violation line(s); "
done
git -C /repo checkout -- .
git -C /repo status --short | head -3
python3 - "$out" "$res" <<'PY'
import json,sys
out,res=sys.argv[1:3]
p=out+"/meta.json"
m=json.load(open(p))
m.setdefault("confirmed",{})["checks"]=res
json.dump(m,open(p,"w"),indent=1)
PY
