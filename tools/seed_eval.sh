#!/bin/bash
# usage: seed_eval.sh <seed-id> <worktree-with-_out> <property> [more properties]
# 1. confirm the demonstration (fails with the patch, passes without) in the scratch worktree
# 2. store patch/demo/meta under /verif/seeded/<seed-id>/
# 3. apply the patch to /repo, run the quick checks, undo it
set -u
id=$1; wt=$2; shift 2
out=/verif/seeded/$id
mkdir -p $out
cp $wt/_out/patch.diff $wt/_out/demo.py $wt/_out/meta.json $out/ 2>/dev/null
cd $wt
git checkout -q -- mako 2>/dev/null
PYTHONPATH=$wt /venv/bin/python _out/demo.py >/dev/null 2>&1; clean=$?
git apply _out/patch.diff || { echo "patch does not apply in worktree"; exit 1; }
PYTHONPATH=$wt /venv/bin/python _out/demo.py >/dev/null 2>&1; broken=$?
tests=$(PYTHONPATH=$wt /venv/bin/python -m pytest -q -p no:cacheprovider 2>&1 | tail -1)
echo "demo without patch: exit $clean ; with patch: exit $broken ; suite: $tests"
cd /verif
git -C /repo apply $out/patch.diff || { echo "patch does not apply to /repo"; exit 1; }
res=""
for p in "$@"; do
  r=$(./vcheck check $p 2>&1 | grep -E "^property|^VIOLATION|^UNDECIDED|^CHECKER" | head -4 | cut -c1-230)
  echo "$r"
  res="$res$p: $(echo "$r" | grep -c VIOLATION) violation line(s); "
done
git -C /repo checkout -- .
git -C /repo status --short | head -3
python3 - "$out" "$clean" "$broken" "$tests" "$res" <<'PY'
import json,sys
out,clean,broken,tests,res=sys.argv[1:6]
p=out+"/meta.json"
try: m=json.load(open(p))
except Exception: m={}
m["confirmed"]={"demo_exit_without_patch":int(clean),"demo_exit_with_patch":int(broken),"test_suite_with_patch":tests,
                "what_was_run":"demo in scratch worktree with and without the patch; full pytest with the patch; patch applied to /repo, ./vcheck check <property> (quick), git checkout -- .",
                "checks":res}
json.dump(m,open(p,"w"),indent=1)
PY
