#!/bin/bash
# semantics-preserving refactors: the checks must not print VIOLATION
cd /verif
run() { echo "--- $1 ($2)"; python3 tools/withmut.py "${@:3}" -- ./vcheck check $2 2>&1 | grep -E "^property|^VIOLATION|^UNDECIDED|^CHECKER" | cut -c1-200 | head -4; }
run "rename local dest->fd" C15 'mako/template.py@@        dest, name = tempfile.mkstemp(dir=os.path.dirname(outputpath))

        os.write(dest, source)
        os.close(dest)@@        fd, name = tempfile.mkstemp(dir=os.path.dirname(outputpath))

        os.write(fd, source)
        os.close(fd)'
run "continue -> if/else in filter loop" C02 'mako/codegen.py@@            if e == "n":
                continue
            m = re.match(r"(.+?)(\(.*\))", e)
            if m:
                ident, fargs = m.group(1, 2)
                f = locate_encode(ident)
                e = f + fargs
            else:
                e = locate_encode(e)
                assert e is not None
            target = "%s(%s)" % (e, target)@@            if e != "n":
                m = re.match(r"(.+?)(\(.*\))", e)
                if m:
                    ident, fargs = m.group(1, 2)
                    f = locate_encode(ident)
                    e = f + fargs
                else:
                    e = locate_encode(e)
                    assert e is not None
                target = "%s(%s)" % (e, target)'
run "LRU setitem: in-test instead of dict.get" C14 'mako/util.py@@        item = dict.get(self, key)
        if item is None:
            item = self._Item(key, value)
            dict.__setitem__(self, key, item)
        else:
            item.value = value@@        if not dict.__contains__(self, key):
            dict.__setitem__(self, key, self._Item(key, value))
        else:
            dict.__getitem__(self, key).value = value'
run "cache kw: nested ifs" C17 'mako/cache.py@@        if not defname:
            tmpl_kw = self.template.cache_args.copy()
            tmpl_kw.update(kw)
        elif defname in self._def_regions:
            tmpl_kw = self._def_regions[defname]
        else:
            tmpl_kw = self.template.cache_args.copy()
            tmpl_kw.update(kw)
            self._def_regions[defname] = tmpl_kw@@        if defname and defname in self._def_regions:
            tmpl_kw = self._def_regions[defname]
        else:
            tmpl_kw = self.template.cache_args.copy()
            tmpl_kw.update(kw)
            if defname:
                self._def_regions[defname] = tmpl_kw'
run "adjust lineno: reorder arithmetic" C11 'mako/pyparser.py@@        "lineno": lineno + lineno_offset + exc_lineno - 1,@@        "lineno": exc_lineno - 1 + lineno + lineno_offset,'
run "check_declared: set difference style" C04 'mako/codegen.py@@            if ident != "context" and ident not in self.declared.union(
                self.locally_declared
            ):
                self.undeclared.add(ident)
        for ident in node.declared_identifiers():
            self.locally_declared.add(ident)@@            if ident == "context":
                continue
            if ident in self.declared or ident in self.locally_declared:
                continue
            self.undeclared.add(ident)
        for ident in node.declared_identifiers():
            self.locally_declared.add(ident)'
run "declares: the two set differences swapped, union spelled set()" C04 'mako/codegen.py@@        to_write = to_write.union(identifiers.undeclared)@@        to_write = set(identifiers.undeclared)' 'mako/codegen.py@@        to_write = to_write.difference(identifiers.argument_declared)@@        to_write = to_write.difference(identifiers.locally_declared)' 'mako/codegen.py@@        to_write = to_write.difference(identifiers.locally_declared)

        if self.compiler.enable_loop:@@        to_write = to_write.difference(identifiers.argument_declared)

        if self.compiler.enable_loop:'
run "def finish: local renamed, filtered test hoisted" C05 'mako/codegen.py@@            s = "__M_buf.getvalue()"
            if filtered:
                s = self.create_filter_callable(
                    node.filter_args.args, s, False
                )
            self.printer.writeline(None)
            if buffered and not cached:
                s = self.create_filter_callable(
                    self.compiler.buffer_filters, s, False
                )
            if buffered or cached:
                self.printer.writeline("return %s" % s)
            else:
                self.printer.writelines("__M_writer(%s)" % s,@@            out = "__M_buf.getvalue()"
            if filtered:
                out = self.create_filter_callable(
                    node.filter_args.args, out, False
                )
            self.printer.writeline(None)
            if not cached and buffered:
                out = self.create_filter_callable(
                    self.compiler.buffer_filters, out, False
                )
            if buffered or cached:
                self.printer.writeline("return %s" % out)
            else:
                self.printer.writelines("__M_writer(%s)" % out,'
run "include: cleaned context held in a local first" C07 'mako/runtime.py@@    callable_, ctx = _populate_self_namespace(
        context._clean_inheritance_tokens(), template
    )
    kwargs = _kwargs_for_include@@    cleaned = context._clean_inheritance_tokens()
    callable_, ctx = _populate_self_namespace(cleaned, template)
    kwargs = _kwargs_for_include'
run "invalidate_closure: name bound to a local" C17 'mako/cache.py@@        self.invalidate(name, __M_defname=name)@@        defname = name
        self.invalidate(defname, __M_defname=defname)'
run "getvalue: join first, encode second, in two statements" C18 'mako/util.py@@            return self.delim.join(self.data).encode(
                self.encoding, self.errors
            )@@            text = self.delim.join(self.data)
            return text.encode(self.encoding, self.errors)'
d=$(mktemp -d /tmp/mrepo_XXXX); cp -r /repo/mako $d/mako
sed -i 's/__M_caller/__M_cframe/g' $d/mako/codegen.py
for p in C05 C13; do echo "--- rename generated local __M_caller -> __M_cframe ($p)"; MAKO_REPO=$d ./vcheck check $p 2>&1 | grep -E "^property|^VIOLATION|^UNDECIDED|^CHECKER" | cut -c1-200 | head -4; done
rm -rf $d
