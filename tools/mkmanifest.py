#!/usr/bin/env python3
"""Regenerate MANIFEST.json from props/*.py metadata (development helper)."""
import importlib, json, os, sys
sys.path.insert(0, "/verif")
os.chdir("/verif")
props = [json.loads(l) for l in open("properties.jsonl")]
checks, na = [], []
NA = {"C16": "not applicable to this technique: the property quantifies over thread schedules (interleavings of concurrent get_template / render / cache calls); contracts on one call, discharged function by function, say nothing about interleavings, and no deductive verifier for concurrent Python exists here. The sequential parts (mutex released on every exit of _load, build-once under the lock, no shared render state outside Context) are proved under C14/C13 and listed there; the schedule part is not decided rather than decided by another technique (DESIGN.md section 5, C16)."}
for p in props:
    pid = p["id"]
    if os.path.exists("props/%s.py" % pid):
        src = open("props/%s.py" % pid).read()
        ns = {}
        # META block is a literal dict at the top of the module
        import ast
        tree = ast.parse(src)
        meta = None
        for n in tree.body:
            if isinstance(n, ast.Assign) and getattr(n.targets[0], "id", "") == "META":
                meta = ast.literal_eval(n.value)
        if meta is None or meta.get("not_applicable"):
            na.append({"property_id": pid, "reason": (meta or {}).get("not_applicable", "check not built yet")})
            continue
        checks.append({
            "property_id": pid,
            "quick_cmd": "./vcheck check %s --tier quick" % pid,
            "thorough_cmd": "./vcheck check %s --tier thorough" % pid,
            "evidence_file": "/verif/evidence/%s.json" % pid,
            "replay_cmd_template": "./vcheck replay {path}",
            "engine": meta.get("engine", "pyvc"),
            "level_claimed": {"category": meta["level"], "text": meta["level_text"], "design_ref": meta.get("design_ref", "DESIGN.md section 5 " + pid)},
            "level_note": meta["level_note"],
            "technique": meta["technique"],
        })
    else:
        na.append({"property_id": pid, "reason": NA.get(pid, "not claimed: check not built yet (see DESIGN.md section 8 build order)")})
m = {
    "version": 1,
    "setup_cmd": "./setup.sh",
    "hooks": {"guard": "MAKO_VERIF", "enable": "no hooks in /repo: contracts are sidecars under /verif/contracts, source is re-read from /repo on every run (MAKO_VERIF=1 is exported by ./vcheck but nothing in /repo reads it)",
              "baseline_off_cmd": "cd /repo && /venv/bin/python -m pytest -ra -q -p no:cacheprovider --timeout=900 --continue-on-collection-errors",
              "source_commits": [], "add_only": True},
    "engines": [
        {"name": "pyvc", "path": "/verif/vrf/pyvc", "serves_properties": [c["property_id"] for c in checks],
         "kind_free_text": "own AST->SMT verification-condition generator over the real source of /repo functions, sidecar contracts, z3 + cvc5"},
        {"name": "rex", "path": "/verif/vrf/rex", "serves_properties": ["C01", "C02", "C09", "C10", "C18"],
         "kind_free_text": "real re._parser trees -> SMT regular expressions / exact automata over a minterm alphabet"},
        {"name": "schema", "path": "/verif/vrf/schema", "serves_properties": ["C03", "C05", "C13", "C17"],
         "kind_free_text": "schematic templates compiled by the real compiler; generated functions verified against runtime contracts"},
    ],
    "checks": checks,
    "not_applicable": na,
    "notes": "Contract-based deductive verification; see DESIGN.md. Exit codes: 0 held, 1 violation, 2 undecided, 3 checker failure.",
}
json.dump(m, open("MANIFEST.json", "w"), indent=1)
import jsonschema
jsonschema.validate(m, json.load(open("/root/.vp/MANIFEST.schema.json")))
print("MANIFEST ok: %d checks, %d not applicable" % (len(checks), len(na)))
