#!/usr/bin/env python3
"""Development helper: run a command against a scratch copy of /repo with text edits applied.
usage: withmut.py 'file@@old@@new' [...] -- cmd...
The scratch copy lives under $TMPDIR (outside /repo and /verif) and is removed afterwards."""
import os, shutil, subprocess, sys, tempfile
args = sys.argv[1:]
i = args.index("--")
edits, cmd = args[:i], args[i + 1:]
d = tempfile.mkdtemp(prefix="mrepo_")
try:
    shutil.copytree("/repo/mako", os.path.join(d, "mako"))
    for e in edits:
        f, old, new = e.split("@@")
        p = os.path.join(d, f)
        s = open(p).read()
        if old not in s:
            sys.exit("edit target not found: %r in %s" % (old, f))
        open(p, "w").write(s.replace(old, new, 1))
    env = dict(os.environ, MAKO_REPO=d, PYTHONPATH=d + ":/verif", PYTHONDONTWRITEBYTECODE="1")
    sys.exit(subprocess.call(cmd, env=env))
finally:
    shutil.rmtree(d, ignore_errors=True)
