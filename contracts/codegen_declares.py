"""Contract on the emitter of a render function's opening declarations, `write_variable_declares` (C04: a name that
is read and not bound in the function is looked up - imported namespaces first, then the context, then UNDEFINED or,
under strict_undefined, a NameError - and a name the function binds itself is not fetched)."""
from vrf.pyvc.spec import C, ASSUME, CLASS, CLASSES
from vrf.pyvc.types import parse_ty
import contracts.codegen_decls  # noqa: GenRM, Printer, writeline
import contracts.codegen_filters  # noqa: CompileCtx
import contracts.identifiers  # noqa: Idents, TagLike

_WVD = "mako.codegen:_GenerateRenderMethod.write_variable_declares"

# ghost field of the printer: the set of lines handed to it so far (the real object has no such attribute; the
# printer's own line accounting is C12, contracts/printer.py)
CLASSES["Printer"].fields["emitted"] = parse_ty("Set[Str]")
# a second ghost field: the lines that came first in a call of writeline / writelines (what a lookup sequence begins with)
CLASSES["Printer"].fields["firsts"] = parse_ty("Set[Str]")
CLASS("mako.parsetree:NamespaceTag", name="NsTag", fields={"attributes": "Dict[Str,Str]"})
CLASSES["CompileCtx"].fields.update({k: parse_ty(v) for k, v in {
    "enable_loop": "Bool", "strict_undefined": "Bool", "has_ns_imports": "Bool", "has_imports": "Bool",
    "namespaces": "Dict[Str,Obj[NsTag]]"}.items()})
CLASSES["Idents"].properties["defs"] = "mako.codegen:_Identifiers.defs"
ASSUME("mako.codegen:_Identifiers.defs", params={"self": "Idents"}, returns="Set[Obj[TagLike]]",
       ensures=[("value", "content(result) == idents_defs(self)"), ("own-set", "fresh(result)")],
       note="the defs and blocks callable by name in this scope (top-level and closure defs)")

_GROWS = "forall(lambda k: implies(k in old(self.emitted), k in self.emitted), ty='Str')"
_LOG = ["G.emit_n", "G.emit_last", "G.emit_prev", "G.dedents"]
ASSUME("mako.pygen:PythonPrinter.writeline@" + _WVD, params={"self": "Printer", "line": "Opt[Str]"},
       modifies=_LOG + ["self.emitted", "self.firsts"],
       ensures=[("logged", "forall(lambda k: (k in self.emitted) == (k in old(self.emitted) or (line is not None and k == line)), ty='Str')"),
                ("first", "forall(lambda k: (k in self.firsts) == (k in old(self.firsts) or (line is not None and k == line)), ty='Str')"),
                ("last", "implies(line is not None, G.emit_last == the(line))")],
       raises={"*": {}}, note="the printer seen as the set of lines handed to it")
ASSUME("mako.pygen:PythonPrinter.writelines@" + _WVD,
       params={"self": "Printer", "l0": "Opt[Str]=None", "l1": "Opt[Str]=None", "l2": "Opt[Str]=None", "l3": "Opt[Str]=None",
               "l4": "Opt[Str]=None", "l5": "Opt[Str]=None", "l6": "Opt[Str]=None", "l7": "Opt[Str]=None"},
       modifies=_LOG + ["self.emitted", "self.firsts"],
       ensures=[("kept", _GROWS), ("firsts-kept", "forall(lambda k: implies(k in old(self.firsts), k in self.firsts), ty='Str')"),
                ("first-of-the-batch", "implies(l0 is not None, the(l0) in self.firsts)")] + [("l%d" % i, "implies(l%d is not None, the(l%d) in self.emitted)" % (i, i)) for i in range(8)],
       raises={"*": {}}, note="writelines(*lines) for at most eight lines: each one is handed to writeline")
for _f in ("write_def_decl", "write_inline_def"):
    ASSUME("mako.codegen:_GenerateRenderMethod.%s@%s" % (_f, _WVD),
           params=dict({"self": "GenRM", "node": "TagLike", "identifiers": "Idents"}, **({"nested": "Bool=False"} if _f == "write_inline_def" else {})),
           modifies=_LOG + ["self.printer.emitted", "self.printer.firsts"],
           ensures=[("kept", "forall(lambda k: implies(k in old(self.printer.emitted), k in self.printer.emitted), ty='Str')"),
                    ("firsts-kept", "forall(lambda k: implies(k in old(self.printer.firsts), k in self.printer.firsts), ty='Str')")],
           raises={"*": {}}, note="emits the def (its own contract: contracts/codegen_decls.py); lines already emitted stay emitted")
# sorted(to_write, key=lambda ident: (ident in comp_idents, ident)) is modelled by the engine: same elements, keys never decrease

_OWN = ("k not in old(identifiers.argument_declared) and k not in old(identifiers.locally_declared) "
        "and not (self.compiler.enable_loop and k == 'loop') and (limit is None or k in old(limit))")
_NOT_A_DEF = "forall(lambda c: implies(c in idents_defs(identifiers), c.funcname != k), ty='Obj[TagLike]')"
_WANTED = "(k in old(identifiers.undeclared) and %s and %s and k not in old(self.compiler.namespaces))" % (_OWN, _NOT_A_DEF)
_E = "self.printer.emitted"
_L_CTX = "('%s = context.get(%r, UNDEFINED)' % (k, k)) in " + _E
_L_IMP = "('%s = _import_ns.get(%r, context.get(%r, UNDEFINED))' % (k, k, k)) in " + _E
_L_STRICT = "('%s = context[%r]' % (k, k)) in " + _E + " and (\"raise NameError(\\\"'%s' is not defined\\\")\" % k) in " + _E
_L_STRICT_IMP = "('%s = _import_ns.get(%r, UNDEFINED)' % (k, k)) in self.printer.firsts and ('%s = _import_ns.get(%r, UNDEFINED)' % (k, k)) in " + _E + " and ('if %s is UNDEFINED:' % k) in " + _E + " and " + _L_STRICT
_IMPORTS = "self.compiler.has_ns_imports"
_STRICT = "self.compiler.strict_undefined"


def _looked_up(k_cond):
    return [("context-then-UNDEFINED", "implies(not %s and not %s, forall(lambda k: implies(%s, %s), ty='Str'))" % (_IMPORTS, _STRICT, k_cond, _L_CTX)),
            ("imported-namespaces-before-the-context", "implies(%s and not %s, forall(lambda k: implies(%s, %s), ty='Str'))" % (_IMPORTS, _STRICT, k_cond, _L_IMP)),
            ("strict: context-or-NameError", "implies(not %s and %s, forall(lambda k: implies(%s, %s), ty='Str'))" % (_IMPORTS, _STRICT, k_cond, _L_STRICT)),
            ("strict: imports-then-context-or-NameError", "implies(%s and %s, forall(lambda k: implies(%s, %s), ty='Str'))" % (_IMPORTS, _STRICT, k_cond, _L_STRICT_IMP))]


_PROPS = ["C04"]
_DONE = "(in_prefix(_s1, _i1, k) and k not in comp_idents and k not in self.compiler.namespaces)"
C(_WVD,
  params={"self": "GenRM", "identifiers": "Idents", "toplevel": "Bool=False", "limit": "Opt[Set[Str]]=None"},
  requires=[("sets-present", "identifiers.undeclared is not None and identifiers.argument_declared is not None and identifiers.locally_declared is not None and identifiers.closuredefs is not None"),
            ("the-log-is-ghost-state: none of the program's sets",
             "self.printer.emitted is not None and not same(self.printer.emitted, limit) and not same(self.printer.emitted, identifiers.undeclared) "
             "and not same(self.printer.emitted, identifiers.argument_declared) and not same(self.printer.emitted, identifiers.locally_declared) "
             "and self.printer.firsts is not None and not same(self.printer.firsts, self.printer.emitted) and not same(self.printer.firsts, limit) "
             "and not same(self.printer.firsts, identifiers.undeclared) and not same(self.printer.firsts, identifiers.argument_declared) "
             "and not same(self.printer.firsts, identifiers.locally_declared)")],
  modifies=_LOG + [_E, "self.printer.firsts", "self.compiler.has_imports", "fresh_heap('set:Str')", "fresh_heap('list:Str')",
                   "fresh_heap('set:Obj[TagLike]')", "fresh_heap('ddom:Str~Obj[TagLike]')", "fresh_heap('dval:Str~Obj[TagLike]')"],
  loops={0: {"inv": [("lines-stay", "forall(lambda k: implies(k in pre(%s), k in %s), ty='Str')" % (_E, _E), "P")],
             "modifies": _LOG + [_E, "self.printer.firsts"]},
         1: {"inv": [("no name is looked up that the function takes as an argument",
                      "forall(lambda k: implies(in_prefix(_s1, len(_s1), k), k not in pre(identifiers.argument_declared)), ty='Str')", "P"),
                     ("no name is looked up that the function binds itself",
                      "forall(lambda k: implies(in_prefix(_s1, len(_s1), k), k not in pre(identifiers.locally_declared)), ty='Str')", "P"),
                     ("loop is not looked up while the loop context is enabled",
                      "forall(lambda k: implies(in_prefix(_s1, len(_s1), k), not (self.compiler.enable_loop and k == 'loop')), ty='Str')", "P"),
                     ("only names of the limiting set are looked up",
                      "forall(lambda k: implies(in_prefix(_s1, len(_s1), k), limit is None or k in pre(limit)), ty='Str')", "P"),
                     ("every name read and not bound is in the list",
                      "forall(lambda k: implies(k in pre(identifiers.undeclared) and %s, in_prefix(_s1, len(_s1), k)), ty='Str')" % _OWN.replace("old(", "pre("), "P"),
                     ("names taken from the context are declared before the defs of this scope (whose argument defaults may read them)",
                      "forall(lambda i, j: implies(0 <= i and i < j and j < len(_s1) and _s1[i] in comp_idents, _s1[j] in comp_idents))", "P"),
                     ("lines-stay", "forall(lambda k: implies(k in pre(%s), k in %s), ty='Str')" % (_E, _E), "P")]
                    + [(lab + " (so far)", expr.replace("old(", "pre("), "P") for lab, expr in _looked_up(_DONE)]
                    + [("first-lines-stay", "forall(lambda k: implies(k in pre(self.printer.firsts), k in self.printer.firsts), ty='Str')", "P")],
             "modifies": _LOG + [_E, "self.printer.firsts"]}},
  ensures=_looked_up(_WANTED) + [("the writer is fetched last", "G.emit_last == '__M_writer = context.writer()'")],
  raises={"*": {}}, locals={"ident": "Str", "ns": "Obj[NsTag]"},
  props=_PROPS, native_skip=True,
  note="which names are looked up, and the order of the lookup, for every name at once; the defs declared in the same "
       "pass are emitted by write_def_decl / write_inline_def (own contracts / outside)")

from vrf.pyvc.spec import CONTRACTS as _CC
_CC[_WVD].heavy = True      # 188 paths: verified on its own with all cores before the other functions of the property
