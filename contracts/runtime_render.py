"""Contracts for template lookup from the runtime, includes, and the render entry points
(C07, C09, C13, C04, C06)."""
from vrf.pyvc.spec import C, ASSUME, CLASS, FUNSPEC, CLASSES, GHOST, FUNSPECS

RC_G = ["G.nraised", "G.last_raised", "G.ncalls", "G.last_called", "G.last_ctx"]
EH_G = ["G.verdicts", "G.last_verdict", "G.last_judged"]
INH_G = ["G.inh_callable", "G.inh_ctx", "G.inh_truthy"]
GHOST("inh_truthy", "Bool", "whether the most recent _mako_inherit call returned a (callable, context) pair")
GHOST("last_raised", "Any", "identity of the exception most recently raised by an opaque render callable")
GHOST("nraised", "Int", "number of exceptions raised so far by opaque render callables")
GHOST("ncalls", "Int", "number of opaque render callables invoked so far")
GHOST("last_called", "Any", "the render callable invoked most recently")
GHOST("last_ctx", "Any", "the Context it was given")
GHOST("inh_callable", "Any", "callable returned by the most recent truthy _mako_inherit result")
GHOST("inh_ctx", "Any", "context returned with it")
GHOST("verdicts", "Int", "number of error-handler consultations so far")
GHOST("last_verdict", "Bool", "truthiness of the most recent error-handler result")
GHOST("last_judged", "Any", "exception the most recent error-handler consultation was about")
from contracts.runtime_stacks import balanced

# --- more of the Template / module / lookup views ---------------------------------------
CLASSES["Module"].fields.update({})
from vrf.pyvc.types import parse_ty
CLASSES["Module"].fields["_mako_inherit"] = parse_ty("Opt[Fun[mako_inherit]]")
CLASSES["Module"].fields["_mako_generate_namespaces"] = parse_ty("Opt[Fun[gen_namespaces]]")

CLASS("mako.runtime:Namespace",
      fields={"name": "Str", "context": "Context", "inherits": "Opt[Obj[Namespace]]",
              "callables": "Dict[Str,Any]", "template": "Opt[Obj[Template]]",
              "_templateuri": "Opt[Str]", "__attrs__": "Dict[Str,Any]"})
CLASS("mako.runtime:TemplateNamespace", bases=["Namespace"], fields={})
CLASS("mako.runtime:ModuleNamespace", bases=["Namespace"], fields={"module": "Any"})

ASSUME("mako.lookup:TemplateCollection.adjust_uri",
       params={"self": "LookupAPI", "uri": "Str", "relativeto": "Opt[Str]"}, returns="Str",
       ensures=[("def", "result == adjusted_uri(uri, relativeto)")],
       raises={"IndexError": {"when": "len(uri) == 0"}},
       note="interface view used by the runtime; TemplateLookup.adjust_uri itself is verified (C07.uri.adjust)")

ASSUME("mako.lookup:TemplateCollection.get_template",
       params={"self": "LookupAPI", "uri": "Str"}, returns="Template",
       ensures=[("def", "same(result, looked_up(self, uri))")],
       raises={"TopLevelLookupException": {}, "TemplateLookupException": {}, "*": {}},
       note="interface view used by the runtime (names the returned template); TemplateLookup.get_template itself is verified (C09/C14)")

C("mako.runtime:_lookup_template",
  params={"context": "Context", "uri": "Str", "relativeto": "Opt[Str]"}, returns="Template",
  requires=[("has-template", "context._with_template is not None")],
  ensures=[("has-lookup", "context._with_template.lookup is not None"),
           ("relative-to-the-calling-template",
            "same(result, looked_up(context._with_template.lookup, adjusted_uri(uri, relativeto)))"),
           ("data-untouched", "context._data == old(context._data)")],
  raises={"TemplateLookupException": {}, "IndexError": {"when": "len(uri) == 0"}, "*": {}},
  props=["C07", "C09"], native_skip=True)

ASSUME("mako.runtime:TemplateNamespace.__init__",
       params={"self": "TemplateNamespace", "name": "Str", "context": "Context", "template": "Opt[Obj[Template]]",
               "templateuri": "Opt[Str]", "callables": "Any", "inherits": "Opt[Obj[Namespace]]",
               "populate_self": "Bool", "calling_uri": "Opt[Str]"},
       requires=[("one-source", "template is not None or templateuri is not None")],
       modifies=["ptr(self.name)", "ptr(self.context)", "ptr(self.inherits)", "ptr(self.template)", "ptr(self._templateuri)"],
       ensures=[("name", "self.name == name"), ("context", "same(self.context, context)"),
                ("inherits", "same(self.inherits, inherits)"),
                ("given-template", "implies(templateuri is None, same(self.template, template))"),
                ("looked-up-relative-to-the-caller",
                 "implies(templateuri is not None, context._with_template is not None and context._with_template.lookup is not None and same(self.template, looked_up(context._with_template.lookup, adjusted_uri(templateuri, calling_uri))))")],
       raises={"TemplateLookupException": {"when": "templateuri is not None"}, "*": {"when": "templateuri is not None or populate_self"}},
       note="TemplateNamespace.__init__: field stores; with templateuri= the template comes from _lookup_template(context, templateuri, calling_uri) (verified: C07); with populate_self the self namespace is populated")

C("mako.runtime:Namespace.get_namespace",
  params={"self": "Namespace", "uri": "Str"}, returns="Namespace",
  modifies=["self.context.namespaces"],
  ensures=[("memoised-per-calling-namespace-and-uri",
            "box_pair(self, uri) in self.context.namespaces and same(result, self.context.namespaces[box_pair(self, uri)])"),
           ("hit-returns-the-memo",
            "implies(box_pair(self, uri) in old(self.context.namespaces), same(result, old(self.context.namespaces)[box_pair(self, uri)]) and self.context.namespaces == old(self.context.namespaces))"),
           ("miss-resolves-against-this-namespaces-template",
            "implies(box_pair(self, uri) not in old(self.context.namespaces), fresh(result) and same(ns_template(result), looked_up(self.context._with_template.lookup, adjusted_uri(uri, self._templateuri))))"),
           ("other-entries-kept",
            "forall(lambda k: implies(not same(k, box_pair(self, uri)), (k in self.context.namespaces) == (k in old(self.context.namespaces)) and same(self.context.namespaces[k], old(self.context.namespaces)[k])), ty='Any')")],
  raises={"TemplateLookupException": {}, "*": {}},
  props=["C07"], native_skip=True)

C("mako.runtime:Namespace.get_template",
  params={"self": "Namespace", "uri": "Str"}, returns="Template",
  requires=[("has-template", "self.context._with_template is not None")],
  ensures=[("relative-to-this-namespaces-template",
            "same(result, looked_up(self.context._with_template.lookup, adjusted_uri(uri, self._templateuri)))")],
  raises={"TemplateLookupException": {}, "IndexError": {"when": "len(uri) == 0"}, "*": {}},
  props=["C07"], native_skip=True)

FUNSPEC("mako_inherit",
        params={"template": "Template", "ctx": "Context"}, returns="Opt[Tuple[Fun[render_callable],Context]]",
        modifies=["ctx._data", "heap('f:Namespace.inherits')"] + INH_G,
        ensures=[("logged", "G.inh_truthy == (result is not None) and implies(result is not None, same(G.inh_callable, result[0]) and same(G.inh_ctx, result[1]))"),
                 ("existing-links-kept", "forall(lambda n: implies(0 < n and n < old(alloc) and old(ns_inherits(n)) is not None, same(ns_inherits(n), old(ns_inherits(n)))))"),
                 ("only-parent-changes",
                  "forall(lambda k: implies(k != 'parent', (k in ctx._data) == (k in old(ctx._data)) and same(ctx._data[k], old(ctx._data)[k])), ty='Str')"),
                 ("result-context-is-new-or-the-given-one",
                  "implies(result is not None, fresh(result[1]) or same(result[1], ctx))"),
                 ("result-context-same-render",
                  "implies(result is not None, same(result[1]._with_template, ctx._with_template) and same(result[1]._outputting_as_unicode, ctx._outputting_as_unicode))"),
                 ("result-context-shares-stacks",
                  "implies(result is not None, same(result[1]._buffer_stack, ctx._buffer_stack) and same(result[1].caller_stack, ctx.caller_stack) and len(result[1]._buffer_stack) == len(ctx._buffer_stack))"),
                 ("stack-untouched", "ctx._buffer_stack == old(ctx._buffer_stack)")],
        raises={"*": {"ensures": [("stack-untouched", "ctx._buffer_stack == old(ctx._buffer_stack)")]}},
        note="a generated _mako_inherit: builds namespaces, may extend the chain; returns (callable, context) "
             "of the base-most template or None; does not touch the buffer stack")

FUNSPEC("gen_namespaces", params={"ctx": "Context"}, returns="Any",
        modifies=["ctx.namespaces"], raises={"*": {}})

C("mako.runtime:_populate_self_namespace",
  params={"context": "Context", "template": "Template", "self_ns": "Opt[Obj[TemplateNamespace]]"},
  returns="Tuple[Fun[render_callable],Context]",
  modifies=["context._data", "heap('f:Namespace.inherits')", "heap('f:Namespace.name')", "heap('f:Namespace.context')",
            "heap('f:Namespace.template')", "heap('f:Namespace._templateuri')"] + INH_G,
  ensures=[("self-and-local-are-one-namespace",
            "'self' in context._data and 'local' in context._data and same(context._data['self'], context._data['local'])"),
           ("given-ns-used", "implies(self_ns is not None, same(context._data['self'], self_ns))"),
           ("fresh-ns-is-for-this-template",
            "implies(self_ns is None, fresh(context._data['self']) and same(ns_template(context._data['self']), template) and same(ns_context(context._data['self']), context))"),
           ("default-is-own-body",
            "implies(template.module._mako_inherit is None, same(result[0], template.callable_) and same(result[1], context))"),
           ("inherit-result-wins",
            "implies(template.module._mako_inherit is not None, ite(G.inh_truthy, same(result[0], G.inh_callable) and same(result[1], G.inh_ctx), same(result[0], template.callable_) and same(result[1], context)))"),
           ("result-context-shares-stacks",
            "same(result[1]._buffer_stack, context._buffer_stack) and same(result[1].caller_stack, context.caller_stack)"),
           ("result-context-is-new-or-the-given-one", "fresh(result[1]) or same(result[1], context)"),
           ("result-context-same-render",
            "same(result[1]._with_template, context._with_template) and same(result[1]._outputting_as_unicode, context._outputting_as_unicode)"),
           ("stack-untouched", "context._buffer_stack == old(context._buffer_stack)")],
  raises={"*": {"ensures": [("stack-untouched", "context._buffer_stack == old(context._buffer_stack)")]}},
  props=["C06", "C07"], native_skip=True)

# ---------------------------------------------------------------------------------------
FUNSPEC("error_handler",
        params={"ctx": "Context", "error": "Any"}, returns="Any",
        modifies=["G.verdicts", "G.last_verdict", "G.last_judged"],
        ensures=[("counted", "G.verdicts == old(G.verdicts) + 1"),
                 ("verdict", "G.last_verdict == truthy(result)"),
                 ("about", "same(G.last_judged, error)")],
        raises={"*": {"ensures": [("no-verdict", "G.verdicts == old(G.verdicts) and G.last_verdict == old(G.last_verdict) and same(G.last_judged, old(G.last_judged))")]}},
        note="user supplied error_handler / include_error_handler(context, error) -> truthy to swallow")

_INC_MOD, _INC_POST = balanced("context")

C("mako.runtime:_include_file",
  params={"context": "Context", "uri": "Str", "calling_uri": "Opt[Str]", "**kwargs": "Dict[Str,Any]"},
  requires=[("has-template", "context._with_template is not None"),
            ("stack-nonempty", "len(context._buffer_stack) >= 1")],
  modifies=_INC_MOD + ["kwargs", "heap('f:Namespace.inherits')", "heap('f:Namespace.name')", "heap('f:Namespace.context')",
                       "heap('f:Namespace.template')", "heap('f:Namespace._templateuri')"]
  + RC_G + EH_G + INH_G,
  ensures=_INC_POST + [("includer-data-untouched", "context._data == old(context._data)"),
                       ("swallowed-only-on-true-verdict",
                        "implies(G.nraised > old(G.nraised), G.verdicts == old(G.verdicts) + 1 and G.last_verdict and same(G.last_judged, G.last_raised))")],
  raises={"*": {"ensures": _INC_POST + [("includer-data-untouched", "context._data == old(context._data)"),
                                        ("reraised-unchanged-unless-swallowed",
                                         "implies(G.nraised > old(G.nraised) and G.verdicts == old(G.verdicts) + 1 and same(G.last_judged, G.last_raised), (not G.last_verdict) and same(raised, G.last_raised))")]}},
  props=["C07", "C13"], native_skip=True)

# what _include_file has to hand to _populate_self_namespace (C07: an include is an independent template, with no link to the
# includer's inheritance): the callee's own verified contract, plus a precondition that holds for this caller only
import copy as _copy
from vrf.pyvc.spec import CONTRACTS as _CT, Clause as _Clause
_psn = _copy.copy(_CT["mako.runtime:_populate_self_namespace"])
_psn.key = "mako.runtime:_populate_self_namespace@mako.runtime:_include_file"
_psn.assumed = True
_psn.props = []
_psn.requires = list(_psn.requires) + [_Clause("the included template starts its own chain: no self / parent / next of the includer",
                                               "'self' not in context._data and 'parent' not in context._data and 'next' not in context._data", "P")]
_psn.note = "the verified contract of _populate_self_namespace with a call-site precondition for includes"
_CT[_psn.key] = _psn

ASSUME("mako.runtime:_render_error",
       params={"template": "Template", "context": "Context", "error": "Any"},
       modifies=_INC_MOD + ["ptr(context._with_template)", "G.verdicts", "G.last_verdict", "G.last_judged"],
       ensures=[("cstack-same", "context.caller_stack == old(context.caller_stack)"),
                ("a-buffer-remains", "len(context._buffer_stack) >= 1"),
                ("handler-path-keeps-buffers",
                 "implies(template.error_handler is not None, context._buffer_stack == old(context._buffer_stack) and forall(lambda b: implies(0 < b and b < old(alloc), same(bufdata(b), old(bufdata(b))) and bufenc(b) == old(bufenc(b)))))"),
                ("error-page-in-unicode-when-rendering-unicode",
                 "implies(template.error_handler is None and truthy(old(context._outputting_as_unicode)), bufenc(context._buffer_stack[len(context._buffer_stack) - 1]) is None)")],
       raises={"*": {"ensures": [("cstack-same", "context.caller_stack == old(context.caller_stack)")]}},
       note="_render_error (sys.exc_info / with_traceback / error-template rendering) is outside the subset: "
            "assumed to leave the caller stack alone; its behaviour is covered by the bounded C13 grid")

C("mako.runtime:_exec_template",
  params={"callable_": "Fun[render_callable]", "context": "Context", "args": "Star", "kwargs": "Star"},
  requires=[("stack-nonempty", "len(context._buffer_stack) >= 1")],
  modifies=_INC_MOD + ["ptr(context._with_template)"] + RC_G + EH_G,
  ensures=[("cstack-same", "context.caller_stack == old(context.caller_stack)"),
           ("runs-exactly-the-given-callable", "G.ncalls == old(G.ncalls) + 1 and same(G.last_called, callable_) and same(G.last_ctx, context)"),
           ("a-buffer-remains", "len(context._buffer_stack) >= 1"),
           ("raise-count-monotone", "G.nraised >= old(G.nraised)"),
           ("no-exception-keeps-stack-and-buffers",
            "implies(G.nraised == old(G.nraised), context._buffer_stack == old(context._buffer_stack) and forall(lambda b: implies(0 < b and b < old(alloc), same(bufdata(b), old(bufdata(b))) and bufenc(b) == old(bufenc(b)))))"),
           ("error-page-in-unicode-when-rendering-unicode",
            "implies(G.nraised > old(G.nraised) and old(context._with_template) is not None and old(context._with_template).error_handler is None and truthy(old(context._outputting_as_unicode)), bufenc(context._buffer_stack[len(context._buffer_stack) - 1]) is None)"),
           ("plain-call-keeps-stack",
            "implies(old(context._with_template) is None or not (truthy(old(context._with_template).format_exceptions) or old(context._with_template).error_handler is not None), context._buffer_stack == old(context._buffer_stack) and same(context._with_template, old(context._with_template)))"),
           ("plain-call-never-swallows",
            "implies(old(context._with_template) is None or not (truthy(old(context._with_template).format_exceptions) or old(context._with_template).error_handler is not None), G.nraised == old(G.nraised))")],
  raises={"*": {"ensures": [("cstack-same", "context.caller_stack == old(context.caller_stack)"),
                            ("runs-exactly-the-given-callable", "G.ncalls == old(G.ncalls) + 1 and same(G.last_called, callable_) and same(G.last_ctx, context)"),
                            ("plain-call-propagates-the-same-exception",
                             "implies(old(context._with_template) is None or not (truthy(old(context._with_template).format_exceptions) or old(context._with_template).error_handler is not None), G.nraised == old(G.nraised) + 1 and same(raised, G.last_raised) and context._buffer_stack == old(context._buffer_stack))")]}},
  props=["C13"], native_skip=True)


# opaque render callables log what they raise (ghost), so that callers can be specified
# in terms of "the exception the callee raised"
_rc = FUNSPECS["render_callable"]
_rc.modifies = list(_rc.modifies) + ["G.nraised", "G.last_raised", "G.ncalls", "G.last_called", "G.last_ctx"]
_CALLED = "G.ncalls == old(G.ncalls) + 1 and same(G.last_called, self_fn) and same(G.last_ctx, ctx)"
from vrf.pyvc.spec import Clause
_rc.ensures = list(_rc.ensures) + [Clause("no-raise-logged", "G.nraised == old(G.nraised) and same(G.last_raised, old(G.last_raised))"),
                                   Clause("call-logged", _CALLED)]
_rc.raises["*"]["ensures"] = list(_rc.raises["*"]["ensures"]) + [
    Clause("raise-logged", "G.nraised == old(G.nraised) + 1 and same(G.last_raised, raised)"),
    Clause("call-logged", _CALLED)]


_RC_CASES = [
    ("base-most-body-when-no-inherit",
     "implies(not dyn_is_def_template(tmpl) and tmpl.module._mako_inherit is None, same(G.last_called, tmpl.callable_) and same(G.last_ctx, context))"),
    ("base-of-chain-when-inheriting",
     "implies(not dyn_is_def_template(tmpl) and tmpl.module._mako_inherit is not None, ite(G.inh_truthy, same(G.last_called, G.inh_callable) and same(G.last_ctx, G.inh_ctx), same(G.last_called, tmpl.callable_) and same(G.last_ctx, context)))"),
    ("def-template-runs-the-def",
     "implies(dyn_is_def_template(tmpl), same(G.last_called, callable_) and same(G.last_ctx, context))"),
]

C("mako.runtime:_render_context",
  params={"tmpl": "Template", "callable_": "Fun[render_callable]", "context": "Context", "*args": "Star", "**kwargs": "Star"},
  requires=[("stack-nonempty", "len(context._buffer_stack) >= 1"),
            ("def-has-parent", "implies(dyn_is_def_template(tmpl), tmpl.parent is not None)")],
  modifies=_INC_MOD + ["ptr(context._with_template)", "fresh_heap('f:Context._with_template')", "context._data", "heap('f:Namespace.inherits')", "heap('f:Namespace.name')",
                       "heap('f:Namespace.context')", "heap('f:Namespace.template')", "heap('f:Namespace._templateuri')"]
                       + RC_G + EH_G + INH_G,
  ensures=[("one-callable-run", "G.ncalls == old(G.ncalls) + 1"),
           ("a-buffer-remains", "len(context._buffer_stack) >= 1"),
           ("raise-count-monotone", "G.nraised >= old(G.nraised)"),
           ("no-exception-keeps-stack-and-buffers",
            "implies(G.nraised == old(G.nraised), context._buffer_stack == old(context._buffer_stack) and forall(lambda b: implies(0 < b and b < old(alloc), same(bufdata(b), old(bufdata(b))) and bufenc(b) == old(bufenc(b)))))"),
           ("error-page-in-unicode-when-rendering-unicode",
            "implies(G.nraised > old(G.nraised) and old(context._with_template) is not None and old(context._with_template).error_handler is None and truthy(old(context._outputting_as_unicode)), bufenc(context._buffer_stack[len(context._buffer_stack) - 1]) is None)"),
           ] + _RC_CASES,
  raises={"*": {"ensures": [("at-most-one-callable-run", "G.ncalls <= old(G.ncalls) + 1")]}},
  props=["C06", "C13"], native_skip=True)

_RESERVED_HIT = "exists(lambda k: k in template.reserved_names and (k in data or k == 'capture' or k == 'caller'), ty='Str')"

C("mako.runtime:_render",
  params={"template": "Template", "callable_": "Fun[render_callable]", "args": "Star", "data": "Dict[Str,Any]",
          "as_unicode": "Bool"},
  returns="Any",
  requires=[("def-has-parent", "implies(dyn_is_def_template(template), template.parent is not None)")],
  modifies=["heap('list:Str')", "heap('f:FastEncodingBuffer.data')", "heap('f:FastEncodingBuffer.write')",
            "heap('f:FastEncodingBuffer.encoding')",
            "heap('f:Namespace.inherits')", "heap('f:Namespace.name')", "heap('f:Namespace.context')",
            "heap('f:Namespace.template')", "heap('f:Namespace._templateuri')"]
  + RC_G + EH_G + INH_G,
  ensures=[("render_unicode-returns-str",
            "implies(as_unicode and template.error_handler is None, is_boxed_str(result))"),
           ("str-without-output-encoding",
            "implies(not truthy(template.output_encoding) and G.nraised == old(G.nraised), is_boxed_str(result))"),
           ("bytes-with-output-encoding",
            "implies(not as_unicode and truthy(template.output_encoding) and G.nraised == old(G.nraised), is_boxed_bytes(result))"),
           ("caller-data-untouched", "data == old(data)"),
           ("no-reserved-name-passed", "not %s" % _RESERVED_HIT)],
  raises={"NameConflictError": {"when": _RESERVED_HIT,
                                "ensures": [("before-any-template-code-runs", "G.ncalls == old(G.ncalls)")]},
          "*": {"ensures": [("reserved-names-rejected-first", "implies(%s, G.ncalls == old(G.ncalls))" % _RESERVED_HIT)]}},
  props=["C04", "C18"], native_skip=True)

# ---------------------------------------------------------------------------------------
# C06: building the inheritance chain

C("mako.runtime:_inherit_from",
  params={"context": "Context", "uri": "Opt[Str]", "calling_uri": "Opt[Str]"},
  returns="Opt[Tuple[Fun[render_callable],Context]]",
  requires=[("has-template", "context._with_template is not None"),
            ("self-namespace-present", "'self' in context._data and context._data['self'] is not None"),
            ("chain-is-finite", "finite_chain()")],
  modifies=["context._data", "heap('f:Namespace.inherits')", "fresh_heap('f:Namespace.name')", "fresh_heap('f:Namespace.context')",
            "fresh_heap('f:Namespace.template')", "fresh_heap('f:Namespace._templateuri')", "fresh_heap('f:Context._data')",
            "context.namespaces"] + INH_G,
  loops={0: {"inv": [("walking-the-chain-of-self", "ih is not None and chain_end(ih) == chain_end(self_ns)", "P"),
                     ("nothing-changed-yet", "context._data == old(context._data)")],
             "modifies": [], "variant": "ns_depth(ih)"}},
  locals={"self_ns": "Namespace", "ih": "Namespace"},
  ensures=[("no-uri-no-inheritance", "implies(uri is None, result is None and context._data == old(context._data))"),
           ("new-base-is-appended-at-the-end-of-the-chain",
            "implies(uri is not None, fresh(ns_inherits(old_chain_end(context))) and same(ns_template(ns_inherits(old_chain_end(context))), looked_up(context._with_template.lookup, adjusted_uri(uri, calling_uri))))"),
           ("parent-is-the-new-base", "implies(uri is not None, 'parent' in context._data and same(context._data['parent'], ns_inherits(old_chain_end(context))))"),
           ("base-context-has-next-and-local",
            "implies(uri is not None, same(ns_context(ns_inherits(old_chain_end(context)))._data['next'], old_chain_end(context)) and same(ns_context(ns_inherits(old_chain_end(context)))._data['local'], ns_inherits(old_chain_end(context))))"),
           ("existing-links-kept", "forall(lambda n: implies(0 < n and n < old(alloc) and old(ns_inherits(n)) is not None, same(ns_inherits(n), old(ns_inherits(n)))))"),
           ("only-parent-changes-in-the-callers-context",
            "forall(lambda k: implies(k != 'parent', (k in context._data) == (k in old(context._data)) and same(context._data[k], old(context._data)[k])), ty='Str')"),
           ("answer-is-the-base-most-body",
            "implies(uri is not None and result is not None and ns_template(ns_inherits(old_chain_end(context))).module._mako_inherit is None, same(result[0], ns_template(ns_inherits(old_chain_end(context))).callable_) and same(result[1], ns_context(ns_inherits(old_chain_end(context)))))"),
           ("never-none-once-a-base-exists", "implies(uri is not None, result is not None)"),
           ("deeper-answer-wins",
            "implies(uri is not None and ns_template(ns_inherits(old_chain_end(context))).module._mako_inherit is not None, ite(G.inh_truthy, same(result[0], G.inh_callable) and same(result[1], G.inh_ctx), same(result[0], ns_template(ns_inherits(old_chain_end(context))).callable_)))")],
  raises={"*": {}},
  props=["C06"], native_skip=True)
