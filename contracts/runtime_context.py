"""Contracts for Context data access / isolation / reserved names (C04, C07)."""
from vrf.pyvc.spec import C, CLASS, FUNSPEC, GLOBALS

GLOBALS["builtins:__dict__"] = ("Dict[Str,Any]", "the builtins namespace")
GLOBALS["mako.runtime:UNDEFINED"] = ("Any", "the UNDEFINED singleton")

CLASS("mako.template:Template",
      fields={"reserved_names": "Set[Str]", "lookup": "Opt[Obj[LookupAPI]]", "uri": "Str",
              "module": "Obj[Module]", "callable_": "Fun[render_callable]",
              "format_exceptions": "Any", "error_handler": "Opt[Fun[error_handler]]",
              "include_error_handler": "Opt[Fun[error_handler]]",
              "output_encoding": "Opt[Str]", "encoding_errors": "Str", "enable_loop": "Bool",
              "cache_enabled": "Any", "cache_args": "Dict[Str,Any]", "filename": "Opt[Str]",
              "parent": "Opt[Obj[Template]]"})
CLASS("mako.template:DefTemplate", bases=["Template"], fields={})
CLASS("mako.template:Module", name="Module",
      fields={"_template_uri": "Str", "_modified_time": "Real", "__name__": "Str",
              "_magic_number": "Int", "_source_encoding": "Opt[Str]"})
CLASS("mako.lookup:TemplateCollection", name="LookupAPI", fields={})
CLASS("mako.lookup:TemplateLookup", bases=["LookupAPI"], fields={})

C("mako.runtime:Context.__init__",
  params={"self": "Context", "buffer": "FastEncodingBuffer", "**data": "Dict[Str,Any]"},
  modifies=["ptr(self._buffer_stack)", "ptr(self._data)", "ptr(self._kwargs)", "ptr(self._with_template)",
            "ptr(self._outputting_as_unicode)", "ptr(self.namespaces)", "ptr(self.caller_stack)", "data"],
  ensures=[("one-buffer", "len(self._buffer_stack) == 1 and same(self._buffer_stack[0], buffer)"),
           ("kwargs-are-the-arguments", "self._kwargs == old(data)"),
           ("kwargs-is-a-copy", "not same(self._kwargs, self._data) and fresh(self._kwargs)"),
           ("data-has-arguments", "forall(lambda k: implies(k in old(data) and k != 'capture' and k != 'caller', k in self._data and same(self._data[k], old(data)[k])), ty='Str')"),
           ("data-has-nothing-else", "forall(lambda k: (k in self._data) == (k in old(data) or k == 'capture' or k == 'caller'), ty='Str')"),
           ("unicode-flag", "self._outputting_as_unicode is None"),
           ("caller-stack", "fresh(self.caller_stack) and len(self.caller_stack) == 0 and self.caller_stack.nextcaller is None"),
           ("caller-in-data", "'caller' in self._data and same(self._data['caller'], self.caller_stack)"),
           ("capture-in-data", "'capture' in self._data"),
           ("no-template", "self._with_template is None")],
  props=["C04"])

C("mako.runtime:Context.kwargs",
  params={"self": "Context"}, returns="Dict[Str,Any]",
  ensures=[("equal", "result == self._kwargs"), ("copy", "fresh(result)"),
           ("kwargs-untouched", "self._kwargs == old(self._kwargs)"),
           ("data-untouched", "self._data == old(self._data)")],
  props=["C04"])

C("mako.runtime:Context.__getitem__",
  params={"self": "Context", "key": "Str"}, returns="Any",
  ensures=[("data-first", "implies(key in self._data, same(result, self._data[key]))"),
           ("then-builtins", "implies(key not in self._data, key in builtins_dict() and same(result, builtins_dict()[key]))"),
           ("pure", "self._data == old(self._data)")],
  raises={"KeyError": {"when": "key not in self._data and key not in builtins_dict()",
                       "ensures": [("pure", "self._data == old(self._data)")]}},
  props=["C04"])

C("mako.runtime:Context.get",
  params={"self": "Context", "key": "Str", "default": "Any"}, returns="Any",
  ensures=[("data-first", "implies(key in self._data, same(result, self._data[key]))"),
           ("then-builtins", "implies(key not in self._data and key in builtins_dict(), same(result, builtins_dict()[key]))"),
           ("then-default", "implies(key not in self._data and key not in builtins_dict(), same(result, default))"),
           ("pure", "self._data == old(self._data)")],
  props=["C04"])

C("mako.runtime:Context._copy",
  params={"self": "Context"}, returns="Context",
  ensures=[("fresh", "fresh(result)"),
           ("shares-buffer-stack", "same(result._buffer_stack, self._buffer_stack)"),
           ("shares-caller-stack", "same(result.caller_stack, self.caller_stack)"),
           ("shares-namespaces", "same(result.namespaces, self.namespaces)"),
           ("shares-kwargs", "same(result._kwargs, self._kwargs)"),
           ("same-template", "same(result._with_template, self._with_template)"),
           ("same-unicode-flag", "same(result._outputting_as_unicode, self._outputting_as_unicode)"),
           ("data-copied", "result._data == self._data and fresh(result._data)"),
           ("self-untouched", "self._data == old(self._data) and self._kwargs == old(self._kwargs)")],
  props=["C04", "C07"])

C("mako.runtime:Context._locals",
  params={"self": "Context", "d": "Dict[Str,Any]"}, returns="Context",
  ensures=[("empty-means-self", "implies(not dict_nonempty(d), same(result, self))"),
           ("updated", "implies(dict_nonempty(d), fresh(result) and fresh(result._data) and result._data == dict_update(old(self._data), d))"),
           ("shares-stacks", "same(result._buffer_stack, self._buffer_stack) and same(result.caller_stack, self.caller_stack)"),
           ("kwargs-shared", "same(result._kwargs, self._kwargs)"),
           ("same-render", "same(result._with_template, self._with_template) and same(result._outputting_as_unicode, self._outputting_as_unicode)"),
           ("self-data-untouched", "self._data == old(self._data)"),
           ("self-kwargs-untouched", "self._kwargs == old(self._kwargs)")],
  props=["C04"])

C("mako.runtime:Context._clean_inheritance_tokens",
  params={"self": "Context"}, returns="Context",
  ensures=[("fresh", "fresh(result) and fresh(result._data)"),
           ("tokens-removed", "'self' not in result._data and 'parent' not in result._data and 'next' not in result._data"),
           ("rest-kept", "forall(lambda k: implies(k != 'self' and k != 'parent' and k != 'next', (k in result._data) == (k in self._data) and implies(k in self._data, same(result._data[k], self._data[k]))), ty='Str')"),
           ("shares-stacks", "same(result._buffer_stack, self._buffer_stack) and same(result.caller_stack, self.caller_stack)"),
           ("self-data-untouched", "self._data == old(self._data)")],
  props=["C04", "C07"])

C("mako.runtime:Context._set_with_template",
  params={"self": "Context", "t": "Template"},
  modifies=["ptr(self._with_template)"],
  ensures=[("set", "same(self._with_template, t)"),
           ("no-reserved", "not exists(lambda k: k in t.reserved_names and k in self._data, ty='Str')")],
  raises={"NameConflictError": {"when": "exists(lambda k: k in t.reserved_names and k in self._data, ty='Str')"}},
  props=["C04"])

C("mako.runtime:Context.keys",
  params={"self": "Context"}, returns="List[Str]",
  ensures=[("exactly-data-keys", "forall(lambda k: (k in self._data) == (k in result), ty='Str')"),
           ("pure", "self._data == old(self._data)")],
  props=["C04"])

C("mako.runtime:Undefined.__str__",
  params={"self": "Undefined"}, returns="Str",
  ensures=[("never-returns", "False")],
  raises={"NameError": {}}, props=["C04"])

C("mako.runtime:Undefined.__bool__",
  params={"self": "Undefined"}, returns="Bool",
  ensures=[("falsy", "result == False")], props=["C04"])

CLASS("mako.runtime:Undefined", fields={})
