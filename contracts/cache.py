"""Contracts for mako.cache.Cache (C17)."""
from vrf.pyvc.spec import C, ASSUME, CLASS, FUNSPEC, GHOST, CONTRACTS

GHOST("created", "Int", "number of times a creation function (the body of a cached section) has run")
GHOST("impl_kw", "Dict[Str,Any]", "keyword arguments of the most recent backend call")
GHOST("impl_key", "Any", "key of the most recent backend call")
GHOST("impl_calls", "Int", "backend calls so far")

CLASS("mako.template:Template", name="TemplateC", fields={"cache_enabled": "Any", "cache_args": "Dict[Str,Any]", "cache_impl": "Str"})
CLASS("mako.cache:CacheImpl", name="CacheImpl", fields={"pass_context": "Any", "store": "Dict[Any,Any]"})
CLASS("mako.cache:Cache", name="Cache", fields={"template": "TemplateC", "impl": "CacheImpl", "_def_regions": "Dict[Any,Dict[Str,Any]]", "id": "Str"})

FUNSPEC("creation_function", params={}, returns="Any", modifies=["G.created"],
        ensures=[("ran", "G.created == old(G.created) + 1")],
        raises={"*": {"ensures": [("ran", "G.created == old(G.created) + 1")]}},
        note="the wrapped render callable of a cached section")

_LOG = ["G.impl_kw", "G.impl_key", "G.impl_calls"]
ASSUME("mako.cache:CacheImpl.get_or_create",
       params={"self": "CacheImpl", "key": "Any", "creation_function": "Fun[creation_function]", "**kw": "Dict[Str,Any]"}, returns="Any",
       modifies=["self.store", "G.created"] + _LOG,
       ensures=[("hit-replays", "implies(key in old(self.store), same(result, old(self.store)[key]) and G.created == old(G.created) and self.store == old(self.store))"),
                ("miss-creates-once-and-stores", "implies(key not in old(self.store), G.created == old(G.created) + 1 and self.store == dict_set(old(self.store), key, result))"),
                ("logged", "same(G.impl_kw, kw) and same(G.impl_key, key) and G.impl_calls == old(G.impl_calls) + 1")],
       raises={"*": {"ensures": [("at-most-once", "G.created <= old(G.created) + 1")]}},
       note="the documented CacheImpl API: return the stored value, or call the creation function once, store and return its value")
for _m, _ens in (("set", "self.store == dict_set(old(self.store), key, value)"), ):
    ASSUME("mako.cache:CacheImpl." + _m, params={"self": "CacheImpl", "key": "Any", "value": "Any", "**kw": "Dict[Str,Any]"},
           modifies=["self.store"] + _LOG, ensures=[("stored", _ens), ("logged", "same(G.impl_kw, kw) and same(G.impl_key, key) and G.impl_calls == old(G.impl_calls) + 1")],
           raises={"*": {}})
ASSUME("mako.cache:CacheImpl.get", params={"self": "CacheImpl", "key": "Any", "**kw": "Dict[Str,Any]"}, returns="Any", modifies=_LOG,
       ensures=[("value", "implies(key in self.store, same(result, self.store[key]))"), ("logged", "same(G.impl_kw, kw) and same(G.impl_key, key) and G.impl_calls == old(G.impl_calls) + 1")],
       raises={"*": {}})
ASSUME("mako.cache:CacheImpl.invalidate", params={"self": "CacheImpl", "key": "Any", "**kw": "Dict[Str,Any]"}, modifies=["self.store"] + _LOG,
       ensures=[("removed", "key not in self.store and forall(lambda k: implies(k != key, (k in self.store) == (k in old(self.store)) and same(self.store[k], old(self.store)[k])), ty='Any')"),
                ("logged", "same(G.impl_kw, kw) and same(G.impl_key, key) and G.impl_calls == old(G.impl_calls) + 1")],
       raises={"*": {}})

_DEFNAME = "old(kw).get('__M_defname', None)"
_HASDEF = "('__M_defname' in old(kw) and old(kw)['__M_defname'] is not None and truthy(old(kw)['__M_defname']))"
_MERGED_KEYS = "(k in old(self.template.cache_args) or (k in old(kw) and k != '__M_defname'))"
_MERGED_VAL = "ite(k in old(kw) and k != '__M_defname', old(kw)[k], old(self.template.cache_args)[k])"
_CTX = "(context is not None and truthy(context) and truthy(self.impl.pass_context))"
_BASE_IS_MERGE = ("forall(lambda k: implies(k != 'context' or not %s, (k in result) == %s and implies(k in result, same(result[k], %s))), ty='Str')"
                  % (_CTX, _MERGED_KEYS, _MERGED_VAL))

C("mako.cache:Cache._get_cache_kw",
  params={"self": "Cache", "kw": "Dict[Str,Any]", "context": "Any"}, returns="Dict[Str,Any]",
  requires=[("kw-is-the-callers-own-dict", "not same(kw, self.template.cache_args)"),
            ("regions-do-not-alias-the-callers-dict", "forall(lambda n: implies(n in self._def_regions, not same(self._def_regions[n], kw)), ty='Any')"),
            ("regions-do-not-alias-the-template-arguments", "forall(lambda n: implies(n in self._def_regions, not same(self._def_regions[n], self.template.cache_args) and self._def_regions[n] is not None and allocated(self._def_regions[n])), ty='Any')"),
            ("template-arguments-present", "self.template.cache_args is not None")],
  modifies=["kw", "self._def_regions", "fresh_heap('ddom:Str~Any')", "fresh_heap('dval:Str~Any')"],
  ensures=[("template-arguments-never-modified", "self.template.cache_args == old(self.template.cache_args)"),
           ("no-section-name: template arguments overridden by the given ones",
            "implies(not %s, %s)" % (_HASDEF, _BASE_IS_MERGE)),
           ("first-use-of-a-section: template arguments overridden by the section's, and frozen",
            "implies(%s and old(kw)['__M_defname'] not in old(self._def_regions), %s)" % (_HASDEF, _BASE_IS_MERGE)),
           ("later-uses: the frozen arguments",
            "implies(%s and old(kw)['__M_defname'] in old(self._def_regions), forall(lambda k: implies(k != 'context' or not %s, (k in result) == (k in old(self._def_regions[old(kw)['__M_defname']])) and implies(k in result, same(result[k], old(self._def_regions[old(kw)['__M_defname']][k])))), ty='Str'))" % (_HASDEF, _CTX)),
           ("context-handed-over-when-asked-for", "implies(%s, 'context' in result)" % _CTX),
           ("frozen-arguments-of-other-sections-kept", "forall(lambda n: implies(n in old(self._def_regions), n in self._def_regions and same(self._def_regions[n], old(self._def_regions)[n]) and content(self._def_regions[n]) == old(content(self._def_regions[n]))), ty='Any')")],
  raises={},
  locals={"tmpl_kw": "Dict[Str,Any]", "defname": "Any"},
  props=["C17"], native_skip=True)

C("mako.cache:Cache._ctx_get_or_create",
  params={"self": "Cache", "key": "Any", "creation_function": "Fun[creation_function]", "context": "Any", "**kw": "Dict[Str,Any]"}, returns="Any",
  requires=CONTRACTS["mako.cache:Cache._get_cache_kw"].requires,
  modifies=["kw", "self._def_regions", "self.impl.store", "G.created", "fresh_heap('ddom:Str~Any')", "fresh_heap('dval:Str~Any')"] + _LOG,
  ensures=[("disabled: the body runs every time and the backend is not consulted",
            "implies(not truthy(self.template.cache_enabled), G.created == old(G.created) + 1 and self.impl.store == old(self.impl.store) and G.impl_calls == old(G.impl_calls))"),
           ("enabled: the body runs only when the backend has no value for the key",
            "implies(truthy(self.template.cache_enabled), G.created == old(G.created) + ite(key in old(self.impl.store), 0, 1))"),
           ("enabled: a stored value is replayed as it is",
            "implies(truthy(self.template.cache_enabled) and key in old(self.impl.store), same(result, old(self.impl.store)[key]) and self.impl.store == old(self.impl.store))"),
           ("enabled: a new value is stored under the key", "implies(truthy(self.template.cache_enabled) and key not in old(self.impl.store), self.impl.store == dict_set(old(self.impl.store), key, result))"),
           ("the backend is asked with this key", "implies(truthy(self.template.cache_enabled), same(G.impl_key, key) and G.impl_calls == old(G.impl_calls) + 1)")],
  raises={"*": {"ensures": [("at-most-once", "G.created <= old(G.created) + 1")]}},
  props=["C17"], native_skip=True)

_REQ = CONTRACTS["mako.cache:Cache._get_cache_kw"].requires
_MOD = ["kw", "self._def_regions", "self.impl.store", "fresh_heap('ddom:Str~Any')", "fresh_heap('dval:Str~Any')"] + _LOG
_ASKED_FROZEN = ("forall(lambda k: (k in G.impl_kw) == (k in old(self._def_regions[%s])) and implies(k in G.impl_kw, same(G.impl_kw[k], old(self._def_regions[%s][k]))), ty='Str')")
_ASKED_FROZEN = _ASKED_FROZEN.replace("%s", "%(n)s")
C("mako.cache:Cache.invalidate", params={"self": "Cache", "key": "Any", "**kw": "Dict[Str,Any]"},
  requires=_REQ, modifies=_MOD,
  ensures=[("entry-gone", "key not in self.impl.store"),
           ("other-entries-kept", "forall(lambda k: implies(k != key, (k in self.impl.store) == (k in old(self.impl.store)) and same(self.impl.store[k], old(self.impl.store)[k])), ty='Any')"),
           ("no-body-runs", "G.created == old(G.created)"),
           ("asked-with-this-key", "same(G.impl_key, key)"),
           ("a known section is invalidated with that section's own frozen arguments",
            "implies(%s and old(kw)['__M_defname'] in old(self._def_regions), %s)" % (_HASDEF, _ASKED_FROZEN % {"n": "old(kw)['__M_defname']"})),
           ("without a section name the template's arguments overridden by the given ones are used",
            "implies(not %s, forall(lambda k: (k in G.impl_kw) == %s and implies(k in G.impl_kw, same(G.impl_kw[k], %s)), ty='Str'))" % (_HASDEF, _MERGED_KEYS, _MERGED_VAL))],
  raises={"*": {}}, props=["C17"], native_skip=True)
C("mako.cache:Cache.set", params={"self": "Cache", "key": "Any", "value": "Any", "**kw": "Dict[Str,Any]"},
  requires=_REQ, modifies=_MOD,
  ensures=[("stored", "self.impl.store == dict_set(old(self.impl.store), key, value)"), ("no-body-runs", "G.created == old(G.created)")],
  raises={"*": {}}, props=["C17"], native_skip=True)
C("mako.cache:Cache.get", params={"self": "Cache", "key": "Any", "**kw": "Dict[Str,Any]"}, returns="Any",
  requires=_REQ, modifies=[m for m in _MOD if m != "self.impl.store"],
  ensures=[("value", "implies(key in self.impl.store, same(result, self.impl.store[key]))"), ("store-untouched", "self.impl.store == old(self.impl.store)"),
           ("no-body-runs", "G.created == old(G.created)")],
  raises={"*": {}}, props=["C17"], native_skip=True)
C("mako.cache:Cache.get_or_create", params={"self": "Cache", "key": "Any", "creation_function": "Fun[creation_function]", "**kw": "Dict[Str,Any]"}, returns="Any",
  requires=_REQ, modifies=_MOD + ["G.created"],
  ensures=[("runs-only-when-absent", "implies(truthy(self.template.cache_enabled), G.created == old(G.created) + ite(key in old(self.impl.store), 0, 1))"),
           ("replays", "implies(truthy(self.template.cache_enabled) and key in old(self.impl.store), same(result, old(self.impl.store)[key]))")],
  raises={"*": {"ensures": [("at-most-once", "G.created <= old(G.created) + 1")]}}, props=["C17"], native_skip=True)

for _name, _key, _params in (("invalidate_body", "'render_body'", {"self": "Cache"}),
                             ("invalidate_def", "'render_' + name", {"self": "Cache", "name": "Str"}),
                             ("invalidate_closure", "name", {"self": "Cache", "name": "Str"})):
    C("mako.cache:Cache." + _name, params=_params,
      requires=_REQ[2:],
      modifies=["self._def_regions", "self.impl.store", "fresh_heap('ddom:Str~Any')", "fresh_heap('dval:Str~Any')"] + _LOG,
      ensures=[("the-section's-entry-is-gone", "box(%s) not in self.impl.store" % _key),
               ("other-entries-kept", "forall(lambda k: implies(k != box(%s), (k in self.impl.store) == (k in old(self.impl.store)) and same(self.impl.store[k], old(self.impl.store)[k])), ty='Any')" % _key),
               ("no-body-runs", "G.created == old(G.created)"),
               ("a section that has been rendered is invalidated where it was stored: with its own frozen arguments",
                "implies(len(%s) > 0 and box(%s) in old(self._def_regions), %s)" % (_key, _key, _ASKED_FROZEN % {"n": "box(%s)" % _key}))],
      raises={"*": {}}, props=["C17"], native_skip=True)
