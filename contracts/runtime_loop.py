"""Contracts for LoopStack / LoopContext (C03, C13)."""
from vrf.pyvc.spec import C, CLASS, FUNSPEC

CLASS("mako.runtime:LoopContext",
      fields={"_iterable": "Fun[iterable]", "index": "Int", "parent": "Opt[Obj[LoopContext]]"},
      properties={"reverse_index": "mako.runtime:LoopContext.reverse_index",
                  "first": "mako.runtime:LoopContext.first",
                  "last": "mako.runtime:LoopContext.last",
                  "even": "mako.runtime:LoopContext.even",
                  "odd": "mako.runtime:LoopContext.odd"})

CLASS("mako.runtime:LoopStack",
      fields={"stack": "List[Obj[LoopContext]]"},
      properties={"_top": "mako.runtime:LoopStack._top"})

FUNSPEC("iterable",
        params={}, returns="Any",
        raises={"StopIteration": {}, "*": {}},
        note="an arbitrary iterable: each step yields an item, stops, or raises; it touches no mako state")

# ---- LoopContext ----------------------------------------------------------

C("mako.runtime:LoopContext.__init__",
  params={"self": "LoopContext", "iterable": "Fun[iterable]"},
  modifies=["ptr(self._iterable)", "ptr(self.index)", "ptr(self.parent)"],
  ensures=[("index0", "self.index == 0"), ("no-parent", "self.parent is None"),
           ("iterable", "same(self._iterable, iterable)")],
  props=["C03"])

C("mako.runtime:LoopContext.__iter__",
  params={"self": "LoopContext"},
  requires=[("fresh-loop", "self.index == 0")],
  modifies=["ptr(self.index)"],
  loops={0: {"inv": [("index-counts", "self.index == _i0")], "modifies": ["ptr(self.index)"]}},
  at_yield=[("index-is-iteration-count", "self.index == _i0")],
  ensures=[("index-final", "self.index >= 0")],
  raises={"*": {}},
  props=["C03"],
  note="at the k-th yield (0-based) index == k; the consumer does not assign index between yields (3.1.7)")

C("mako.runtime:LoopContext.__len__",
  params={"self": "LoopContext"}, returns="Int",
  ensures=[("len", "result == len_of(self._iterable)"), ("sized", "is_sized(self._iterable)"),
           ("nonneg", "result >= 0")],
  raises={"TypeError": {"when": "not is_sized(self._iterable)"}},
  props=["C03"],
  note="decorated with memoized_instancemethod: later calls return the first value (assumed, util.py)")

C("mako.runtime:LoopContext.reverse_index",
  params={"self": "LoopContext"}, returns="Int",
  ensures=[("def", "result == len_of(self._iterable) - self.index - 1")],
  raises={"TypeError": {"when": "not is_sized(self._iterable)"}},
  props=["C03"])

C("mako.runtime:LoopContext.first",
  params={"self": "LoopContext"}, returns="Bool",
  ensures=[("def", "result == (self.index == 0)")], props=["C03"])

C("mako.runtime:LoopContext.last",
  params={"self": "LoopContext"}, returns="Bool",
  ensures=[("def", "result == (self.index == len_of(self._iterable) - 1)")],
  raises={"TypeError": {"when": "not is_sized(self._iterable)"}},
  props=["C03"])

C("mako.runtime:LoopContext.odd",
  params={"self": "LoopContext"}, returns="Bool",
  requires=[("nonneg", "self.index >= 0")],
  ensures=[("def", "result == (self.index % 2 == 1)")], props=["C03"])

C("mako.runtime:LoopContext.even",
  params={"self": "LoopContext"}, returns="Bool",
  requires=[("nonneg", "self.index >= 0")],
  ensures=[("def", "result == (self.index % 2 == 0)")], props=["C03"])

C("mako.runtime:LoopContext.cycle",
  params={"self": "LoopContext", "*values": "Seq[Any]"}, returns="Any",
  requires=[("nonneg", "self.index >= 0")],
  ensures=[("def", "same(result, values[self.index % len(values)])"), ("nonempty", "len(values) > 0")],
  raises={"ValueError": {"when": "len(values) == 0"}},
  props=["C03"])

# ---- LoopStack ------------------------------------------------------------

C("mako.runtime:LoopStack.__init__",
  params={"self": "LoopStack"},
  modifies=["ptr(self.stack)"],
  ensures=[("empty", "len(self.stack) == 0"), ("fresh", "fresh(self.stack)")],
  props=["C03"])

C("mako.runtime:LoopStack._top",
  params={"self": "LoopStack"}, returns="Any",
  ensures=[("top", "implies(len(self.stack) > 0, same(result, self.stack[len(self.stack) - 1]))"),
           ("self-when-empty", "implies(len(self.stack) == 0, same(result, self))"),
           ("pure", "self.stack == old(self.stack)")],
  props=["C03"])

C("mako.runtime:LoopStack._push",
  params={"self": "LoopStack", "iterable": "Fun[iterable]"},
  modifies=["self.stack", "fresh_heap('f:LoopContext.index')", "fresh_heap('f:LoopContext.parent')", "fresh_heap('f:LoopContext._iterable')"],
  ensures=[("pushed-one", "self.stack == old(self.stack) + [self.stack[len(old(self.stack))]]"),
           ("below-kept", "self.stack[:len(old(self.stack))] == old(self.stack)"),
           ("fresh-ctx", "fresh(self.stack[len(self.stack) - 1])"),
           ("index0", "self.stack[len(self.stack) - 1].index == 0"),
           ("iterable", "same(self.stack[len(self.stack) - 1]._iterable, iterable)"),
           ("parent", "same(self.stack[len(self.stack) - 1].parent, ite(len(old(self.stack)) > 0, old(self.stack)[len(old(self.stack)) - 1], None))"),
           ("others-untouched", "forall(lambda r: implies(0 < r and r < old(alloc), lc_index(r) == old(lc_index(r)) and same(lc_parent(r), old(lc_parent(r))) and same(lc_iterable(r), old(lc_iterable(r)))))")],
  props=["C03", "C13"])

C("mako.runtime:LoopStack._pop",
  params={"self": "LoopStack"}, returns="LoopContext",
  requires=[("nonempty", "len(self.stack) >= 1")],
  modifies=["self.stack"],
  ensures=[("popped", "self.stack == old(self.stack)[:len(old(self.stack)) - 1]"),
           ("returns-top", "same(result, old(self.stack)[len(old(self.stack)) - 1])")],
  props=["C03", "C13"])

C("mako.runtime:LoopStack._enter",
  params={"self": "LoopStack", "iterable": "Fun[iterable]"}, returns="Any",
  modifies=["self.stack", "fresh_heap('f:LoopContext.index')", "fresh_heap('f:LoopContext.parent')", "fresh_heap('f:LoopContext._iterable')"],
  ensures=[("pushed-one", "self.stack == old(self.stack) + [self.stack[len(old(self.stack))]]"),
           ("below-kept", "self.stack[:len(old(self.stack))] == old(self.stack)"),
           ("returns-new-top", "same(result, self.stack[len(self.stack) - 1])"),
           ("fresh-ctx", "fresh(self.stack[len(self.stack) - 1])"),
           ("index0", "self.stack[len(self.stack) - 1].index == 0"),
           ("iterable", "same(self.stack[len(self.stack) - 1]._iterable, iterable)"),
           ("parent", "same(self.stack[len(self.stack) - 1].parent, ite(len(old(self.stack)) > 0, old(self.stack)[len(old(self.stack)) - 1], None))")],
  props=["C03", "C13"])

C("mako.runtime:LoopStack._exit",
  params={"self": "LoopStack"}, returns="Any",
  requires=[("nonempty", "len(self.stack) >= 1")],
  modifies=["self.stack"],
  ensures=[("popped", "self.stack == old(self.stack)[:len(old(self.stack)) - 1]"),
           ("returns-enclosing", "same(result, ite(len(self.stack) > 0, self.stack[len(self.stack) - 1], self))")],
  props=["C03", "C13"])

C("mako.runtime:LoopStack.__getattr__",
  params={"self": "LoopStack", "key": "Str"}, returns="Any",
  ensures=[("never-returns", "False")],
  raises={"RuntimeException": {}},
  props=["C03"])
