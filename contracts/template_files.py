"""Contracts for module-file handling in mako.template / mako.util (C15, C09, C18)."""
from vrf.pyvc.spec import C, ASSUME, CLASS, FUNSPEC, GHOST, GLOBALS, CLASSES, CONTRACTS
from vrf.pyvc.types import parse_ty
import contracts.lookup  # noqa: Template / fs views

# ---- ghost file-system events of the module writer -------------------------------------
GHOST("tmp_made", "Int", "temp files created by mkstemp so far")
GHOST("tmp_name", "Str", "name of the most recently created temp file")
GHOST("tmp_dir", "Str", "directory it was created in")
GHOST("tmp_fd", "Int", "its descriptor")
GHOST("w_fd", "Int", "descriptor of the most recent os.write")
GHOST("w_data", "Bytes", "data of the most recent os.write")
GHOST("w_count", "Int", "number of completed os.write calls")
GHOST("moves", "Int", "number of completed shutil.move calls")
GHOST("mv_src", "Str", "source of the most recent move")
GHOST("mv_dst", "Str", "destination of the most recent move")
GHOST("mv_wseq", "Int", "number of completed os-level writes at the moment of the most recent move")
GHOST("pend", "Int", "writes sitting in a buffered file object, not yet flushed to the descriptor")
GHOST("pend_data", "Bytes", "data of the most recent buffered write")
GHOST("pend_fd", "Int", "descriptor it will go to")
GHOST("truncs", "Int", "files opened for writing by path (truncated in place at once)")
GHOST("trunc_path", "Str", "path of the most recent one")
GHOST("mw_calls", "Int", "module_writer invocations")
GHOST("mw_data", "Bytes", "its most recent first argument")
GHOST("mw_path", "Str", "its most recent second argument")
GHOST("compiles", "Int", "number of _compile_module_file runs")
GHOST("loads", "Int", "number of load_module calls")
GHOST("mkdirs", "Int", "number of os.makedirs attempts")
GHOST("ct_calls", "Int", "calls of _compile_text")

CLASS("mako.lexer:LexerResult", name="LexerR", fields={"encoding": "Opt[Str]"})
CLASSES["Template"].fields.update({"module_writer": parse_ty("Opt[Fun[module_writer]]"), "module_id": parse_ty("Str")})

FUNSPEC("module_writer", params={"source": "Bytes", "outputpath": "Str"}, returns="Any",
        modifies=["G.mw_calls", "G.mw_data", "G.mw_path"],
        ensures=[("logged", "G.mw_calls == old(G.mw_calls) + 1 and G.mw_data == source and G.mw_path == outputpath")],
        raises={"*": {"ensures": [("logged", "G.mw_calls == old(G.mw_calls) + 1 and G.mw_data == source and G.mw_path == outputpath")]}},
        note="user supplied module_writer(source_bytes, outputpath)")

ASSUME("mako.template:_compile",
       params={"template": "Template", "text": "Any", "filename": "Opt[Str]", "generate_magic_comment": "Bool"},
       returns="Tuple[Str,LexerR]",
       ensures=[("source", "result[0] == generated_source(template, text, filename, generate_magic_comment)"),
                ("lexer", "result[1] is not None and result[1].encoding == lexer_encoding(template, text, filename)")],
       raises={"*": {}},
       note="lexer + code generator: touches no file; result[1].encoding is the source encoding the lexer determined (C18)")

ASSUME("tempfile:mkstemp", params={"suffix": "Opt[Str]=None", "prefix": "Opt[Str]=None", "dir": "Opt[Str]=None"}, returns="Tuple[Int,Str]",
       modifies=["G.tmp_made", "G.tmp_name", "G.tmp_dir", "G.tmp_fd"],
       ensures=[("made", "G.tmp_made == old(G.tmp_made) + 1 and G.tmp_name == result[1] and G.tmp_fd == result[0] and G.tmp_dir == ite(dir is None, '<system temp directory>', dir)"),
                ("inside-dir", "implies(dir is not None, pdirname(result[1]) == dir)"),
                ("new-name", "fs_new_name(result[1])")],
       raises={"*": {"ensures": [("nothing-created", "G.tmp_made == old(G.tmp_made) and G.tmp_name == old(G.tmp_name) and G.tmp_fd == old(G.tmp_fd)")]}},
       note="mkstemp(dir=d) atomically creates an empty file with a name not used before, inside d")
ASSUME("os:write", params={"fd": "Int", "data": "Bytes"}, returns="Int",
       modifies=["G.w_fd", "G.w_data", "G.w_count"],
       ensures=[("wrote-all", "G.w_count == old(G.w_count) + 1 and G.w_fd == fd and G.w_data == data")],
       raises={"*": {"ensures": [("not-counted", "G.w_count == old(G.w_count)")]}},
       note="os.write writes all of data or raises (a short count is assumed away: listed assumption); a crash midway leaves a partial TEMP file only")
ASSUME("os:close", params={"fd": "Int"}, raises={"*": {}})
CLASS("io:BufferedWriter", name="BFile", fields={"fd": "Int"})
_FLUSH = "G.w_count == old(G.w_count) + old(G.pend) and G.pend == 0 and implies(old(G.pend) > 0, G.w_fd == old(G.pend_fd) and G.w_data == old(G.pend_data))"
ASSUME("os:fdopen", params={"fd": "Int", "mode": "Str='r'"}, returns="BFile", ensures=[("wraps", "fresh(result) and result.fd == fd")],
       raises={"*": {}}, note="a buffered file object over the descriptor: data reaches the descriptor at flush/close, not at write")
ASSUME("builtins:open", params={"file": "Str", "mode": "Str='r'"}, returns="BFile", modifies=["G.truncs", "G.trunc_path"],
       ensures=[("opened", "fresh(result) and result.fd == fd_of_path(file)"),
                ("write-modes-truncate-in-place", "implies(str_contains(mode, 'w'), G.truncs == old(G.truncs) + 1 and G.trunc_path == file)"),
                ("read-modes-do-not", "implies(not str_contains(mode, 'w'), G.truncs == old(G.truncs))")],
       raises={"*": {"ensures": [("maybe-truncated", "G.truncs <= old(G.truncs) + 1")]}},
       note="open(path, 'w...') empties the file at that very path at once")
ASSUME("io:BufferedWriter.write", params={"self": "BFile", "data": "Bytes"}, returns="Int", modifies=["G.pend", "G.pend_data", "G.pend_fd"],
       ensures=[("buffered", "G.pend == old(G.pend) + 1 and G.pend_data == data and G.pend_fd == self.fd")],
       raises={"*": {"ensures": [("not-buffered", "G.pend == old(G.pend)")]}},
       note="buffered write: nothing reaches the file before flush/close (the worst case for crash consistency)")
for _m, _ps in (("flush", {"self": "BFile"}), ("close", {"self": "BFile"}), ("__exit__", {"self": "BFile", "a": "Any", "b": "Any", "c": "Any"})):
    ASSUME("io:BufferedWriter." + _m, params=_ps, returns="Any", modifies=["G.pend", "G.w_count", "G.w_fd", "G.w_data"],
           ensures=[("flushed", _FLUSH)], raises={"*": {"ensures": [("lost", "G.w_count == old(G.w_count)")]}})
ASSUME("io:BufferedWriter.__enter__", params={"self": "BFile"}, returns="BFile", ensures=[("self", "same(result, self)")])
for _k in ("os.path:dirname", "posixpath:dirname"):
    ASSUME(_k, params={"p": "Str"}, returns="Str", ensures=[("def", "result == pdirname(p)")])
ASSUME("shutil:move", params={"src": "Str", "dst": "Str"}, returns="Any",
       modifies=["G.moves", "G.mv_src", "G.mv_dst", "G.mv_wseq"],
       ensures=[("moved", "G.moves == old(G.moves) + 1 and G.mv_src == src and G.mv_dst == dst and G.mv_wseq == G.w_count")],
       raises={"*": {"ensures": [("atomic", "G.moves == old(G.moves)")]}},
       note="within one directory shutil.move is os.rename: atomic, all or nothing")

_NOFS = "G.tmp_made == old(G.tmp_made) and G.w_count == old(G.w_count) and G.moves == old(G.moves)"

C("mako.template:_compile_module_file",
  params={"template": "Template", "text": "Any", "filename": "Opt[Str]", "outputpath": "Str", "module_writer": "Opt[Fun[module_writer]]"},
  modifies=["G.tmp_made", "G.tmp_name", "G.tmp_dir", "G.tmp_fd", "G.w_fd", "G.w_data", "G.w_count", "G.moves", "G.mv_src", "G.mv_dst",
            "G.mw_calls", "G.mw_data", "G.mw_path", "G.mv_wseq", "G.pend", "G.pend_data", "G.pend_fd"],
  ensures=[("custom-writer-gets-encoded-source-and-path",
            "implies(module_writer is not None, G.mw_calls == old(G.mw_calls) + 1 and G.mw_path == outputpath and G.mw_data == encoded_source(template, text, filename) and %s)" % _NOFS),
           ("default-writer-not-used-with-custom", "implies(module_writer is not None, G.moves == old(G.moves))"),
           ("temp-in-the-target-directory", "implies(module_writer is None, G.tmp_made == old(G.tmp_made) + 1 and G.tmp_dir == pdirname(outputpath))"),
           ("whole-source-written-to-the-temp", "implies(module_writer is None, G.w_count == old(G.w_count) + 1 and G.w_fd == G.tmp_fd and G.w_data == encoded_source(template, text, filename))"),
           ("one-atomic-move-of-the-temp-onto-the-target", "implies(module_writer is None, G.moves == old(G.moves) + 1 and G.mv_src == G.tmp_name and G.mv_dst == outputpath)"),
           ("moved-only-after-the-data-had-reached-the-temp", "implies(module_writer is None, G.mv_wseq == old(G.w_count) + 1 and G.pend == old(G.pend))"),
           ("custom-writer-untouched-by-default-path", "implies(module_writer is None, G.mw_calls == old(G.mw_calls))")],
  raises={"*": {"ensures": [
      ("crash-point-invariant: target only ever replaced by a complete temp",
       "G.moves == old(G.moves) or (G.moves == old(G.moves) + 1 and G.mv_dst == outputpath and G.mv_src == G.tmp_name and G.w_count == old(G.w_count) + 1 and G.w_data == encoded_source(template, text, filename) and G.w_fd == G.tmp_fd and G.mv_wseq == old(G.w_count) + 1)"),
      ("at-most-one-temp", "G.tmp_made <= old(G.tmp_made) + 1")]}},
  props=["C15", "C09"], native_skip=True)

# ---- verify_directory -------------------------------------------------------------------
for _k in ("os.path:exists", "posixpath:exists"):
    ASSUME(_k, params={"path": "Str"}, returns="Bool", raises={}, ensures=[("fs", "result == fs_exists(path)")],
           note="os.path.exists on a file system that is stable during one call (sequential view)")
ASSUME("os:makedirs", params={"name": "Str", "mode": "Int"}, modifies=["G.mkdirs"],
       ensures=[("counted", "G.mkdirs == old(G.mkdirs) + 1")],
       raises={"*": {"ensures": [("counted", "G.mkdirs == old(G.mkdirs) + 1")]}})

C("mako.util:verify_directory",
  params={"dir_": "Str"},
  modifies=["G.mkdirs"],
  loops={0: {"inv": [("tries-count-attempts", "tries == G.mkdirs - old(G.mkdirs) and tries >= 0", "P")],
             "modifies": ["G.mkdirs"]}},
  ensures=[("bounded-attempts-unless-it-keeps-succeeding", "G.mkdirs >= old(G.mkdirs)")],
  raises={"*": {"ensures": [("gives-up-only-from-the-sixth-attempt-on", "G.mkdirs >= old(G.mkdirs) + 6")]}},
  locals={"tries": "Int"},
  props=["C15"], native_skip=True,
  note="termination in the failing case: at most 6 attempts; (a directory that keeps vanishing after successful makedirs is outside the model)")

# ---- _compile_from_file -----------------------------------------------------------------
CLASSES["Module"].fields["_magic_number"] = parse_ty("Int")
GLOBALS["mako.codegen:MAGIC_NUMBER"] = ("Int", "")
GLOBALS["stat:ST_MTIME"] = ("Int", "")

ASSUME("mako.util:verify_directory@caller", params={"dir_": "Str"}, raises={"*": {}})
ASSUME("mako.util:read_file", params={"path": "Str", "mode": "Str"}, returns="Any", raises={"*": {}},
       ensures=[("content", "same(result, fs_content(path))")])
ASSUME("mako.compat:load_module", params={"module_id": "Str", "path": "Str"}, returns="Module",
       modifies=["G.loads"], ensures=[("loaded", "G.loads == old(G.loads) + 1"), ("fresh", "fresh(result)"),
                                      ("magic-of-the-file", "result._magic_number == file_magic(path, G.compiles)")],
       raises={"*": {}},
       note="imports the module file as it is on disk now; file_magic(path, n) = magic number of the file after n rewrites")
ASSUME("mako.template:_translate_module_warnings", params={"get_source": "Any", "module_id": "Str", "filename": "Opt[Str]"}, returns="Any")
ASSUME("mako.template:_drop_expression_warnings", params={}, returns="Any")
CONTRACTS["mako.template:_translate_module_warnings"].transparent_cm = True
CONTRACTS["mako.template:_drop_expression_warnings"].transparent_cm = True
ASSUME("mako.template:ModuleInfo.__init__",
       params={"self": "ModuleInfo", "module": "Any", "module_filename": "Any", "template": "Any", "template_filename": "Any",
               "module_source": "Any", "template_source": "Any", "template_uri": "Any"}, raises={"*": {}})
CLASS("mako.template:ModuleInfo", fields={})
ASSUME("mako.template:_compile_text", params={"template": "Template", "text": "Any", "filename": "Opt[Str]"},
       returns="Tuple[Str,Module]", raises={"*": {}}, modifies=["G.ct_calls"])
CONTRACTS["mako.template:_compile_text"].call_ghost = {"ct_calls": 1}


_STALE = "(not fs_exists(path) or fs_mtime(path) < fs_mtime(filename))"
_WR = ["G.tmp_made", "G.tmp_name", "G.tmp_dir", "G.tmp_fd", "G.w_fd", "G.w_data", "G.w_count", "G.moves", "G.mv_src", "G.mv_dst",
       "G.mw_calls", "G.mw_data", "G.mw_path", "G.mv_wseq", "G.pend", "G.pend_data", "G.pend_fd"]

# a second, counting view of the writer for its caller (same function, the ghost counter `compiles`
# is incremented by the call rule; its own contract above is what is verified)
CONTRACTS["mako.template:_compile_module_file"].modifies.append("G.compiles")
from vrf.pyvc.spec import Clause
CONTRACTS["mako.template:_compile_module_file"].call_ghost = {"compiles": 1}

C("mako.template:Template._compile_from_file",
  params={"self": "Template", "path": "Opt[Str]", "filename": "Str"}, returns="Module",
  modifies=_WR + ["G.compiles", "G.loads", "G.fs_probes", "G.mkdirs", "fresh_heap('f:Module._magic_number')", "G.ct_calls",
                  "ptr(self._source)", "ptr(self._code)"],
  ensures=[("rewritten-iff-missing-or-older-then-iff-other-generator-version",
            "implies(path is not None, G.compiles == old(G.compiles) + ite(%s, 1, 0) + ite(file_magic(path, old(G.compiles) + ite(%s, 1, 0)) != G_int('mako.codegen:MAGIC_NUMBER'), 1, 0))" % (_STALE, _STALE)),
           ("reused-unchanged-when-current",
            "implies(path is not None and not %s and file_magic(path, old(G.compiles)) == G_int('mako.codegen:MAGIC_NUMBER'), G.moves == old(G.moves) and G.mw_calls == old(G.mw_calls) and G.w_count == old(G.w_count) and G.tmp_made == old(G.tmp_made))" % _STALE),
           ("loaded-after-the-last-rewrite", "implies(path is not None, result._magic_number == file_magic(path, G.compiles))"),
           ("one-load-per-rewrite-plus-one", "implies(path is not None, G.loads == old(G.loads) + 1 + ite(file_magic(path, old(G.compiles) + ite(%s, 1, 0)) != G_int('mako.codegen:MAGIC_NUMBER'), 1, 0))" % _STALE),
           ("no-module-path-no-module-file", "implies(path is None, G.compiles == old(G.compiles) and G.moves == old(G.moves) and G.mw_calls == old(G.mw_calls) and G.tmp_made == old(G.tmp_made) and G.loads == old(G.loads) and G.ct_calls == old(G.ct_calls) + 1)")],
  raises={"*": {}},
  props=["C15"], native_skip=True)

# ---- Template.__init__: URI guard and module path (C09), module id (C08) ---------------------
for _f, _t in {"input_encoding": "Any", "strict_undefined": "Any", "default_filters": "Any", "buffer_filters": "Any",
               "imports": "Any", "future_imports": "Any", "preprocessor": "Any", "lexer_cls": "Any", "_code": "Any",
               "_source": "Any", "module_directory": "Any", "cache_impl": "Any", "_mmarker": "Any"}.items():
    CLASSES["Template"].fields[_f] = parse_ty(_t)
CLASSES["Template"].fields["enable_loop"] = parse_ty("Any")
CLASSES["Template"].fields["default_filters"] = parse_ty("Any")
CLASSES["Module"].fields["render_body"] = parse_ty("Fun[render_callable]")
GHOST("cff_calls", "Int", "calls of Template._compile_from_file")
GHOST("cff_path", "Any", "module path handed to the most recent _compile_from_file")
GHOST("cff_filename", "Any", "source filename handed to it")

CONTRACTS["mako.template:Template._compile_from_file"].call_ghost = {"cff_calls": 1}
CONTRACTS["mako.template:Template._compile_from_file"].call_log = {"cff_path": "path", "cff_filename": "filename"}
CONTRACTS["mako.template:Template._compile_from_file"].modifies += ["G.cff_calls", "G.cff_path", "G.cff_filename"]

ASSUME("mako.template:Template._setup_cache_args",
       params={"self": "Template", "cache_impl": "Any", "cache_enabled": "Any", "cache_args": "Any", "cache_type": "Any",
               "cache_dir": "Any", "cache_url": "Any"},
       modifies=["ptr(self.cache_impl)", "ptr(self.cache_enabled)", "ptr(self.cache_args)"],
       note="stores the cache configuration (C17)")
for _k in ("os.path:splitdrive", "posixpath:splitdrive"):
    ASSUME(_k, params={"p": "Str"}, returns="Tuple[Str,Str]", ensures=[("posix", "result[0] == '' and result[1] == p")],
           note="POSIX: no drive")
for _k in ("os.path:normpath",):
    ASSUME(_k, params={"p": "Str"}, returns="Str", ensures=[("def", "result == normpath(p)")])
for _k in ("os.path:join",):
    ASSUME(_k, params={"a": "Str", "b": "Str"}, returns="Str", ensures=[("def", "result == pjoin(a, b)")])
for _k in ("os.path:abspath", "posixpath:abspath"):
    ASSUME(_k, params={"p": "Str"}, returns="Str", ensures=[("def", "result == pabspath(p)")])

_UNORM_T = "normpath(str_lstrip(str_replace_all(self.uri, '\\\\', '/'), '/'))"

C("mako.template:Template.__init__",
  params={"self": "Template", "text": "Any", "filename": "Opt[Str]", "uri": "Opt[Str]", "format_exceptions": "Any",
          "error_handler": "Opt[Fun[error_handler]]", "lookup": "Opt[Obj[LookupAPI]]", "output_encoding": "Opt[Str]",
          "encoding_errors": "Str", "module_directory": "Opt[Str]", "cache_args": "Any", "cache_impl": "Any",
          "cache_enabled": "Any", "cache_type": "Any", "cache_dir": "Any", "cache_url": "Any", "module_filename": "Opt[Str]",
          "input_encoding": "Any", "module_writer": "Opt[Fun[module_writer]]", "default_filters": "Any", "buffer_filters": "Any",
          "strict_undefined": "Any", "imports": "Any", "future_imports": "Any", "enable_loop": "Any", "preprocessor": "Any",
          "lexer_cls": "Any", "include_error_handler": "Opt[Fun[error_handler]]"},
  modifies=["heap('f:Template.')", "G.cff_calls", "G.cff_path", "G.cff_filename", "G.ct_calls"] + _WR
           + ["G.compiles", "G.loads", "G.fs_probes", "G.mkdirs"],
  ensures=[("uri-accepted-only-inside-the-root", "not %s.startswith('..')" % _UNORM_T),
           ("module-file-only-beneath-module_directory",
            "implies(text is None and filename is not None and module_filename is None and module_directory is not None, G.cff_calls == old(G.cff_calls) + 1 and G.cff_path == box(pabspath(pjoin(normpath(module_directory), %s + '.py'))))" % _UNORM_T),
           ("explicit-module-filename-is-used", "implies(text is None and filename is not None and module_filename is not None, G.cff_path == box(module_filename))"),
           ("no-module-file-without-configuration", "implies(text is None and filename is not None and module_filename is None and module_directory is None, isnone_any(G.cff_path))"),
           ("text-compiles-in-memory", "implies(text is not None, G.cff_calls == old(G.cff_calls) and G.ct_calls == old(G.ct_calls) + 1)"),
           ("source-file-is-the-given-one", "implies(text is None and filename is not None, G.cff_filename == box(filename))"),
           ("module-id-from-uri", "implies(uri is not None and truthy(uri), self.module_id == re_sub('\\\\W', '_', uri) and self.uri == uri)"),
           ("the default filters are the ones given - an empty list stays empty; str only when none were given",
            "implies(not isnone_any(default_filters), same(self.default_filters, default_filters))")],
  raises={"TemplateLookupException": {"when": "True",
                                      "ensures": [("rejected-before-any-file-is-read-or-written",
                                                   "G.cff_calls == old(G.cff_calls) and G.ct_calls == old(G.ct_calls) and G.fs_probes == old(G.fs_probes) and G.mkdirs == old(G.mkdirs) and G.compiles == old(G.compiles) and G.loads == old(G.loads)")]},
          "RuntimeException": {"when": "text is None and filename is None"},
          "*": {"ensures": [("uri-guard-came-first",
                             "implies(G.cff_calls > old(G.cff_calls) or G.ct_calls > old(G.ct_calls), not %s.startswith('..'))" % _UNORM_T)]}},
  props=["C09", "C08"], native_skip=True)
