"""Contracts for mako.lookup.TemplateLookup (C14, C09, C07)."""
from vrf.pyvc.spec import C, ASSUME, CLASS, FUNSPEC, GHOST, GLOBALS, CLASSES
from vrf.pyvc.types import parse_ty
import contracts.runtime_context  # noqa: defines the Template / TemplateLookup views

GHOST("lock", "Int", "number of times the lookup mutex is currently held by this thread")
GHOST("built", "Int", "number of Template objects successfully constructed by the lookup so far")
GHOST("fs_probes", "Int", "number of file-system probes (isfile/stat) made so far")

CLASSES["TemplateLookup"].fields.update({
    "directories": parse_ty("List[Str]"), "filesystem_checks": parse_ty("Any"),
    "_collection": parse_ty("Dict[Str,Any]"), "_uri_cache": parse_ty("Dict[Any,Str]"),
    "_mutex": parse_ty("Obj[Lock]"), "modulename_callable": parse_ty("Opt[Fun[modname]]"),
    "template_args": parse_ty("Dict[Str,Any]"), "module_directory": parse_ty("Opt[Str]"),
})
CLASS("threading:Lock", name="Lock", fields={})
CLASS("os:StatResult", name="StatResult", fields={"st_mtime_int": "Int"})
GLOBALS["os.path:sep"] = ("Str", "")
GLOBALS["posixpath:sep"] = ("Str", "")
GLOBALS["posixpath:sep"] = ("Str", "")
GLOBALS["stat:ST_MTIME"] = ("Int", "")

ASSUME("threading:Lock.acquire", params={"self": "Lock"}, returns="Bool", modifies=["G.lock"],
       ensures=[("held", "G.lock == old(G.lock) + 1")], note="sequential view of threading.Lock")
ASSUME("threading:Lock.release", params={"self": "Lock"}, modifies=["G.lock"],
       requires=[("is-held", "G.lock >= 1")],
       ensures=[("released", "G.lock == old(G.lock) - 1")])

for _k in ("os.path:isfile", "posixpath:isfile"):
    ASSUME(_k, params={"path": "Str"}, returns="Bool", modifies=["G.fs_probes"],
           ensures=[("fs", "result == fs_isfile(path)"), ("probe", "G.fs_probes == old(G.fs_probes) + 1")],
           note="the file system is an uninterpreted state that does not change during one call (sequential)")
ASSUME("os:stat", params={"path": "Str"}, returns="StatResult", modifies=["G.fs_probes"],
       ensures=[("mtime", "result.st_mtime_int == fs_mtime(path)"), ("exists", "fs_exists(path)"),
                ("probe", "G.fs_probes == old(G.fs_probes) + 1")],
       raises={"OSError": {"when": "not fs_exists(path)"}},
       note="os.stat(p)[ST_MTIME] is the whole-second mtime")
ASSUME("os:StatResult.__getitem__", params={"self": "StatResult", "i": "Int"}, returns="Int",
       ensures=[("mtime", "result == self.st_mtime_int")],
       note="only index stat.ST_MTIME is used")
ASSUME("posixpath:normpath", params={"p": "Str"}, returns="Str", ensures=[("def", "result == normpath(p)")])
ASSUME("posixpath:join", params={"a": "Str", "b": "Str"}, returns="Str", ensures=[("def", "result == pjoin(a, b)")])
ASSUME("posixpath:dirname", params={"p": "Str"}, returns="Str", ensures=[("def", "result == pdirname(p)")])
ASSUME("re:sub", params={"pattern": "Str", "repl": "Str", "string": "Str"}, returns="Str",
       ensures=[("def", "result == re_sub(pattern, repl, string)")])

FUNSPEC("modname", params={"filename": "Str", "uri": "Str"}, returns="Opt[Str]", raises={"*": {}},
        note="user supplied modulename_callable(filename, uri)")

ASSUME("mako.template:Template.__init__", view=True,
       params={"self": "Template", "text": "Opt[Str]", "filename": "Opt[Str]", "uri": "Opt[Str]", "lookup": "Opt[Obj[LookupAPI]]",
               "module_filename": "Opt[Str]", "**rest": "Star"},
       modifies=["ptr(self.uri)", "ptr(self.filename)", "ptr(self.lookup)", "ptr(self.module)", "G.built", "G.fs_probes"],
       ensures=[("built", "G.built == old(G.built) + 1"),
                ("identity", "self.filename == filename and same(self.lookup, lookup)"),
                ("uri", "implies(uri is not None and truthy(uri), self.uri == uri)"),
                ("module", "fresh(self.module)")],
       raises={"*": {"ensures": [("not-built", "G.built == old(G.built)")]}},
       note="Template construction (its own obligations are C09/C15/C18): compiles now; module._modified_time is the compile moment")

_UNORM = "re_sub('^\\\\/+', '', str_replace_all(uri, '\\\\', '/'))"
_P = "normpath(pjoin(str_replace_all(self.directories[IDX], G_str('posixpath:sep'), G_str('posixpath:sep')), %s))" % _UNORM
_P = "normpath(pjoin(str_replace_all(self.directories[IDX], G_str('posixpath:sep'), G_str('posixpath:sep')), %s))" % _UNORM

C("mako.lookup:TemplateLookup.get_template",
  params={"self": "TemplateLookup", "uri": "Str"}, returns="Template",
  requires=[("lock-free", "G.lock == 0")],
  modifies=["self._collection", "G.lock", "G.built", "G.fs_probes"],
  loops={0: {"inv": [("earlier-directories-have-no-such-file",
                      "forall(lambda j: not fs_isfile(normpath(pjoin(str_replace_all(_s0[j], G_str('posixpath:sep'), G_str('posixpath:sep')), u))), 0, _i0)", "P"),
                     ("lock-free", "G.lock == 0"), ("nothing-built", "G.built == old(G.built)"),
                     ("u-is-the-normalised-uri", "u == %s" % _UNORM)],
             "modifies": ["G.fs_probes"]}},
  ensures=[("cached-without-checks-is-returned-as-is",
            "implies(uri in old(self._collection) and not truthy(self.filesystem_checks), same(result, old(self._collection)[uri]) and G.fs_probes == old(G.fs_probes) and G.built == old(G.built))"),
           ("lock-released", "G.lock == 0"),
           ("miss-builds-at-most-one", "G.built <= old(G.built) + 1"),
           ("miss-result-is-stored", "implies(uri not in old(self._collection), uri in self._collection and same(result, self._collection[uri]))"),
           ("first-directory-that-has-the-file-wins",
            "implies(uri not in old(self._collection), forall(lambda j: implies(0 <= j and j < len(self.directories) and fs_isfile(%s) and forall(lambda k: not fs_isfile(%s), 0, j), result.filename == normpath(%s))))" % (_P.replace("IDX", "j"), _P.replace("IDX", "k"), _P.replace("IDX", "j")))],
  raises={"TopLevelLookupException": {"ensures": [("no-directory-has-it",
                                                   "forall(lambda j: not fs_isfile(normpath(pjoin(str_replace_all(self.directories[j], G_str('posixpath:sep'), G_str('posixpath:sep')), %s))), 0, len(self.directories))" % _UNORM),
                                                  ("lock-released", "G.lock == 0")]},
          "TemplateLookupException": {"ensures": [("lock-released", "G.lock == 0")]},
          "*": {"ensures": [("lock-released", "G.lock == 0")]}},
  locals={"u": "Str"},
  props=["C14", "C09"], native_skip=True)

C("mako.lookup:TemplateLookup._check",
  params={"self": "TemplateLookup", "uri": "Str", "template": "Template"}, returns="Template",
  requires=[("lock-free", "G.lock == 0")],
  modifies=["self._collection", "G.lock", "G.built", "G.fs_probes"],
  ensures=[("no-file-no-check", "implies(template.filename is None, same(result, template) and G.fs_probes == old(G.fs_probes) and G.built == old(G.built))"),
           ("unchanged-file-same-object",
            "implies(template.filename is not None and template.module._modified_time >= fs_mtime(template.filename), same(result, template) and G.built == old(G.built) and self._collection == old(self._collection))"),
           ("newer-file-is-reloaded",
            "implies(template.filename is not None and template.module._modified_time < fs_mtime(template.filename), G.built <= old(G.built) + 1 and uri in self._collection and same(result, self._collection[uri]))"),
           ("lock-released", "G.lock == 0")],
  raises={"TemplateLookupException": {"ensures": [("entry-removed", "uri not in self._collection"), ("lock-released", "G.lock == 0"),
                                                  ("nothing-built", "G.built == old(G.built)")]},
          "*": {"ensures": [("lock-released", "G.lock == 0"), ("nothing-built", "G.built == old(G.built)")]}},
  props=["C14"], native_skip=True)

C("mako.lookup:TemplateLookup._load",
  params={"self": "TemplateLookup", "filename": "Str", "uri": "Str"}, returns="Template",
  requires=[("lock-free", "G.lock == 0")],
  modifies=["self._collection", "G.lock", "G.built", "G.fs_probes"],
  ensures=[("lock-released", "G.lock == 0"),
           ("second-chance", "implies(uri in old(self._collection), same(result, old(self._collection)[uri]) and G.built == old(G.built) and self._collection == old(self._collection))"),
           ("one-construction", "implies(uri not in old(self._collection), G.built == old(G.built) + 1 and self._collection == dict_set(old(self._collection), uri, result))"),
           ("constructed-for-this-file", "implies(uri not in old(self._collection), result.filename == normpath(filename) and same(result.lookup, self))")],
  raises={"*": {"ensures": [("lock-released", "G.lock == 0"),
                            ("failed-entry-removed", "uri not in self._collection"),
                            ("nothing-built", "G.built == old(G.built)"),
                            ("others-kept", "forall(lambda k: implies(k != uri, (k in self._collection) == (k in old(self._collection)) and same(self._collection[k], old(self._collection)[k])), ty='Str')")]}},
  props=["C14", "C09"], native_skip=True)

C("mako.lookup:TemplateLookup.adjust_uri",
  params={"self": "TemplateLookup", "uri": "Str", "relativeto": "Opt[Str]"}, returns="Str",
  requires=[("memo-table-is-consistent", "memo_consistent(self)")],
  modifies=["self._uri_cache"],
  ensures=[("resolves-against-the-calling-template", "result == adjusted_uri_def(uri, relativeto)"),
           ("memo-table-stays-consistent", "memo_consistent(self)"),
           ("memoised", "box_pair(uri, relativeto) in self._uri_cache and self._uri_cache[box_pair(uri, relativeto)] == result")],
  raises={"IndexError": {"when": "len(uri) == 0 and not memo_hit(self, uri, relativeto)"}},
  props=["C07", "C09"], native_skip=True)

C("mako.lookup:TemplateLookup.put_template",
  params={"self": "TemplateLookup", "uri": "Str", "template": "Template"},
  modifies=["self._collection"],
  ensures=[("stored", "self._collection == dict_set(old(self._collection), uri, template)")],
  props=["C14"], native_skip=True)

# ---- has_template: "a URI with no file -> False", whatever made the lookup fail (C14) -------------------------------
C("mako.lookup:TemplateCollection.has_template",
  params={"self": "TemplateLookup", "uri": "Str"}, returns="Bool",
  requires=[("lock-free", "G.lock == 0")],
  modifies=["self._collection", "G.lock", "G.built", "G.fs_probes"],
  ensures=[("lock-released", "G.lock == 0")],
  raises={"TemplateLookupException": {"when": "False"}, "*": {}},
  props=["C14"], native_skip=True,
  note="no TemplateLookupException (a template that was never there, or one whose file has vanished since it was cached) escapes: the answer is False")
