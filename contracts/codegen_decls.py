"""Contracts on the code generator's declaration emitters (C04: what a def called by name sees)."""
from vrf.pyvc.spec import C, ASSUME, CLASS, GHOST

GHOST("emit_n", "Int", "number of source lines handed to the printer so far")
GHOST("emit_last", "Str", "the most recent line")
GHOST("emit_prev", "Str", "the one before it")
GHOST("dedents", "Int", "number of writeline(None) calls (block ends)")

CLASS("mako.pygen:PythonPrinter", name="Printer", fields={})
CLASS("mako.codegen:_Identifiers", name="Idents", fields={"locally_assigned": "Set[Str]", "argument_declared": "Set[Str]"})
CLASS("mako.parsetree:DefTag", name="DefNode", fields={"funcname": "Str"})
CLASS("mako.codegen:_GenerateRenderMethod", name="GenRM", fields={"in_def": "Bool", "identifiers": "Idents", "printer": "Printer"})

ASSUME("mako.pygen:PythonPrinter.writeline", params={"self": "Printer", "line": "Opt[Str]"},
       modifies=["G.emit_n", "G.emit_last", "G.emit_prev", "G.dedents"],
       ensures=[("line", "implies(line is not None, G.emit_n == old(G.emit_n) + 1 and G.emit_last == line and G.emit_prev == old(G.emit_last) and G.dedents == old(G.dedents))"),
                ("dedent", "implies(line is None, G.dedents == old(G.dedents) + 1 and G.emit_n == old(G.emit_n) and G.emit_last == old(G.emit_last) and G.emit_prev == old(G.emit_prev))")],
       raises={"*": {}},
       note="the printer (its own line-map obligations are C12) is seen here as a log of emitted lines")
ASSUME("mako.parsetree:DefTag.get_argument_expressions", params={"self": "DefNode", "as_call": "Bool=False"}, returns="List[Str]",
       ensures=[("fresh", "fresh(result)"), ("value", "content(result) == arg_exprs(self, as_call)")],
       note="the def's argument list as declaration / as call expressions (pure, a new list each time)")

_BODY_HAS_LOCALS = "(not self.in_def and (len(self.identifiers.locally_assigned) > 0 or len(self.identifiers.argument_declared) > 0))"
C("mako.codegen:_GenerateRenderMethod.write_def_decl",
  params={"self": "GenRM", "node": "DefNode", "identifiers": "Idents"},
  modifies=["G.emit_n", "G.emit_last", "G.emit_prev", "G.dedents"],
  ensures=[("a-def-line-a-return-line-and-a-dedent", "G.emit_n == old(G.emit_n) + 2 and G.dedents == old(G.dedents) + 1"),
           ("stub-signature", "G.emit_prev == 'def %s(%s):' % (node.funcname, ','.join(arg_exprs(node, False)))"),
           ("stub-hands-on-the-template-body-locals-exactly-when-the-body-has-any",
            "G.emit_last == 'return render_%%s(%%s)' %% (node.funcname, ','.join([ite(%s, 'context._locals(__M_locals)', 'context')] + arg_exprs(node, True)))" % _BODY_HAS_LOCALS)],
  raises={"*": {}},
  props=["C04"], native_skip=True,
  note="the decision uses the identifiers of the generator's own function (self.identifiers: the template body or the enclosing def), not those of the nested construct the stub happens to be declared in")
