"""Contracts for mako.filters (C10) and the output buffer (C10.buffer is in runtime_stacks)."""
from vrf.pyvc.spec import C, ASSUME, CLASS, FUNSPEC, GLOBALS

CLASS("builtins:UnicodeError", name="UnicodeError", exception=True,
      fields={"object": "Str", "start": "Int", "end": "Int", "encoding": "Str", "reason": "Str"})
CLASS("mako.filters:XMLEntityEscaper", fields={})
GLOBALS["mako.filters:_html_entities_escaper"] = ("XMLEntityEscaper", "module-level escaper instance")

ASSUME("mako.filters:XMLEntityEscaper.escape",
       params={"self": "XMLEntityEscaper", "text": "Str"}, returns="Bytes",
       ensures=[("ascii-bytes-of-the-entity-image", "result == ascii_bytes(entity_image(text))")],
       note="escape(text) = the per-character entity / numeric-reference image of text (R4, C10.entity.* and "
            "C10.escape.ascii decide the image and that it is ASCII), encoded as ASCII")

C("mako.filters:htmlentityreplace_errors",
  params={"ex": "UnicodeError"}, returns="Tuple[Str,Int]",
  requires=[("range", "0 <= ex.start and ex.start <= ex.end and ex.end <= len(ex.object)")],
  ensures=[("only-encode-errors", "is_encode_error(ex)"),
           ("replacement-is-text-not-bytes-repr", "result[0] == entity_image(ex.object[ex.start:ex.end])"),
           ("resume-after-the-bad-run", "result[1] == ex.end")],
  raises={"UnicodeError": {"when": "not is_encode_error(ex)"}},
  props=["C10"], native_skip=True)

C("mako.filters:trim",
  params={"string": "Str"}, returns="Str",
  ensures=[("strip", "result == str_strip(string)")],
  props=["C10"], native_skip=True)

C("mako.filters:url_escape",
  params={"string": "Str"}, returns="Str",
  ensures=[("quote-plus-of-utf8", "result == quote_plus(str_encode(string, 'utf8', 'strict'))")],
  raises={"*": {}},
  props=["C10"], native_skip=True,
  note="encode('utf8') raises only for lone surrogates")

ASSUME("urllib.parse:quote_plus", params={"b": "Bytes"}, returns="Str",
       ensures=[("def", "result == quote_plus(b)")],
       note="urllib.parse.quote_plus (validated exhaustively per code point in C10.u.*)")

C("mako.filters:Decode.__getattr__.decode",
  params={"x": "Any"}, returns="Str",
  captures={"key": "Str"},
  ensures=[("returns-str", "True")],
  raises={"*": {}},
  props=["C10"], native_skip=True,
  note="the return *type* Str is what is proved: every normal path returns a str value (x itself, str(x), or str(x, encoding=key))")
