"""Contracts on the code generator's identifier bookkeeping (C04: a name that is read and not bound is obtained
from the context; names the code binds itself are not)."""
from vrf.pyvc.spec import C, ASSUME, CLASS, CLASSES
from vrf.pyvc.types import parse_ty
import contracts.codegen_decls  # noqa: Idents

CLASSES["Idents"].fields.update({k: parse_ty(v) for k, v in {
    "declared": "Set[Str]", "undeclared": "Set[Str]", "locally_declared": "Set[Str]"}.items()})
CLASS("mako.parsetree:<node>", name="CodeNode", fields={"ismodule": "Bool"})
ASSUME("mako.parsetree:<node>.undeclared_identifiers", params={"self": "CodeNode"}, returns="Set[Str]",
       ensures=[("value", "content(result) == node_undeclared(self)"), ("own-set", "fresh(result)")],
       note="the names the node's Python reads without binding them (FindIdentifiers; its agreement with Python's scoping is C19)")
ASSUME("mako.parsetree:<node>.declared_identifiers", params={"self": "CodeNode"}, returns="Set[Str]",
       ensures=[("value", "content(result) == node_declared(self)"), ("own-set", "fresh(result)")],
       note="the names the node's Python binds")

_NEW_UNDECLARED = "(k in node_undeclared(node) and k != 'context' and k not in old(self.declared) and k not in old(self.locally_declared))"

C("mako.codegen:_Identifiers.check_declared",
  params={"self": "Idents", "node": "CodeNode"},
  requires=[("separate-sets", "not same(self.undeclared, self.declared) and not same(self.undeclared, self.locally_declared) and not same(self.declared, self.locally_declared)")],
  modifies=["self.undeclared", "self.locally_declared", "fresh_heap('set:Str')"],
  loops={0: {"inv": [("undeclared-so-far", "forall(lambda k: (k in self.undeclared) == (k in pre(self.undeclared) or (in_prefix(_s0, _i0, k) and k != 'context' and k not in self.declared and k not in self.locally_declared)), ty='Str')", "P"),
                     ("others-untouched", "self.declared == pre(self.declared) and self.locally_declared == pre(self.locally_declared)", "P")],
             "modifies": ["self.undeclared", "fresh_heap('set:Str')"]},
         1: {"inv": [("declared-so-far", "forall(lambda k: (k in self.locally_declared) == (k in pre(self.locally_declared) or in_prefix(_s1, _i1, k)), ty='Str')", "P"),
                     ("others-untouched", "self.declared == pre(self.declared) and self.undeclared == pre(self.undeclared)", "P")],
             "modifies": ["self.locally_declared"]}},
  ensures=[("read-and-not-yet-bound-names-are-demanded-from-the-context",
            "forall(lambda k: (k in self.undeclared) == (k in old(self.undeclared) or %s), ty='Str')" % _NEW_UNDECLARED),
           ("names-the-node-binds-become-local", "forall(lambda k: (k in self.locally_declared) == (k in old(self.locally_declared) or k in node_declared(node)), ty='Str')"),
           ("declared-untouched", "self.declared == old(self.declared)")],
  raises={}, locals={"ident": "Str"}, props=["C04"], native_skip=True)

C("mako.codegen:_Identifiers.add_declared",
  params={"self": "Idents", "ident": "Str"},
  requires=[("separate-sets", "not same(self.undeclared, self.declared)")],
  modifies=["self.declared", "self.undeclared"],
  ensures=[("declared", "forall(lambda k: (k in self.declared) == (k in old(self.declared) or k == ident), ty='Str')"),
           ("no-longer-demanded", "forall(lambda k: (k in self.undeclared) == (k in old(self.undeclared) and k != ident), ty='Str')")],
  raises={}, props=["C04"], native_skip=True)

C("mako.codegen:_Identifiers.visitCode",
  params={"self": "Idents", "node": "CodeNode"},
  requires=[("separate-sets", "not same(self.undeclared, self.declared) and not same(self.undeclared, self.locally_declared) and not same(self.declared, self.locally_declared) and not same(self.locally_assigned, self.locally_declared) and not same(self.locally_assigned, self.undeclared) and not same(self.locally_assigned, self.declared)")],
  modifies=["self.undeclared", "self.locally_declared", "ptr(self.locally_assigned)", "fresh_heap('set:Str')"],
  ensures=[("a <%! %> block is module level: it binds and demands nothing in the render functions",
            "implies(node.ismodule, self.undeclared == old(self.undeclared) and self.locally_declared == old(self.locally_declared) and content(self.locally_assigned) == old(content(self.locally_assigned)))"),
           ("a <% %> block: unbound reads are demanded from the context",
            "implies(not node.ismodule, forall(lambda k: (k in self.undeclared) == (k in old(self.undeclared) or %s), ty='Str'))" % _NEW_UNDECLARED),
           ("a <% %> block: what it assigns is local and handed on to defs called from the body",
            "implies(not node.ismodule, forall(lambda k: (k in self.locally_assigned) == (k in old(self.locally_assigned) or k in node_declared(node)), ty='Str') and forall(lambda k: (k in self.locally_declared) == (k in old(self.locally_declared) or k in node_declared(node)), ty='Str'))")],
  raises={}, props=["C04"], native_skip=True)
