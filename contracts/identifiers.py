"""Contracts on the code generator's identifier bookkeeping (C04: a name that is read and not bound is obtained
from the context; names the code binds itself are not)."""
from vrf.pyvc.spec import C, ASSUME, CLASS, CLASSES
from vrf.pyvc.types import parse_ty
import contracts.codegen_decls  # noqa: Idents
import contracts.errors  # noqa: PNode and its exception_kwargs

CLASSES["Idents"].fields.update({k: parse_ty(v) for k, v in {
    "declared": "Set[Str]", "undeclared": "Set[Str]", "locally_declared": "Set[Str]"}.items()})
CLASS("mako.parsetree:<node>", name="CodeNode", fields={"ismodule": "Bool"})
ASSUME("mako.parsetree:<node>.undeclared_identifiers", params={"self": "CodeNode"}, returns="Set[Str]",
       ensures=[("value", "content(result) == node_undeclared(self)"), ("own-set", "fresh(result)")],
       note="the names the node's Python reads without binding them (FindIdentifiers; its agreement with Python's scoping is C19)")
ASSUME("mako.parsetree:<node>.declared_identifiers", params={"self": "CodeNode"}, returns="Set[Str]",
       ensures=[("value", "content(result) == node_declared(self)"), ("own-set", "fresh(result)")],
       note="the names the node's Python binds")

_NEW_UNDECLARED = "(k in node_undeclared(node) and k != 'context' and k not in old(self.declared) and k not in old(self.locally_declared))"

C("mako.codegen:_Identifiers.check_declared",
  params={"self": "Idents", "node": "CodeNode"},
  requires=[("separate-sets", "not same(self.undeclared, self.declared) and not same(self.undeclared, self.locally_declared) and not same(self.declared, self.locally_declared)")],
  modifies=["self.undeclared", "self.locally_declared", "fresh_heap('set:Str')"],
  loops={0: {"inv": [("undeclared-so-far", "forall(lambda k: (k in self.undeclared) == (k in pre(self.undeclared) or (in_prefix(_s0, _i0, k) and k != 'context' and k not in self.declared and k not in self.locally_declared)), ty='Str')", "P"),
                     ("others-untouched", "self.declared == pre(self.declared) and self.locally_declared == pre(self.locally_declared)", "P")],
             "modifies": ["self.undeclared", "fresh_heap('set:Str')"]},
         1: {"inv": [("declared-so-far", "forall(lambda k: (k in self.locally_declared) == (k in pre(self.locally_declared) or in_prefix(_s1, _i1, k)), ty='Str')", "P"),
                     ("others-untouched", "self.declared == pre(self.declared) and self.undeclared == pre(self.undeclared)", "P")],
             "modifies": ["self.locally_declared"]}},
  ensures=[("read-and-not-yet-bound-names-are-demanded-from-the-context",
            "forall(lambda k: (k in self.undeclared) == (k in old(self.undeclared) or %s), ty='Str')" % _NEW_UNDECLARED),
           ("names-the-node-binds-become-local", "forall(lambda k: (k in self.locally_declared) == (k in old(self.locally_declared) or k in node_declared(node)), ty='Str')"),
           ("declared-untouched", "self.declared == old(self.declared)")],
  raises={}, locals={"ident": "Str"}, props=["C04"], native_skip=True)

C("mako.codegen:_Identifiers.add_declared",
  params={"self": "Idents", "ident": "Str"},
  requires=[("separate-sets", "not same(self.undeclared, self.declared)")],
  modifies=["self.declared", "self.undeclared"],
  ensures=[("declared", "forall(lambda k: (k in self.declared) == (k in old(self.declared) or k == ident), ty='Str')"),
           ("no-longer-demanded", "forall(lambda k: (k in self.undeclared) == (k in old(self.undeclared) and k != ident), ty='Str')")],
  raises={}, props=["C04"], native_skip=True)

C("mako.codegen:_Identifiers.visitCode",
  params={"self": "Idents", "node": "CodeNode"},
  requires=[("separate-sets", "not same(self.undeclared, self.declared) and not same(self.undeclared, self.locally_declared) and not same(self.declared, self.locally_declared) and not same(self.locally_assigned, self.locally_declared) and not same(self.locally_assigned, self.undeclared) and not same(self.locally_assigned, self.declared)")],
  modifies=["self.undeclared", "self.locally_declared", "ptr(self.locally_assigned)", "fresh_heap('set:Str')"],
  ensures=[("a <%! %> block is module level: it binds and demands nothing in the render functions",
            "implies(node.ismodule, self.undeclared == old(self.undeclared) and self.locally_declared == old(self.locally_declared) and content(self.locally_assigned) == old(content(self.locally_assigned)))"),
           ("a <% %> block: unbound reads are demanded from the context",
            "implies(not node.ismodule, forall(lambda k: (k in self.undeclared) == (k in old(self.undeclared) or %s), ty='Str'))" % _NEW_UNDECLARED),
           ("a <% %> block: what it assigns is local and handed on to defs called from the body",
            "implies(not node.ismodule, forall(lambda k: (k in self.locally_assigned) == (k in old(self.locally_assigned) or k in node_declared(node)), ty='Str') and forall(lambda k: (k in self.locally_declared) == (k in old(self.locally_declared) or k in node_declared(node)), ty='Str'))")],
  raises={}, props=["C04"], native_skip=True)

CLASSES["Idents"].fields["argument_declared"] = parse_ty("Set[Str]")
_SEP3 = ("not same(self.undeclared, self.declared) and not same(self.undeclared, self.locally_declared) and not same(self.declared, self.locally_declared) "
         "and not same(self.argument_declared, self.undeclared) and not same(self.argument_declared, self.declared) and not same(self.argument_declared, self.locally_declared)")
_DEMAND = "forall(lambda k: (k in self.undeclared) == (k in old(self.undeclared) or %s), ty='Str')" % _NEW_UNDECLARED
_BIND = "forall(lambda k: (k in self.locally_declared) == (k in old(self.locally_declared) or k in node_declared(node)), ty='Str')"

for _v in ("visitExpression", "visitControlLine", "visitIncludeTag"):
    C("mako.codegen:_Identifiers." + _v, params={"self": "Idents", "node": "CodeNode"},
      requires=[("separate-sets", _SEP3)],
      modifies=["self.undeclared", "self.locally_declared", "fresh_heap('set:Str')"],
      ensures=[("unbound-reads-demanded-from-the-context", _DEMAND), ("bindings-become-local", _BIND), ("declared-untouched", "self.declared == old(self.declared)")],
      raises={}, props=["C04"], native_skip=True)

C("mako.codegen:_Identifiers.visitTextTag", params={"self": "Idents", "node": "CodeNode"},
  requires=[("separate-sets", _SEP3)],
  modifies=["self.undeclared", "fresh_heap('set:Str')"],
  loops={0: {"inv": [("undeclared-so-far", "forall(lambda k: (k in self.undeclared) == (k in pre(self.undeclared) or (in_prefix(_s0, _i0, k) and k != 'context' and k not in self.declared and k not in self.locally_declared)), ty='Str')", "P"),
                     ("others-untouched", "self.declared == pre(self.declared) and self.locally_declared == pre(self.locally_declared)", "P")],
             "modifies": ["self.undeclared", "fresh_heap('set:Str')"]}},
  ensures=[("the filter names of <%text filter=...> are demanded from the context", _DEMAND),
           ("nothing-bound", "self.locally_declared == old(self.locally_declared) and self.declared == old(self.declared)")],
  raises={}, locals={"ident": "Str"}, props=["C04"], native_skip=True)

C("mako.codegen:_Identifiers.visitPageTag", params={"self": "Idents", "node": "CodeNode"},
  requires=[("separate-sets", _SEP3)],
  modifies=["self.undeclared", "self.locally_declared", "self.argument_declared", "fresh_heap('set:Str')"],
  loops={0: {"inv": [("arguments-so-far", "forall(lambda k: (k in self.argument_declared) == (k in pre(self.argument_declared) or in_prefix(_s0, _i0, k)), ty='Str')", "P"),
                     ("others-untouched", "self.declared == pre(self.declared) and self.locally_declared == pre(self.locally_declared) and self.undeclared == pre(self.undeclared)", "P")],
             "modifies": ["self.argument_declared"]}},
  ensures=[("page-arguments-are-arguments-of-the-body", "forall(lambda k: (k in self.argument_declared) == (k in old(self.argument_declared) or k in node_declared(node)), ty='Str')"),
           ("their-defaults-may-demand-names", _DEMAND)],
  raises={}, locals={"ident": "Str"}, props=["C04"], native_skip=True)

# ---- tags with children: structural induction over the parse tree (rule R3) -----------------------
# induction hypothesis for visiting a child node: visitors only ever add to the four name sets
CLASS("mako.parsetree:<child>", name="ChildNode", fields={})
_MONO = ("forall(lambda k: implies(k in old(self_.undeclared), k in self_.undeclared) and implies(k in old(self_.locally_declared), k in self_.locally_declared) "
         "and implies(k in old(self_.argument_declared), k in self_.argument_declared), ty='Str') and self_.declared == old(self_.declared)")
ASSUME("mako.parsetree:<child>.accept_visitor", params={"self": "ChildNode", "self_": "Idents"},
       modifies=["self_.undeclared", "self_.locally_declared", "self_.argument_declared", "heap('f:Idents.')", "heap('dval:Str~Any')", "heap('ddom:Str~Any')", "fresh_heap('set:Str')"],
       ensures=[("visitors-only-add-names (induction hypothesis)", _MONO),
                ("same-sets", "same(self_.undeclared, old(self_.undeclared)) and same(self_.locally_declared, old(self_.locally_declared)) and same(self_.argument_declared, old(self_.argument_declared)) and same(self_.declared, old(self_.declared))")],
       raises={"*": {}},
       note="R3: each child node's visit method is one of the visitors verified here (or raises CompileException)")
CLASSES["PNode"].properties["exception_kwargs"] = "mako.parsetree:Node.exception_kwargs"
CLASS("mako.parsetree:<tag>", name="TagLike", bases=["CodeNode", "PNode"], fields={"nodes": "List[ChildNode]", "is_anonymous": "Bool", "is_block": "Bool", "funcname": "Str", "name": "Str"})
CLASSES["Idents"].fields["node"] = parse_ty("Any")

_DEMAND_AT_LEAST = ("forall(lambda k: implies(k in old(self.undeclared) or %s, k in self.undeclared), ty='Str')" % _NEW_UNDECLARED)
_ARGS_AT_LEAST = "forall(lambda k: implies(k in old(self.argument_declared) or k in node_declared(node), k in self.argument_declared), ty='Str')"

C("mako.codegen:_Identifiers.visitCallTag", params={"self": "Idents", "node": "TagLike"},
  requires=[("separate-sets", _SEP3)],
  modifies=["self.undeclared", "self.locally_declared", "self.argument_declared", "heap('f:Idents.')", "heap('dval:Str~Any')", "heap('ddom:Str~Any')", "fresh_heap('set:Str')"],
  loops={0: {"inv": [("undeclared-so-far", "forall(lambda k: (k in self.undeclared) == (k in pre(self.undeclared) or (in_prefix(_s0, _i0, k) and k != 'context' and k not in self.declared and k not in self.locally_declared)), ty='Str')", "P"),
                     ("others-untouched", "self.declared == pre(self.declared) and self.locally_declared == pre(self.locally_declared) and self.argument_declared == pre(self.argument_declared)", "P")],
             "modifies": ["self.undeclared", "fresh_heap('set:Str')"]},
         1: {"inv": [("arguments-so-far", "forall(lambda k: (k in self.argument_declared) == (k in pre(self.argument_declared) or in_prefix(_s1, _i1, k)), ty='Str')", "P"),
                     ("others-untouched", "self.declared == pre(self.declared) and self.locally_declared == pre(self.locally_declared) and self.undeclared == pre(self.undeclared)", "P")],
             "modifies": ["self.argument_declared"]},
         2: {"inv": [("nothing-lost", "forall(lambda k: implies(k in pre(self.undeclared), k in self.undeclared) and implies(k in pre(self.argument_declared), k in self.argument_declared) and implies(k in pre(self.locally_declared), k in self.locally_declared), ty='Str') and self.declared == pre(self.declared)", "P"),
                     ("same-sets", "same(self.undeclared, pre(self.undeclared)) and same(self.argument_declared, pre(self.argument_declared)) and same(self.locally_declared, pre(self.locally_declared)) and same(self.declared, pre(self.declared))", "P")],
             "modifies": ["self.undeclared", "self.locally_declared", "self.argument_declared", "heap('f:Idents.')", "heap('dval:Str~Any')", "heap('ddom:Str~Any')", "fresh_heap('set:Str')"]},
         3: {"inv": [("undeclared-so-far", "forall(lambda k: (k in self.undeclared) == (k in pre(self.undeclared) or (in_prefix(_s3, _i3, k) and k != 'context' and k not in self.declared and k not in self.locally_declared)), ty='Str')", "P"),
                     ("others-untouched", "self.declared == pre(self.declared) and self.locally_declared == pre(self.locally_declared) and self.argument_declared == pre(self.argument_declared)", "P")],
             "modifies": ["self.undeclared", "fresh_heap('set:Str')"]}},
  ensures=[("the call expression's unbound names are demanded from the context, in the calling scope and in the body's", _DEMAND_AT_LEAST),
           ("seen from outside, a call with content binds nothing", "implies(not same(node, self.node), %s and self.argument_declared == old(self.argument_declared) and self.locally_declared == old(self.locally_declared))" % _DEMAND),
           ("inside its body, the names in its args= are arguments", "implies(same(node, self.node), %s)" % _ARGS_AT_LEAST)],
  raises={"*": {}}, locals={"ident": "Str", "n": "ChildNode"}, props=["C04"], native_skip=True)

# ---- def / block registration: names unique, named blocks not inside defs or calls (C06) ---------------
CLASSES["Idents"].fields.update({"topleveldefs": parse_ty("Dict[Str,Obj[TagLike]]"), "closuredefs": parse_ty("Dict[Str,Obj[TagLike]]")})
_AT_NODE = "same(raised.lineno, node.lineno) and same(raised.pos, node.pos) and same(raised.filename, node.filename) and same(raised.source, node.source)"
_CLASH = "(node.funcname in old(collection) and not same(old(collection)[node.funcname], node) and (node.is_block or old(collection)[node.funcname].is_block))"

C("mako.codegen:_Identifiers._check_name_exists", params={"self": "Idents", "collection": "Dict[Str,Obj[TagLike]]", "node": "TagLike"},
  requires=[("entries-are-nodes", "forall(lambda k: implies(k in collection, collection[k] is not None), ty='Str')")],
  modifies=["collection"],
  ensures=[("registered-under-its-name", "collection == dict_set(old(collection), node.funcname, node)"), ("no-clash", "not %s" % _CLASH)],
  raises={"CompileException": {"when": _CLASH.replace("old(collection)", "collection"), "ensures": [("registered-anyway", "collection == dict_set(old(collection), node.funcname, node)"),
                                                                                                    ("reported-at-the-clashing-node", _AT_NODE)]}},
  props=["C06", "C11"], native_skip=True,
  note="a %def and a %def of one name may shadow each other; as soon as a block is involved the name must be unique")


_IN_DEF = "any_isinstance(self.node, 'DefTag')"
_IN_CALL = "any_isinstance(self.node, 'CallTag_CallNamespaceTag')"
_NESTED_NAMED = "(not same(node, self.node) and not node.is_anonymous)"
_TOP_CLASH = "(not node.is_anonymous and node.funcname in self.topleveldefs and not same(self.topleveldefs[node.funcname], node))"

C("mako.codegen:_Identifiers.visitBlockTag", params={"self": "Idents", "node": "TagLike"},
  requires=[("separate-sets", _SEP3),
            ("entries-are-nodes", "forall(lambda k: implies(k in self.topleveldefs, self.topleveldefs[k] is not None) and implies(k in self.closuredefs, self.closuredefs[k] is not None), ty='Str')"),
            ("a-block-is-a-block", "node.is_block"),
            ("two-registries", "not same(self.topleveldefs, self.closuredefs)")],
  modifies=["self.undeclared", "self.locally_declared", "self.argument_declared", "self.topleveldefs", "self.closuredefs",
            "heap('f:Idents.')", "heap('dval:Str~Any')", "heap('ddom:Str~Any')", "fresh_heap('set:Str')"],
  loops={0: {"inv": [("undeclared-so-far", "forall(lambda k: (k in self.undeclared) == (k in pre(self.undeclared) or (in_prefix(_s0, _i0, k) and k != 'context' and k not in self.declared and k not in self.locally_declared)), ty='Str')", "P"),
                     ("others-untouched", "self.declared == pre(self.declared) and self.locally_declared == pre(self.locally_declared) and self.argument_declared == pre(self.argument_declared) and self.topleveldefs == pre(self.topleveldefs) and self.closuredefs == pre(self.closuredefs)", "P")],
             "modifies": ["self.undeclared", "fresh_heap('set:Str')"]},
         1: {"inv": [("arguments-so-far", "forall(lambda k: (k in self.argument_declared) == (k in pre(self.argument_declared) or in_prefix(_s1, _i1, k)), ty='Str')", "P"),
                     ("others-untouched", "self.declared == pre(self.declared) and self.locally_declared == pre(self.locally_declared) and self.undeclared == pre(self.undeclared) and self.topleveldefs == pre(self.topleveldefs) and self.closuredefs == pre(self.closuredefs)", "P")],
             "modifies": ["self.argument_declared"]},
         2: {"inv": [("registration-kept", "implies(not node.is_anonymous, node.funcname in self.topleveldefs and same(self.topleveldefs[node.funcname], node))", "L"),
                     ("same-objects", "same(self.undeclared, pre(self.undeclared)) and same(self.argument_declared, pre(self.argument_declared)) and same(self.locally_declared, pre(self.locally_declared)) and same(self.declared, pre(self.declared)) and same(self.topleveldefs, pre(self.topleveldefs)) and same(self.closuredefs, pre(self.closuredefs))", "P")],
             "modifies": ["self.undeclared", "self.locally_declared", "self.argument_declared", "self.topleveldefs", "self.closuredefs", "heap('f:Idents.')", "heap('dval:Str~Any')", "heap('ddom:Str~Any')", "fresh_heap('set:Str')"]}},
  ensures=[("a named block is accepted only outside defs and calls", "implies(%s, not %s and not %s)" % (_NESTED_NAMED, _IN_DEF, _IN_CALL)),
           ("a named block's name was free in this template", "not old(%s)" % _TOP_CLASH)],
  raises={"CompileException": {"when": "(%s and (%s or %s)) or %s or (node.is_anonymous and not same(node, self.node) and node.funcname in self.closuredefs and not same(self.closuredefs[node.funcname], node))" % (_NESTED_NAMED, _IN_DEF, _IN_CALL, _TOP_CLASH),
                               "ensures": [("a misplaced named block is reported where it begins", "implies(%s and (%s or %s), %s)" % (_NESTED_NAMED, _IN_DEF, _IN_CALL, _AT_NODE))]},
          "*": {}},
  locals={"ident": "Str", "n": "ChildNode"}, props=["C06", "C11"], native_skip=True,
  note="children are visited under the induction hypothesis (R3); what they do to the registries is not constrained here")
from vrf.pyvc.spec import CONTRACTS as _C2
_C2["mako.codegen:_Identifiers.visitBlockTag"].opaque_attrs = True     # self.node is an arbitrary parse-tree node (only its name is read, for the message)

CLASSES["TagLike"].fields["is_root_"] = parse_ty("Bool")
ASSUME("mako.parsetree:<tag>.is_root", params={"self": "TagLike"}, returns="Bool", ensures=[("field", "result == self.is_root_")],
       note="DefTag.is_root(): the def is not nested in another def or call (a fact of the parse tree)")

C("mako.codegen:_Identifiers.visitDefTag", params={"self": "Idents", "node": "TagLike"},
  requires=[("separate-sets", _SEP3),
            ("entries-are-nodes", "forall(lambda k: implies(k in self.topleveldefs, self.topleveldefs[k] is not None) and implies(k in self.closuredefs, self.closuredefs[k] is not None), ty='Str')"),
            ("two-registries", "not same(self.topleveldefs, self.closuredefs)")],
  modifies=["self.undeclared", "self.locally_declared", "self.argument_declared", "self.topleveldefs", "self.closuredefs",
            "heap('f:Idents.')", "heap('dval:Str~Any')", "heap('ddom:Str~Any')", "fresh_heap('set:Str')"],
  loops={0: {"inv": [("undeclared-so-far", "forall(lambda k: (k in self.undeclared) == (k in pre(self.undeclared) or (in_prefix(_s0, _i0, k) and k != 'context' and k not in self.declared and k not in self.locally_declared)), ty='Str')", "P"),
                     ("others-untouched", "self.declared == pre(self.declared) and self.locally_declared == pre(self.locally_declared) and self.argument_declared == pre(self.argument_declared) and self.topleveldefs == pre(self.topleveldefs) and self.closuredefs == pre(self.closuredefs)", "P")],
             "modifies": ["self.undeclared", "fresh_heap('set:Str')"]},
         1: {"inv": [("arguments-so-far", "forall(lambda k: (k in self.argument_declared) == (k in pre(self.argument_declared) or in_prefix(_s1, _i1, k)), ty='Str')", "P"),
                     ("others-untouched", "self.declared == pre(self.declared) and self.locally_declared == pre(self.locally_declared) and self.undeclared == pre(self.undeclared) and self.topleveldefs == pre(self.topleveldefs) and self.closuredefs == pre(self.closuredefs)", "P")],
             "modifies": ["self.argument_declared"]},
         2: {"inv": [("same-objects", "same(self.undeclared, pre(self.undeclared)) and same(self.argument_declared, pre(self.argument_declared)) and same(self.locally_declared, pre(self.locally_declared)) and same(self.declared, pre(self.declared)) and same(self.topleveldefs, pre(self.topleveldefs)) and same(self.closuredefs, pre(self.closuredefs))", "P")],
             "modifies": ["self.undeclared", "self.locally_declared", "self.argument_declared", "self.topleveldefs", "self.closuredefs", "heap('f:Idents.')", "heap('dval:Str~Any')", "heap('ddom:Str~Any')", "fresh_heap('set:Str')"]}},
  ensures=[("a def seen from outside: its unbound names (argument defaults, the body's free names) are demanded where it is declared; it binds nothing there",
            "implies(not same(node, self.node), %s and self.argument_declared == old(self.argument_declared) and self.locally_declared == old(self.locally_declared))" % _DEMAND),
           ("registered: a top-level def among the template's defs, a nested one among the closures of this scope",
            "implies(not same(node, self.node), ite(node.is_root_ and not node.is_anonymous, node.funcname in self.topleveldefs and same(self.topleveldefs[node.funcname], node), node.funcname in self.closuredefs and same(self.closuredefs[node.funcname], node)))")],
  raises={"CompileException": {}, "*": {}},
  locals={"ident": "Str", "n": "ChildNode"}, props=["C04"], native_skip=True)

# ---- _Identifiers.__init__: what a scope inherits, and the reserved-name check (C04) ----------------------
CLASS("mako.codegen:_CompileContext@idents", name="CompilerRN", fields={"reserved_names": "Set[Str]"})
CLASS("mako.util:SetLikeDict", name="SetLikeDict", fields={}, dictlike=("Str", "Obj[TagLike]"))
CLASSES["Idents"].fields.update({"compiler": parse_ty("CompilerRN"), "locally_assigned": parse_ty("Set[Str]"),
                                 "topleveldefs": parse_ty("Obj[SetLikeDict]"), "closuredefs": parse_ty("Obj[SetLikeDict]")})
ASSUME("mako.util:SetLikeDict.__init__", params={"self": "SetLikeDict", "**kw": "Dict[Str,Obj[TagLike]]"},
       modifies=["self"], ensures=[("copy", "content(self) == content(kw)")], note="SetLikeDict(**d): a new dict with d's entries")
CLASSES["TagLike"].fields["name"] = parse_ty("Str")
ASSUME("mako.exceptions:NameConflictError.__init__", params={"self": "NameConflictError", "*args": "Star"})
CLASS("mako.exceptions:NameConflictError", name="NameConflictError", bases=["MakoException"], exception=True, fields={})

_CLOSURE_NAME = "exists(lambda q: q in old(parent.closuredefs) and old(parent.closuredefs)[q].name == k, ty='Str')"
_INHERITED = ("(k in old(parent.declared) or k in old(parent.locally_declared) or k in old(parent.argument_declared) or %s "
              "or (nested and k in old(parent.undeclared)))" % _CLOSURE_NAME)

C("mako.codegen:_Identifiers.__init__",
  params={"self": "Idents", "compiler": "CompilerRN", "node": "Opt[Obj[ChildNode]]", "parent": "Opt[Obj[Idents]]", "nested": "Bool"},
  requires=[("parent-sets-present", "implies(parent is not None, parent.declared is not None and parent.locally_declared is not None and parent.argument_declared is not None and parent.undeclared is not None and parent.closuredefs is not None and parent.topleveldefs is not None)"),
            ("not-its-own-parent", "not same(parent, self)")],
  modifies=["heap('f:Idents.')", "heap('dval:Str~Any')", "heap('ddom:Str~Any')", "fresh_heap('set:Str')", "fresh_heap('ddom:Str~Obj[TagLike]')", "fresh_heap('dval:Str~Obj[TagLike]')",
            "fresh_heap('list:Str')"],
  ensures=[("no reserved name is bound in this scope", "forall(lambda k: not (k in self.locally_declared and k in self.compiler.reserved_names), ty='Str')"),
           ("compiler-kept", "same(self.compiler, compiler)"),
           ("a scope without a parent starts with nothing declared", "implies(parent is None, forall(lambda k: k not in self.declared, ty='Str'))"),
           ("a child scope may use what its parent declared, bound or took as arguments - and, when nested, what the parent obtains from the context",
            "implies(parent is not None and not dyn_isinstance(node, 'NamespaceTag'), forall(lambda k: implies(k in old(parent.declared) or k in old(parent.locally_declared) or k in old(parent.argument_declared) or (nested and k in old(parent.undeclared)), k in self.declared), ty='Str'))"),
           ("the defs of a <%namespace> body share nothing with the template body, but the module-level names (<%! %> blocks, imports, UNDEFINED) stay plain names for them",
            "implies(parent is not None and dyn_isinstance(node, 'NamespaceTag'), forall(lambda k: implies(k in old(parent.declared), k in self.declared), ty='Str'))")],
  raises={"NameConflictError": {}, "*": {}},
  props=["C04"], native_skip=True,
  note="the node is visited under the induction hypothesis R3 (visitors only add names); the scope's inherited names are checked by the bounded scope grid")
_C2["mako.codegen:_Identifiers.__init__"].opaque_attrs = True


# ---- <%namespace> bodies: only defs and named blocks (C06), refused at the offending block (C11) -------------
C("mako.codegen:_GenerateRenderMethod.write_namespaces.NSDefVisitor.visitDefOrBase",
  params={"s": "Any", "node": "TagLike"},
  captures={"self": "GenRM", "identifiers": "Idents", "export": "List[Str]"},
  modifies=["export", "heap('f:Printer.')", "heap('set:Str')", "G.emit_n", "G.emit_last", "G.emit_prev", "G.dedents"],
  ensures=[("only-named-defs-and-blocks-are-exported", "not node.is_anonymous and content(export) == old(content(export)) + [node.funcname]")],
  raises={"CompileException": {"ensures": [("an anonymous block is reported where it begins", "implies(node.is_anonymous, %s)" % _AT_NODE)]}, "*": {}},
  props=["C06", "C11"], native_skip=True,
  note="the visitor class defined inside write_namespaces; `self`, `identifiers` and `export` are the enclosing function's")
ASSUME("mako.codegen:_GenerateRenderMethod.write_inline_def@mako.codegen:_GenerateRenderMethod.write_namespaces.NSDefVisitor.visitDefOrBase",
       params={"self": "GenRM", "node": "TagLike", "identifiers": "Idents", "nested": "Bool=False"},
       modifies=["heap('f:Printer.')", "heap('set:Str')", "G.emit_n", "G.emit_last", "G.emit_prev", "G.dedents"], raises={"*": {}},
       note="emits the def as a nested function (outside the contracts)")

# what these three callers see of CompileException(message, **node.exception_kwargs): the constructor's own (verified)
# contract, contracts/errors.py, read through Python's ** binding
for _caller in ("mako.codegen:_GenerateRenderMethod.write_namespaces.NSDefVisitor.visitDefOrBase",
                "mako.codegen:_Identifiers._check_name_exists", "mako.codegen:_Identifiers.visitBlockTag"):
    ASSUME("mako.exceptions:CompileException.__init__@" + _caller,
           params={"self": "CompileException", "message": "Any", "**kw": "Dict[Str,Any]"},
           modifies=["self.lineno", "self.pos", "self.filename", "self.source"],
           ensures=[("carries-what-it-was-given", " and ".join("implies('%s' in kw, same(self.%s, kw['%s']))" % (f, f, f) for f in ("lineno", "pos", "filename", "source")))],
           note="CompileException.__init__(message, source, lineno, pos, filename) called with the position as keywords")
