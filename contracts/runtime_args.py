"""Contracts for argument sourcing of includes and top-level def renders (C07, C08)."""
from vrf.pyvc.spec import C, ASSUME, CLASS, FUNSPEC

ASSUME("mako.compat:inspect_getargspec",
       params={"func": "Fun[render_callable]"},
       returns="Tuple[List[Str],Opt[Str],Opt[Str],Any]",
       ensures=[("args", "result[0] == spec_args(func)"), ("fresh-list", "fresh(result[0])"),
                ("varargs", "result[1] == spec_varargs(func)"),
                ("varkw", "result[2] == spec_varkw(func)")],
       raises={"TypeError": {}},
       note="inspect_getargspec(f) = (positional names, *name or None, **name or None, defaults) of f's code object")

_NAMED = "(k in spec_args(callable_) or spec_varargs(callable_) == k or spec_varkw(callable_) == k)"

C("mako.runtime:_kwargs_for_include",
  params={"callable_": "Fun[render_callable]", "data": "Dict[Str,Any]", "**kwargs": "Dict[Str,Any]"},
  returns="Dict[Str,Any]",
  requires=[("distinct-dicts", "not same(data, kwargs)")],
  modifies=["kwargs"],
  loops={0: {"inv": [
      ("keys", "forall(lambda k: (k in kwargs) == (k in old(kwargs) or (in_prefix(_s0, _i0, k) and k != 'context' and k in data)), ty='Str')"),
      ("given-win", "forall(lambda k: implies(k in old(kwargs), same(kwargs[k], old(kwargs)[k])), ty='Str')"),
      ("from-context", "forall(lambda k: implies(k in kwargs and k not in old(kwargs), same(kwargs[k], data[k])), ty='Str')"),
      ("data-untouched", "data == old(data)")],
      "modifies": ["kwargs"]}},
  ensures=[("keys", "forall(lambda k: (k in result) == (k in old(kwargs) or (%s and k != 'context' and k in data)), ty='Str')" % _NAMED),
           ("args-first", "forall(lambda k: implies(k in old(kwargs), same(result[k], old(kwargs)[k])), ty='Str')"),
           ("context-second", "forall(lambda k: implies(k in result and k not in old(kwargs), same(result[k], data[k])), ty='Str')"),
           ("data-untouched", "data == old(data)")],
  raises={"TypeError": {}},
  props=["C07"])

C("mako.runtime:_kwargs_for_callable",
  params={"callable_": "Fun[render_callable]", "data": "Dict[Str,Any]"},
  returns="Dict[Str,Any]",
  loops={0: {"inv": [
      ("keys", "forall(lambda k: (k in kwargs) == (in_prefix(_s0, _i0, k) and k != 'context' and k in data), ty='Str')"),
      ("vals", "forall(lambda k: implies(k in kwargs, same(kwargs[k], data[k])), ty='Str')"),
      ("fresh", "not same(kwargs, data)"),
      ("data-untouched", "data == old(data)")],
      "modifies": ["kwargs"]}},
  ensures=[("varkw-takes-all", "implies(spec_varkw(callable_) is not None and truthy(spec_varkw(callable_)), same(result, data))"),
           ("keys", "implies(not (spec_varkw(callable_) is not None and truthy(spec_varkw(callable_))), forall(lambda k: (k in result) == (%s and k != 'context' and k in data), ty='Str'))" % _NAMED),
           ("vals", "implies(not (spec_varkw(callable_) is not None and truthy(spec_varkw(callable_))), forall(lambda k: implies(k in result, same(result[k], data[k])), ty='Str'))"),
           ("data-untouched", "data == old(data)")],
  raises={"TypeError": {}},
  locals={"kwargs": "Dict[Str,Any]"},
  props=["C08", "C07"])

