"""Contracts for the ModuleInfo registry (C08: Template.source / Template.code are the template's own)."""
from vrf.pyvc.spec import C, ASSUME, CLASS, CLASSES, CONTRACTS
from vrf.pyvc.types import parse_ty
import contracts.template_files  # noqa

CLASSES["Module"].fields["__name__"] = parse_ty("Str")
CLASSES["Template"].fields["_mmarker"] = parse_ty("Any")
CLASSES["ModuleInfo"].fields.update({k: parse_ty(v) for k, v in {
    "module": "Module", "module_filename": "Opt[Str]", "template_filename": "Opt[Str]", "module_source": "Opt[Str]",
    "template_source": "Any", "template_uri": "Opt[Str]", "_modules": "Dict[Str,Obj[ModuleInfo]]"}.items()})

# the verified contract of the constructor (callers elsewhere keep seeing the assumed view)
_view = CONTRACTS.pop("mako.template:ModuleInfo.__init__")
from vrf.pyvc.spec import VIEWS
VIEWS["mako.template:ModuleInfo.__init__"] = _view

C("mako.template:ModuleInfo.__init__",
  params={"self": "ModuleInfo", "module": "Module", "module_filename": "Opt[Str]", "template": "Template", "template_filename": "Opt[Str]",
          "module_source": "Opt[Str]", "template_source": "Any", "template_uri": "Opt[Str]"},
  requires=[("registry-present", "self._modules is not None")],
  modifies=["self.module", "self.module_filename", "self.template_filename", "self.module_source", "self.template_source", "self.template_uri",
            "self._modules", "ptr(template._mmarker)"],
  ensures=[("registered-under-the-module-name", "module.__name__ in self._modules and same(self._modules[module.__name__], self)"),
           ("registered-under-the-module-file", "implies(module_filename is not None and truthy(module_filename), the(module_filename) in self._modules and same(self._modules[the(module_filename)], self))"),
           ("carries-this-template's-text-and-module", "same(self.template_source, template_source) and self.module_source == module_source and same(self.module, module) and self.template_uri == template_uri and self.template_filename == template_filename and self.module_filename == module_filename"),
           ("kept-alive-by-the-template", "same(template._mmarker, self)"),
           ("other-entries-untouched", "forall(lambda k: implies(k != module.__name__ and not (module_filename is not None and truthy(module_filename) and k == the(module_filename)), (k in self._modules) == (k in old(self._modules)) and same(self._modules[k], old(self._modules)[k])), ty='Str')")],
  raises={}, props=["C08"], native_skip=True)

CLASS("mako.template:<registry>", name="Registry", fields={})
