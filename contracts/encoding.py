"""Contracts for source decoding (C18)."""
from vrf.pyvc.spec import C, ASSUME, CLASS, GLOBALS, CLASSES, CONTRACTS
from vrf.pyvc.types import parse_ty
import contracts.lexer  # noqa

CLASSES["Lexer"].fields["_coding_re"] = parse_ty("Pattern")
GLOBALS["codecs:BOM_UTF8"] = ("Bytes", "b'\\xef\\xbb\\xbf'")

CLASS("codecs:CodecInfo", name="CodecInfo", fields={"name": "Str"})
ASSUME("codecs:lookup", params={"encoding": "Str"}, returns="CodecInfo",
       ensures=[("canonical-name", "result.name == codec_name(encoding) and known_codec(encoding)")],
       raises={"LookupError": {"when": "not known_codec(encoding)"}},
       note="codecs.lookup(n).name is the codec's canonical name (codec_name); 'utf-8', 'UTF-8', 'utf8', 'utf_8', 'U8' all give 'utf-8'")

C("mako.lexer:_codec_name", params={"encoding": "Str"}, returns="Str",
  ensures=[("canonical-or-as-given", "result == %s" % ("ite(known_codec(%s), codec_name(%s), %s)" % (("encoding",) * 3)))],
  raises={}, props=["C18"], native_skip=True)

_HAS = "pat_matches(self._coding_re, %s, 0)"
_ENC = "pat_group1(self._coding_re, %s, 0)"
_PICK = "ite(%s, %s, ite(known_encoding is not None and truthy(known_encoding), known_encoding, 'utf-8'))"
_BOM = "text.startswith(G_bytes('codecs:BOM_UTF8'))"
_BODY = "ite(%s, text[len(G_bytes('codecs:BOM_UTF8')):], text)" % _BOM
_PEEK = "bytes_decode(%s, 'utf-8', 'ignore')" % _BODY
_PARSED = "ite(%s, 'utf-8', %s)" % (_BOM, _PICK % (_HAS % _PEEK, _ENC % _PEEK))
# the statement: "a BOM contradicted by the comment" - the comment names another codec (codec names have aliases and are case-insensitive)
_CN = "ite(known_codec(%s), codec_name(%s), %s)"
_CONFLICT = "(%s and %s and %s != 'utf-8')" % (_BOM, _HAS % _PEEK, _CN % ((_ENC % _PEEK,) * 3))

C("mako.lexer:Lexer.decode_raw_stream",
  params={"self": "Lexer", "text": "Any", "decode_raw": "Bool", "known_encoding": "Opt[Str]", "filename": "Opt[Str]"},
  returns="Tuple[Opt[Str],Any]",
  modifies=[],
  ensures=[],
  raises={},
  props=["C18"], native_skip=True)
_c = CONTRACTS["mako.lexer:Lexer.decode_raw_stream"]
_c.variants = [{"text": "Str"}, {"text": "Bytes"}]

# clauses per variant are guarded by the static type of `text`
from vrf.pyvc.spec import Clause
_c.ensures = [
    Clause("an encoding is always determined", "result[0] is not None and len(result[0]) > 0"),
    Clause("text: comment, else input_encoding, else utf-8; the text itself unchanged",
           "implies(is_str(text), result[0] == %s and result[1] == box(text))" % (_PICK % (_HAS % "text", _ENC % "text"))),
    Clause("bytes: a BOM means utf-8, else comment, else input_encoding, else utf-8",
           "implies(is_bytes(text), result[0] == %s)" % _PARSED),
    Clause("bytes: decoded strictly with that encoding, BOM stripped",
           "implies(is_bytes(text) and decode_raw, result[1] == box(bytes_decode(%s, %s, 'strict')) and decodable(%s, %s))" % (_BODY, _PARSED, _BODY, _PARSED)),
    Clause("bytes: handed back raw (BOM stripped) when no decoding is asked for",
           "implies(is_bytes(text) and not decode_raw, result[1] == box(%s))" % _BODY),
    Clause("a BOM is never combined with another declared encoding", "implies(is_bytes(text), not %s)" % _CONFLICT),
]
_c.raises = {"CompileException": {"when": "is_bytes(text) and (%s or (decode_raw and not decodable(%s, %s)))" % (_CONFLICT, _BODY, _PARSED), "ensures": []},
             "LookupError": {"when": "is_bytes(text) and decode_raw and not known_codec(%s)" % _PARSED, "ensures": []}}
_c.requires = [Clause("coding pattern: group 1 always takes part and is non-empty (regex obligation C18.regex)",
                      "forall(lambda s: implies(pat_matches(self._coding_re, s, 0), pat_group1(self._coding_re, s, 0) is not None and len(pat_group1(self._coding_re, s, 0)) > 0), ty='Str')")]
