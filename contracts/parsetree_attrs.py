"""Contract for Tag._parse_attributes (C05: attribute values of a call with content - literal text as strings,
${} as values, mixtures concatenated in order)."""
from vrf.pyvc.spec import C, ASSUME, CLASS, FOLD, CLASSES, CONTRACTS, VIEWS
from vrf.pyvc.types import parse_ty
import contracts.lexer  # noqa: Pattern / Match
import contracts.errors  # noqa: PNode, PythonCode

CLASS("mako.parsetree:Tag", name="TagNode", bases=["PNode"],
      fields={"attributes": "Dict[Str,Str]", "parsed_attributes": "Dict[Str,Str]", "keyword": "Str",
              "expression_undeclared_identifiers": "Set[Str]"})

ASSUME("re:compile", params={"pattern": "Str", "flags": "Int=0"}, returns="Pattern",
       ensures=[("is", "fresh(result) and pat_source(result) == pattern and pat_flags(result) == flags")],
       note="re.compile: a pattern object standing for (pattern, flags)")
ASSUME("re:Pattern.split", params={"self": "Pattern", "string": "Str"}, returns="List[Str]",
       ensures=[("fresh", "fresh(result)"), ("value", "content(result) == re_split(pat_source(self), pat_flags(self), string)")],
       note="pattern.split(s) as an uninterpreted function of (pattern, flags, s); with one capturing group the delimiters are kept as pieces")
ASSUME("re:search", params={"pattern": "Str", "string": "Str", "flags": "Int=0"}, returns="Opt[Obj[Match]]",
       ensures=[("fresh", "implies(result is not None, fresh(result))")])

# the caller's view of PythonCode(...) here: the identifiers it reports are an uninterpreted function of the code
VIEWS["mako.ast:PythonCode.__init__"] = ASSUME(
    "mako.ast:PythonCode.__init__@attrs", params={"self": "PythonCode", "code": "Str", "lineno_offset": "Int=0", "**exception_kwargs": "Star"},
    modifies=["ptr(self.code)", "ptr(self.declared_identifiers)", "ptr(self.undeclared_identifiers)", "fresh_heap('set:Str')"],
    ensures=[("sets", "self.undeclared_identifiers is not None and fresh(self.undeclared_identifiers)")],
    raises={"*": {}})
CONTRACTS.pop("mako.ast:PythonCode.__init__@attrs", None)

_EXPR = "'^\\\\${(.+?)}$'"
_IS_EXPR = "re_matches_f(%s, G_int('re:S'), e)" % _EXPR
_PIECE = "ite(%s, acc + ['(' + re_group_f(%s, G_int('re:S'), e, 1) + ')'], ite(len(e) > 0, acc + [py_repr(e)], acc))" % (_IS_EXPR, _EXPR)
FOLD("attr_pieces", elem="Str", acc="Seq[Str]", step=_PIECE,
     note="the Python expression pieces of an attribute value: (code) for a ${code} piece, the repr of every non-empty literal piece, in order")

_SPLIT = "re_split('(\\\\${(?:[^$]*?{.+|.+?)})', G_int('re:S'), self.attributes[k])"
_JOINED = "' + '.join(attr_pieces(%s, len(%s), empty_strs()))" % (_SPLIT, _SPLIT)
_VALUE = "ite(len(%s) > 0, %s, py_repr(''))" % (_JOINED, _JOINED)      # the pieces joined by +, or '' when there is none

C("mako.parsetree:Tag._parse_attributes",
  params={"self": "TagNode", "expressions": "Seq[Str]", "nonexpressions": "Seq[Str]"},
  modifies=["ptr(self.parsed_attributes)", "ptr(self.expression_undeclared_identifiers)", "fresh_heap('ddom:Str~Str')", "fresh_heap('dval:Str~Str')",
            "fresh_heap('set:Str')", "fresh_heap('list:Str')", "heap('f:PythonCode.')", "fresh_heap('f:Pattern.')", "fresh_heap('f:Match.')"],
  loops={0: {"inv": [("processed-attributes-have-their-value",
                      "forall(lambda k: implies(in_prefix(_s0, _i0, k), k in self.parsed_attributes and implies(k in expressions, self.parsed_attributes[k] == %s)), ty='Str')" % _VALUE, "P"),
                     ("attributes-untouched", "self.attributes == pre(self.attributes)", "P"),
                     ("own-dict", "not same(self.parsed_attributes, self.attributes)", "P")],
             "modifies": ["self.parsed_attributes", "fresh_heap('set:Str')", "fresh_heap('list:Str')", "heap('f:PythonCode.')"]},
         1: {"inv": [("pieces-so-far", "content(expr) == attr_pieces(_s1, _i1, empty_strs())", "P"),
                     ("attributes-untouched", "self.attributes == pre(self.attributes)", "P")],
             "modifies": ["expr", "fresh_heap('set:Str')", "heap('f:PythonCode.')"]}},
  ensures=[("expression-attributes: literal text as strings, ${} as values, mixtures concatenated in order",
            "forall(lambda k: implies(k in self.attributes and k in expressions, k in self.parsed_attributes and self.parsed_attributes[k] == %s), ty='Str')" % _VALUE),
           ("attributes-untouched", "self.attributes == old(self.attributes)")],
  raises={"CompileException": {}, "SyntaxException": {}, "*": {}},
  locals={"expr": "List[Str]", "x": "Str", "key": "Str", "m": "Opt[Obj[Match]]", "code": "PythonCode", "undeclared_identifiers": "Set[Str]"},
  props=["C05"], native_skip=True,
  note="regular expressions as uninterpreted functions of (pattern, flags, text); what the two patterns mean is covered by the bounded attribute grid")
