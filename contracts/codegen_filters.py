"""Contracts on the filter-pipeline emitter (C02)."""
from vrf.pyvc.spec import C, ASSUME, CLASS, FOLD, GLOBALS, CLASSES, GHOST
from vrf.pyvc.types import parse_ty
import contracts.codegen_decls  # noqa: GenRM, printer log

CLASS("mako.ast:ArgumentList", name="ArgList", fields={"args": "List[Str]"})
CLASS("mako.parsetree:PageTag", name="PageTag", fields={"filter_args": "ArgList"})
CLASS("mako.codegen:_CompileContext", name="CompileCtx", fields={"pagetag": "Opt[Obj[PageTag]]", "default_filters": "List[Str]"})
CLASSES["GenRM"].fields["compiler"] = parse_ty("CompileCtx")
GLOBALS["mako.filters:DEFAULT_ESCAPES"] = ("StrDictLiteral", "the flag-name table, read from the source of mako/filters.py on every run")

CLASS("re:Match2", name="MatchG", fields={"pattern": "Str", "string": "Str"})
ASSUME("re:match", params={"pattern": "Str", "string": "Str", "flags": "Int=0"}, returns="Opt[Obj[MatchG]]",
       ensures=[("matches", "(result is not None) == re_matches(pattern, string)"),
                ("about", "implies(result is not None, fresh(result) and result.pattern == pattern and result.string == string)")],
       note="re.match as an uninterpreted predicate re_matches(pattern, text) and group function re_group(pattern, text, i); what the two literal patterns mean is a separate (rex / enumeration) obligation")
ASSUME("re:Match2.group", params={"self": "MatchG", "a": "Int", "b": "Int"}, returns="Tuple[Str,Str]",
       ensures=[("groups", "result[0] == re_group(self.pattern, self.string, a) and result[1] == re_group(self.pattern, self.string, b)")])

_CALLPAT = r"'(.+?)(\\(.*\\))'"
_DECPAT = r"'decode\\..+'"
# the documented flag names (property statement / filtering docs), independent of the table in the code
_TABLE = {"x": "filters.xml_escape", "h": "filters.html_escape", "u": "filters.url_escape", "trim": "filters.trim",
          "entity": "filters.html_entities_escape", "unicode": "str", "str": "str"}


def _locname(x):
    e = x
    for k, v in _TABLE.items():
        e = "ite(%s == %r, %r, %s)" % (x, k, v, e)
    return "ite(re_matches(%s, %s), 'filters.' + %s, %s)" % (_DECPAT, x, x, e)


_IDENT = "re_group(%s, e, 1)" % _CALLPAT
_LOCATED = "ite(re_matches(%s, e), %s + re_group(%s, e, 2), %s)" % (_CALLPAT, _locname(_IDENT), _CALLPAT, _locname("e"))
FOLD("wrap_filters", elem="Str", acc="Str",
     step="ite(e == 'n', acc, '%%s(%%s)' %% (%s, acc))" % _LOCATED,
     note="f_k(...f_1(target)): each filter name wraps what the earlier ones produced; n contributes nothing")

_P = "self.compiler.pagetag.filter_args.args"
_D = "self.compiler.default_filters"
_A1 = "ite(self.compiler.pagetag is not None, content(%s) + content(args), content(args))" % _P
_EFF = ("ite('n' in content(args) or not is_expression, content(args), "
        "ite(len(content(%s)) > 0 and 'n' not in %s, content(%s) + %s, %s))" % (_D, _A1, _D, _A1, _A1))

C("mako.codegen:_GenerateRenderMethod.create_filter_callable",
  params={"self": "GenRM", "args": "List[Str]", "target": "Str", "is_expression": "Bool"}, returns="Str",
  modifies=[],
  loops={0: {"inv": [("wrapped-so-far", "target == wrap_filters(_s0, _i0, pre(target))", "P")], "modifies": []}},
  ensures=[("pipeline-order: locals after page filters after defaults, n as documented",
            "result == wrap_filters(%s, len(%s), target)" % (_EFF, _EFF))],
  raises={},
  locals={"e": "Str", "m": "Opt[Obj[MatchG]]", "ident": "Str", "fargs": "Str", "f": "Str"},
  props=["C02"], native_skip=True,
  note="assumes mako.filters.DEFAULT_ESCAPES is not mutated at run time; the meaning of the two regular expressions is the obligation C02.regex")

# ---- visitExpression: when the pipeline is applied at all (C02) ----------------------------------------
CLASS("mako.parsetree:Expression", name="ExprNode", fields={"text": "Str", "escapes": "Str", "escapes_code": "ArgList", "lineno": "Int"})
import contracts.printer  # noqa: start_source has its own (verified) contract there

_XA = "node.escapes_code.args"
_XA1 = "ite(self.compiler.pagetag is not None, content(%s) + content(%s), content(%s))" % (_P, _XA, _XA)
_XEFF = ("ite('n' in content(%s), content(%s), ite(len(content(%s)) > 0 and 'n' not in %s, content(%s) + %s, %s))" % (_XA, _XA, _D, _XA1, _D, _XA1, _XA1))

C("mako.codegen:_GenerateRenderMethod.visitExpression",
  params={"self": "GenRM", "node": "ExprNode"},
  requires=[("escapes-text-and-parsed-list-agree", "(len(node.escapes) > 0) == (len(content(%s)) > 0)" % _XA),
            ("page-filter-list-present", "implies(self.compiler.pagetag is not None, self.compiler.pagetag.filter_args is not None and self.compiler.pagetag.filter_args.args is not None)")],
  modifies=["G.emit_n", "G.emit_last", "G.emit_prev", "G.dedents", "self.printer.source_map"],
  ensures=[("one-line", "G.emit_n == old(G.emit_n) + 1"),
           ("the expression is written through the whole pipeline D, P, local filters - whichever of them are empty",
            "G.emit_last == '__M_writer(%%s)' %% wrap_filters(%s, len(%s), node.text)" % (_XEFF, _XEFF))],
  raises={"*": {}}, props=["C02"], native_skip=True)

# ---- write_def_finish: what a def / block with filter= or buffered="True" does with its collected content (C05, C02) ----
_WDF = "mako.codegen:_GenerateRenderMethod.write_def_finish"
CLASS("mako.parsetree:<def-or-block>", name="FilteredNode", fields={"filter_args": "ArgList"})
CLASSES["CompileCtx"].fields["buffer_filters"] = parse_ty("List[Str]")
_LOG4 = ["G.emit_n", "G.emit_last", "G.emit_prev", "G.dedents"]
ASSUME("mako.pygen:PythonPrinter.writelines@" + _WDF,
       params={"self": "Printer", "l0": "Opt[Str]=None", "l1": "Opt[Str]=None", "l2": "Opt[Str]=None"}, modifies=_LOG4,
       ensures=[("two-lines-then-nothing-or-a-dedent", "implies(l0 is not None and l1 is not None and l2 is None, G.emit_last == the(l1) and G.emit_prev == the(l0))")],
       raises={"*": {}}, note="writelines(*lines) as this caller uses it: two source lines, optionally followed by None (end of block)")
_S0 = "'__M_buf.getvalue()'"
_FA = "content(node.filter_args.args)"
_S1 = "ite(truthy(filtered), wrap_filters(%s, len(%s), %s), %s)" % (_FA, _FA, _S0, _S0)
_BF = "content(self.compiler.buffer_filters)"
_S2 = "ite(truthy(buffered) and not truthy(cached), wrap_filters(%s, len(%s), %s), %s)" % (_BF, _BF, _S1, _S1)
C(_WDF,
  params={"self": "GenRM", "node": "FilteredNode", "buffered": "Any", "filtered": "Any", "cached": "Any", "callstack": "Any=True"},
  requires=[("lists-present", "node.filter_args is not None and node.filter_args.args is not None and self.compiler.buffer_filters is not None")],
  modifies=_LOG4,
  ensures=[("a buffered or cached def returns its content, through its own filters once and then the buffer filters",
            "implies(truthy(buffered) or truthy(cached), G.emit_last == 'return %%s' %% %s)" % _S2),
           ("a def or block with filter= writes its whole content once through exactly those filters",
            "implies(truthy(filtered) and not truthy(buffered) and not truthy(cached), G.emit_prev == '__M_writer(%%s)' %% %s and G.emit_last == \"return ''\")" % _S1)],
  raises={"*": {}}, props=["C05", "C02"], native_skip=True,
  note="neither default_filters nor <%page expression_filter> takes part: those belong to ${} expressions")

# ---- write_inline_def: a def nested in another def is finished, and - when cached - wrapped, for the flags its tag carries
# (C05: a buffered def returns its content; C17: a cached section produces what the uncached one would) ------------------
_WID = "mako.codegen:_GenerateRenderMethod.write_inline_def"
GHOST("wdf_buffered", "Any", "the `buffered` argument of the most recent write_def_finish call")
GHOST("wdf_filtered", "Any", "its `filtered` argument")
GHOST("wdf_cached", "Any", "its `cached` argument")
GHOST("wcd_calls", "Int", "calls of write_cache_decorator")
GHOST("wcd_buffered", "Any", "the `buffered` argument of the most recent one")
CLASS("mako.parsetree:<def-or-block>@inline", name="InlineNode", bases=["FilteredNode"],
      fields={"attributes": "Dict[Str,Str]", "decorator": "Str", "funcname": "Str", "nodes": "List[ChildNode]"})
CLASSES["GenRM"].fields["identifier_stack"] = parse_ty("List[Obj[Idents]]")
_EMITS = ["G.emit_n", "G.emit_last", "G.emit_prev", "G.dedents"]
ASSUME("builtins:eval@" + _WID, params={"source": "Str"}, returns="Any", ensures=[("value", "same(result, py_eval(source))")],
       note="eval of an attribute text ('True' / 'False' / an expression): some value determined by the text")
ASSUME("mako.parsetree:<def-or-block>@inline.get_argument_expressions", params={"self": "InlineNode", "as_call": "Bool=False"}, returns="List[Str]",
       ensures=[("fresh", "fresh(result)")])
ASSUME("mako.pygen:PythonPrinter.writeline@" + _WID, params={"self": "Printer", "line": "Opt[Str]"}, modifies=_EMITS, raises={"*": {}})
ASSUME("mako.pygen:PythonPrinter.writelines@" + _WID, params={"self": "Printer", "l0": "Opt[Str]=None", "l1": "Opt[Str]=None", "l2": "Opt[Str]=None"},
       modifies=_EMITS, raises={"*": {}})
ASSUME("mako.codegen:_Identifiers.branch@" + _WID, params={"self": "Idents", "node": "InlineNode", "**kwargs": "Star"}, returns="Idents",
       ensures=[("a-scope", "result is not None")], raises={"*": {}})
ASSUME("mako.codegen:_GenerateRenderMethod.write_variable_declares@" + _WID, params={"self": "GenRM", "identifiers": "Idents", "toplevel": "Bool=False", "limit": "Any=None"},
       modifies=_EMITS, raises={"*": {}}, note="its own contract: contracts/codegen_declares.py")
ASSUME("mako.parsetree:<child>.accept_visitor@" + _WID, params={"self": "ChildNode", "visitor": "GenRM"},
       modifies=_EMITS + ["G.wdf_buffered", "G.wdf_filtered", "G.wdf_cached", "G.wcd_calls", "G.wcd_buffered", "heap('list:Obj[Idents]')"],
       ensures=[("stack-balanced", "content(visitor.identifier_stack) == old(content(visitor.identifier_stack))")],
       raises={"*": {}}, note="R3: the children are emitted by the visitors of the generator (nested defs by this very function); they leave the identifier stack as they found it")
ASSUME("mako.codegen:_GenerateRenderMethod.write_def_finish@" + _WID,
       params={"self": "GenRM", "node": "InlineNode", "buffered": "Any", "filtered": "Any", "cached": "Any", "callstack": "Any=True"},
       modifies=_EMITS + ["G.wdf_buffered", "G.wdf_filtered", "G.wdf_cached"],
       ensures=[("logged", "same(G.wdf_buffered, buffered) and same(G.wdf_filtered, box(filtered)) and same(G.wdf_cached, cached)")], raises={"*": {}},
       note="its own contract is above; here only which flags it is given")
ASSUME("mako.codegen:_GenerateRenderMethod.write_cache_decorator@" + _WID,
       params={"self": "GenRM", "node_or_pagetag": "InlineNode", "name": "Str", "args": "List[Str]", "buffered": "Any", "identifiers": "Idents",
               "inline": "Bool=False", "toplevel": "Bool=False"},
       modifies=_EMITS + ["G.wcd_calls", "G.wcd_buffered"],
       ensures=[("logged", "G.wcd_calls == old(G.wcd_calls) + 1 and same(G.wcd_buffered, buffered)")], raises={"*": {}})
C(_WID, params={"self": "GenRM", "node": "InlineNode", "identifiers": "Idents", "nested": "Bool"},
  requires=[("present", "node.filter_args is not None and node.filter_args.args is not None and node.attributes is not None and node.nodes is not None and self.identifier_stack is not None")],
  modifies=_EMITS + ["G.wdf_buffered", "G.wdf_filtered", "G.wdf_cached", "G.wcd_calls", "G.wcd_buffered", "self.identifier_stack", "heap('list:Obj[Idents]')", "fresh_heap('list:Str')"],
  loops={0: {"inv": [("stack-has-this-scope-on-top", "len(self.identifier_stack) == pre(len(self.identifier_stack))", "L")],
             "modifies": _EMITS + ["G.wdf_buffered", "G.wdf_filtered", "G.wdf_cached", "G.wcd_calls", "G.wcd_buffered", "heap('list:Obj[Idents]')"]}},
  ensures=[("the def is finished for the flags its tag carries",
            "same(G.wdf_buffered, py_eval(ite('buffered' in node.attributes, node.attributes['buffered'], 'False'))) and "
            "same(G.wdf_cached, py_eval(ite('cached' in node.attributes, node.attributes['cached'], 'False'))) and "
            "same(G.wdf_filtered, box(len(node.filter_args.args) > 0))"),
           ("a cached def is wrapped by a cache decorator that knows whether the def is buffered",
            "implies(truthy(G.wdf_cached), same(G.wcd_buffered, G.wdf_buffered))"),
           ("identifier-stack-restored", "content(self.identifier_stack) == old(content(self.identifier_stack))")],
  raises={"*": {}}, locals={"n": "ChildNode"}, props=["C05", "C17"], native_skip=True,
  note="the body's children are emitted under the induction hypothesis R3")
