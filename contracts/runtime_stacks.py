"""Contracts for the render-state stacks of mako.runtime (C05, C13, C03)."""
from vrf.pyvc.spec import C, CLASS, FUNSPEC, ASSUME

# ---------------------------------------------------------------------------
# class schemas (views)

CLASS("mako.util:FastEncodingBuffer",
      fields={"data": "List[Str]", "write": "Writer", "encoding": "Opt[Str]",
              "errors": "Str", "delim": "Str"},
      invariant=["same(self.write, self.data)"])

CLASS("mako.runtime:CallerStack", listlike="Any",
      fields={"nextcaller": "Any"})

CLASS("mako.runtime:Context",
      fields={"_buffer_stack": "List[Obj[FastEncodingBuffer]]",
              "_data": "Dict[Str,Any]", "_kwargs": "Dict[Str,Any]",
              "_with_template": "Opt[Obj[Template]]",
              "_outputting_as_unicode": "Any",
              "namespaces": "Dict[Any,Any]",
              "caller_stack": "Obj[CallerStack]"})

# ---------------------------------------------------------------------------
# FastEncodingBuffer (util.py)

C("mako.util:FastEncodingBuffer.__init__",
  params={"self": "FastEncodingBuffer", "encoding": "Opt[Str]", "errors": "Str"},
  modifies=["ptr(self.data)", "ptr(self.write)", "ptr(self.encoding)", "ptr(self.errors)", "ptr(self.delim)"],
  ensures=[("empty", "len(self.data) == 0"),
           ("writer", "same(self.write, self.data)"),
           ("fresh-data", "fresh(self.data)"),
           ("enc", "self.encoding == encoding and self.errors == errors and self.delim == ''")],
  props=["C05", "C13", "C18"], assumed=True,
  note="collections.deque modelled as a list; `self.write = self.data.append` is the writer bound to data")

# ---------------------------------------------------------------------------
# CallerStack

C("mako.runtime:CallerStack.__init__",
  params={"self": "CallerStack"},
  modifies=["ptr(self.nextcaller)"],
  ensures=[("nextcaller-none", "self.nextcaller is None"),
           ("list-untouched", "self == old(self)")],
  props=["C05"])

C("mako.runtime:CallerStack._push_frame",
  params={"self": "CallerStack"},
  returns="Any",
  modifies=["self", "ptr(self.nextcaller)"],
  ensures=[("pushed", "self == old(self) + [ite(truthy(old(self.nextcaller)), old(self.nextcaller), None)]"),
           ("nextcaller-reset", "self.nextcaller is None"),
           ("returns-frame", "same(result, ite(truthy(old(self.nextcaller)), old(self.nextcaller), None))")],
  props=["C05", "C13"])

C("mako.runtime:CallerStack._pop_frame",
  params={"self": "CallerStack"},
  requires=[("nonempty", "len(self) >= 1")],
  modifies=["self", "ptr(self.nextcaller)"],
  ensures=[("popped", "self == old(self)[:len(old(self)) - 1]"),
           ("nextcaller-restored", "same(self.nextcaller, old(self)[len(old(self)) - 1])")],
  props=["C05", "C13"])

C("mako.runtime:CallerStack._get_caller",
  params={"self": "CallerStack"}, returns="Any",
  requires=[("nonempty", "len(self) >= 1")],
  ensures=[("top", "same(result, self[len(self) - 1])"), ("pure", "self == old(self)")],
  props=["C05"])

C("mako.runtime:CallerStack.__bool__",
  params={"self": "CallerStack"}, returns="Bool",
  ensures=[("def", "result == (len(self) > 0 and truthy(self[len(self) - 1]))"),
           ("pure", "self == old(self) and same(self.nextcaller, old(self.nextcaller))")],
  props=["C05"])

# ---------------------------------------------------------------------------
# Context buffer stack

C("mako.runtime:Context._push_writer",
  params={"self": "Context"}, returns="Writer",
  modifies=["self._buffer_stack"],
  ensures=[("elements-kept", "forall(lambda i: same(self._buffer_stack[i], old(self._buffer_stack)[i]), 0, len(old(self._buffer_stack)))"),
           ("inv-allocated-preserved", "implies(old(allocated(self._buffer_stack)), allocated(self._buffer_stack))"),
           ("inv-writer-preserved", "implies(old(forall(lambda i: same(self._buffer_stack[i].write, self._buffer_stack[i].data), 0, len(self._buffer_stack))), forall(lambda i: same(self._buffer_stack[i].write, self._buffer_stack[i].data), 0, len(self._buffer_stack)))"),
           ("inv-own-data-preserved", "implies(old(allocated(self._buffer_stack) and forall(lambda i, j: implies(i < j, not same(self._buffer_stack[i].data, self._buffer_stack[j].data)), 0, len(self._buffer_stack))), forall(lambda i, j: implies(i < j, not same(self._buffer_stack[i].data, self._buffer_stack[j].data)), 0, len(self._buffer_stack)))"),
           ("pushed-one", "self._buffer_stack == old(self._buffer_stack) + [self._buffer_stack[len(old(self._buffer_stack))]]"),
           ("below-kept", "self._buffer_stack[:len(old(self._buffer_stack))] == old(self._buffer_stack)"),
           ("fresh-buffer", "fresh(self._buffer_stack[len(self._buffer_stack) - 1])"),
           ("fresh-data", "fresh(self._buffer_stack[len(self._buffer_stack) - 1].data)"),
           ("empty-buffer", "len(self._buffer_stack[len(self._buffer_stack) - 1].data) == 0"),
           ("writer-of-top", "same(result, self._buffer_stack[len(self._buffer_stack) - 1].data)"),
           ("top-writer-inv", "same(self._buffer_stack[len(self._buffer_stack) - 1].write, self._buffer_stack[len(self._buffer_stack) - 1].data)")],
  props=["C05", "C13"])

C("mako.runtime:Context._push_buffer",
  params={"self": "Context"},
  modifies=["self._buffer_stack"],
  ensures=[("elements-kept", "forall(lambda i: same(self._buffer_stack[i], old(self._buffer_stack)[i]), 0, len(old(self._buffer_stack)))"),
           ("inv-allocated-preserved", "implies(old(allocated(self._buffer_stack)), allocated(self._buffer_stack))"),
           ("inv-writer-preserved", "implies(old(forall(lambda i: same(self._buffer_stack[i].write, self._buffer_stack[i].data), 0, len(self._buffer_stack))), forall(lambda i: same(self._buffer_stack[i].write, self._buffer_stack[i].data), 0, len(self._buffer_stack)))"),
           ("inv-own-data-preserved", "implies(old(allocated(self._buffer_stack) and forall(lambda i, j: implies(i < j, not same(self._buffer_stack[i].data, self._buffer_stack[j].data)), 0, len(self._buffer_stack))), forall(lambda i, j: implies(i < j, not same(self._buffer_stack[i].data, self._buffer_stack[j].data)), 0, len(self._buffer_stack)))"),
           ("pushed-one", "self._buffer_stack == old(self._buffer_stack) + [self._buffer_stack[len(old(self._buffer_stack))]]"),
           ("below-kept", "self._buffer_stack[:len(old(self._buffer_stack))] == old(self._buffer_stack)"),
           ("fresh-buffer", "fresh(self._buffer_stack[len(self._buffer_stack) - 1])"),
           ("fresh-data", "fresh(self._buffer_stack[len(self._buffer_stack) - 1].data)"),
           ("empty-buffer", "len(self._buffer_stack[len(self._buffer_stack) - 1].data) == 0"),
           ("top-writer-inv", "same(self._buffer_stack[len(self._buffer_stack) - 1].write, self._buffer_stack[len(self._buffer_stack) - 1].data)")],
  props=["C05", "C13"])

C("mako.runtime:Context._pop_buffer",
  params={"self": "Context"}, returns="FastEncodingBuffer",
  requires=[("nonempty", "len(self._buffer_stack) >= 1")],
  modifies=["self._buffer_stack"],
  ensures=[("elements-kept", "len(self._buffer_stack) == len(old(self._buffer_stack)) - 1 and forall(lambda i: same(self._buffer_stack[i], old(self._buffer_stack)[i]), 0, len(self._buffer_stack))"),
           ("inv-allocated-preserved", "implies(old(allocated(self._buffer_stack)), allocated(self._buffer_stack))"),
           ("inv-writer-preserved", "implies(old(forall(lambda i: same(self._buffer_stack[i].write, self._buffer_stack[i].data), 0, len(self._buffer_stack))), forall(lambda i: same(self._buffer_stack[i].write, self._buffer_stack[i].data), 0, len(self._buffer_stack)))"),
           ("inv-own-data-preserved", "implies(old(allocated(self._buffer_stack) and forall(lambda i, j: implies(i < j, not same(self._buffer_stack[i].data, self._buffer_stack[j].data)), 0, len(self._buffer_stack))), forall(lambda i, j: implies(i < j, not same(self._buffer_stack[i].data, self._buffer_stack[j].data)), 0, len(self._buffer_stack)))"),
           ("popped", "self._buffer_stack == old(self._buffer_stack)[:len(old(self._buffer_stack)) - 1]"),
           ("returns-top", "same(result, old(self._buffer_stack)[len(old(self._buffer_stack)) - 1])")],
  props=["C05", "C13"])

C("mako.runtime:Context._pop_buffer_and_writer",
  params={"self": "Context"}, returns="Tuple[FastEncodingBuffer,Writer]",
  requires=[("two", "len(self._buffer_stack) >= 2")],
  modifies=["self._buffer_stack"],
  ensures=[("elements-kept", "len(self._buffer_stack) == len(old(self._buffer_stack)) - 1 and forall(lambda i: same(self._buffer_stack[i], old(self._buffer_stack)[i]), 0, len(self._buffer_stack))"),
           ("inv-allocated-preserved", "implies(old(allocated(self._buffer_stack)), allocated(self._buffer_stack))"),
           ("inv-writer-preserved", "implies(old(forall(lambda i: same(self._buffer_stack[i].write, self._buffer_stack[i].data), 0, len(self._buffer_stack))), forall(lambda i: same(self._buffer_stack[i].write, self._buffer_stack[i].data), 0, len(self._buffer_stack)))"),
           ("inv-own-data-preserved", "implies(old(allocated(self._buffer_stack) and forall(lambda i, j: implies(i < j, not same(self._buffer_stack[i].data, self._buffer_stack[j].data)), 0, len(self._buffer_stack))), forall(lambda i, j: implies(i < j, not same(self._buffer_stack[i].data, self._buffer_stack[j].data)), 0, len(self._buffer_stack)))"),
           ("popped", "self._buffer_stack == old(self._buffer_stack)[:len(old(self._buffer_stack)) - 1]"),
           ("returns-top", "same(result[0], old(self._buffer_stack)[len(old(self._buffer_stack)) - 1])"),
           ("writer-of-new-top", "same(result[1], self._buffer_stack[len(self._buffer_stack) - 1].write)")],
  props=["C05", "C13"])

C("mako.runtime:Context.write",
  params={"self": "Context", "string": "Str"},
  requires=[("nonempty", "len(self._buffer_stack) >= 1"),
            ("writer-inv", "same(self._buffer_stack[len(self._buffer_stack) - 1].write, self._buffer_stack[len(self._buffer_stack) - 1].data)")],
  modifies=["self._buffer_stack[len(self._buffer_stack) - 1].data"],
  ensures=[("appended", "self._buffer_stack[len(self._buffer_stack) - 1].data == old(self._buffer_stack[len(self._buffer_stack) - 1].data) + [string]"),
           ("stack-same", "self._buffer_stack == old(self._buffer_stack)")],
  props=["C05"])

C("mako.runtime:Context.writer",
  params={"self": "Context"}, returns="Writer",
  requires=[("nonempty", "len(self._buffer_stack) >= 1")],
  ensures=[("writer-of-top", "same(result, self._buffer_stack[len(self._buffer_stack) - 1].write)"),
           ("pure", "self._buffer_stack == old(self._buffer_stack)")],
  props=["C05"])

# ---------------------------------------------------------------------------
# FastEncodingBuffer.getvalue (C10.buffer, C18.render)

C("mako.util:FastEncodingBuffer.getvalue",
  params={"self": "FastEncodingBuffer"}, returns="Any",
  ensures=[("plain", "implies(not truthy(self.encoding), result == box(str_join(self.delim, self.data)))"),
           ("encoded", "implies(truthy(self.encoding), result == box(str_encode(str_join(self.delim, self.data), self.encoding, self.errors)))"),
           ("pure", "self.data == old(self.data)")],
  raises={"*": {"when": "truthy(self.encoding)"}},
  props=["C10", "C18", "C05"],
  note="encode() may raise (UnicodeEncodeError / LookupError) only on the encoding branch")

# ---------------------------------------------------------------------------
# callable specs: the induction hypothesis for render callables (R3)

def balanced(ctx):
    """(modifies, postconditions) of the induction hypothesis for a render callable that runs
    against the Context expression `ctx`."""
    mod = ["%s._buffer_stack" % ctx, "%s.caller_stack" % ctx, "ptr(%s.caller_stack.nextcaller)" % ctx,
           "heap('list:Str')", "heap('f:FastEncodingBuffer.data')", "heap('f:FastEncodingBuffer.write')",
           "heap('f:FastEncodingBuffer.encoding')"]
    post = [
        ("bstack-same", "CTX._buffer_stack == old(CTX._buffer_stack)"),
        ("cstack-same", "CTX.caller_stack == old(CTX.caller_stack)"),
        ("nextcaller-same", "same(CTX.caller_stack.nextcaller, old(CTX.caller_stack.nextcaller))"),
        ("existing-buffers-keep-fields",
         "forall(lambda b: implies(0 < b and b < old(alloc), same(bufdata(b), old(bufdata(b))) and same(bufwrite(b), old(bufwrite(b))) and bufenc(b) == old(bufenc(b))))"),
        ("below-top-untouched",
         "forall(lambda i: content(CTX._buffer_stack[i].data) == old(content(CTX._buffer_stack[i].data)), 0, len(CTX._buffer_stack) - 1)"),
        ("top-extended",
         "implies(len(CTX._buffer_stack) >= 1, prefix_of(old(content(CTX._buffer_stack[len(CTX._buffer_stack) - 1].data)), content(CTX._buffer_stack[len(CTX._buffer_stack) - 1].data)))"),
    ]
    return mod, [(l, e.replace("CTX", ctx)) for l, e in post]


_BAL_MOD, _BAL_POST = balanced("context")

FUNSPEC("balanced",
        params={"*args": "Star", "**kwargs": "Star"}, returns="Any",
        requires=[("stack-nonempty", "len(context._buffer_stack) >= 1")],
        modifies=_BAL_MOD,
        ensures=_BAL_POST,
        raises={"*": {"ensures": _BAL_POST}},
        note="Induction hypothesis for any render callable / template-author callable run against the "
             "ambient `context`: it leaves both stacks as it found them (normal and exceptional exit), "
             "only extends the content of the buffer that was on top, and does not touch buffers below.")

# ---------------------------------------------------------------------------
# capture / supports_caller

C("mako.runtime:capture",
  params={"context": "Context", "callable_": "Fun[balanced]", "*args": "Star", "**kwargs": "Star"},
  returns="Any",
  requires=[("stack-nonempty", "len(context._buffer_stack) >= 1"),
            ("wf", "allocated(context._buffer_stack)")],
  modifies=_BAL_MOD,
  ensures=[("stack-restored", "context._buffer_stack == old(context._buffer_stack)"),
           ("output-untouched",
            "forall(lambda i: content(context._buffer_stack[i].data) == old(content(context._buffer_stack[i].data)), 0, len(context._buffer_stack))"),
           ("cstack-same", "context.caller_stack == old(context.caller_stack)"),
           ("was-callable", "is_callable(callable_)")],
  raises={"RuntimeException": {"when": "not is_callable(callable_)",
                               "ensures": [("stack-untouched", "context._buffer_stack == old(context._buffer_stack)")]},
          "*": {"ensures": [("stack-restored", "context._buffer_stack == old(context._buffer_stack)"),
                            ("output-untouched",
                             "forall(lambda i: content(context._buffer_stack[i].data) == old(content(context._buffer_stack[i].data)), 0, len(context._buffer_stack))"),
                            ("cstack-same", "context.caller_stack == old(context.caller_stack)")]}},
  props=["C05", "C13"])

C("mako.runtime:supports_caller.wrap_stackframe",
  params={"context": "Context", "*args": "Star", "**kwargs": "Star"},
  captures={"func": "Fun[balanced_ctx]"},
  returns="Any",
  requires=[("stack-nonempty", "len(context._buffer_stack) >= 1")],
  modifies=_BAL_MOD,
  ensures=[("cstack-restored", "context.caller_stack == old(context.caller_stack)"),
           ("nextcaller-restored", "same(context.caller_stack.nextcaller, ite(truthy(old(context.caller_stack.nextcaller)), old(context.caller_stack.nextcaller), None))"),
           ("bstack-same", "context._buffer_stack == old(context._buffer_stack)")],
  raises={"*": {"ensures": [("cstack-restored", "context.caller_stack == old(context.caller_stack)"),
                            ("nextcaller-restored", "same(context.caller_stack.nextcaller, ite(truthy(old(context.caller_stack.nextcaller)), old(context.caller_stack.nextcaller), None))"),
                            ("bstack-same", "context._buffer_stack == old(context._buffer_stack)")]}},
  props=["C05", "C13"])

_CTX_MOD, _CTX_POST = balanced("ctx")

for _name in ("balanced_ctx", "render_callable"):
    FUNSPEC(_name,
            params={"ctx": "Context", "*args": "Star", "**kwargs": "Star"}, returns="Any",
            requires=[("stack-nonempty", "len(ctx._buffer_stack) >= 1")],
            modifies=_CTX_MOD, ensures=_CTX_POST, raises={"*": {"ensures": _CTX_POST}},
            note="induction hypothesis (R3) for a render callable receiving the Context as first argument: "
                 "both stacks restored on every exit, only the top buffer extended")
