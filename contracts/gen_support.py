"""Contracts the generated modules rely on: filters as pure functions, Namespace construction."""
from vrf.pyvc.spec import C, ASSUME, CLASS, FUNSPEC

for _f in ("html_escape", "xml_escape", "url_escape", "trim", "html_entities_escape"):
    ASSUME("mako.filters:%s" % _f, params={"x": "Any"}, returns="Any", raises={"*": {}},
           note="built-in filters are functions of their argument only (they touch no render state); they may raise")

FUNSPEC("pure_filter", params={"x": "Any"}, returns="Any", raises={"*": {}},
        note="a user filter: a function of its argument; may raise; touches no render state")

ASSUME("mako.runtime:Namespace.__init__",
       params={"self": "Namespace", "name": "Str", "context": "Context", "callables": "Any", "inherits": "Opt[Obj[Namespace]]",
               "populate_self": "Bool", "calling_uri": "Opt[Str]"},
       modifies=["ptr(self.name)", "ptr(self.context)", "ptr(self.inherits)", "ptr(self.callables)"],
       ensures=[("fields", "self.name == name and same(self.context, context) and same(self.inherits, inherits)")],
       note="Namespace(name, context, callables=...): field stores (verified as C07.ns.init)")


FUNSPEC("opaque_iter", params={}, returns="Any",
        modifies=["heap('f:LoopContext.index')"],
        raises={"StopIteration": {}, "*": {}},
        note="one step of iterating an arbitrary object (for LoopContext: its generator, which only counts index)")
