"""Contracts for PythonPrinter's line accounting (C12: generated line -> template line)."""
from vrf.pyvc.spec import C, ASSUME, CLASS, GHOST, CLASSES, CONTRACTS, VIEWS
from vrf.pyvc.types import parse_ty
import contracts.lexer  # noqa: Pattern / Match
import contracts.codegen_decls  # noqa: Printer class, caller view of writeline

GHOST("nl", "Int", "number of newline characters written to the printer's stream so far")
CLASS("io:StringIO", name="Stream", fields={})
CLASSES["Printer"].fields.update({k: parse_ty(v) for k, v in {
    "indent": "Int", "indent_detail": "List[Any]", "indentstring": "Str", "stream": "Stream", "lineno": "Int",
    "line_buffer": "List[Str]", "in_indent_lines": "Bool", "source_map": "Dict[Int,Int]",
    "_re_space_comment": "Pattern", "_re_space": "Pattern", "_re_indent": "Pattern", "_re_compound": "Pattern",
    "_re_indent_keyword": "Pattern", "_re_unindentor": "Pattern", "backslashed": "Bool", "triplequoted": "Bool"}.items()})

ASSUME("io:StringIO.write", params={"self": "Stream", "s": "Str"}, returns="Int", modifies=["G.nl"],
       ensures=[("newlines-counted", "G.nl == old(G.nl) + count(s, '\\n')")])
ASSUME("re:Pattern.search", params={"self": "Pattern", "string": "Str", "pos": "Int=0"}, returns="Opt[Obj[Match]]",
       ensures=[("fresh", "implies(result is not None, fresh(result))")])
ASSUME("re:split", params={"pattern": "Str", "string": "Str"}, returns="List[Str]",
       ensures=[("fresh", "fresh(result)"), ("at-least-one-piece", "len(result) >= 1"),
                ("pieces-hold-no-newline", "forall(lambda i: implies(0 <= i and i < len(result), count(result[i], '\\n') == 0))")],
       note="re.split(r'\\r?\\n', block): the lines of the block, none containing a newline")

_INV = "self.lineno == 1 + G.nl + len(self.line_buffer)"

# the caller's view of writeline used elsewhere (emitted-lines log) stays; here its own contract is verified
VIEWS["mako.pygen:PythonPrinter.writeline"] = CONTRACTS.pop("mako.pygen:PythonPrinter.writeline")

ASSUME("mako.pygen:PythonPrinter._flush_adjusted_lines", params={"self": "Printer"},
       modifies=["self.line_buffer", "G.nl", "self.backslashed", "self.triplequoted"],
       ensures=[("every-buffered-line-written-with-its-newline", "G.nl == old(G.nl) + old(len(self.line_buffer)) and len(self.line_buffer) == 0"),
                ("counter-untouched", "self.lineno == old(self.lineno)")],
       note="_flush_adjusted_lines writes each buffered line (none contains a newline) followed by a newline and empties the buffer; its re-margining is C19's subject")
ASSUME("mako.pygen:PythonPrinter._indent_line", params={"self": "Printer", "line": "Str", "stripspace": "Str=''"}, returns="Str",
       ensures=[("same-newlines", "count(result, '\\n') == count(line, '\\n')")],
       note="indentation is prepended / substituted at the start of the line only")
ASSUME("mako.pygen:PythonPrinter._is_unindentor", params={"self": "Printer", "line": "Opt[Str]"}, returns="Bool")

C("mako.pygen:PythonPrinter._update_lineno", params={"self": "Printer", "num": "Int"}, modifies=["self.lineno"],
  ensures=[("adds", "self.lineno == old(self.lineno) + num")], raises={}, props=["C12"], native_skip=True)

C("mako.pygen:PythonPrinter.start_source", params={"self": "Printer", "lineno": "Int"}, modifies=["self.source_map"],
  ensures=[("the-generated-line-about-to-be-written-maps-to-the-template-line", "self.lineno in self.source_map"),
           ("first-construct-on-a-generated-line-wins", "implies(self.lineno in old(self.source_map), self.source_map == old(self.source_map))"),
           ("recorded", "implies(self.lineno not in old(self.source_map), self.source_map == dict_set(old(self.source_map), self.lineno, lineno))")],
  raises={}, props=["C12"], native_skip=True)

C("mako.pygen:PythonPrinter.write_blanks", params={"self": "Printer", "num": "Int"},
  requires=[("counter-is-the-line-about-to-be-written", _INV), ("non-negative", "num >= 0")],
  modifies=["self.lineno", "G.nl"],
  ensures=[("counter-is-the-line-about-to-be-written", _INV), ("advanced", "self.lineno == old(self.lineno) + num")],
  raises={}, props=["C12"], native_skip=True)

C("mako.pygen:PythonPrinter.write_indented_block", params={"self": "Printer", "block": "Str", "starting_lineno": "Opt[Int]"},
  requires=[("counter-is-the-line-about-to-be-written", _INV)],
  modifies=["self.lineno", "self.line_buffer", "self.in_indent_lines", "self.source_map"],
  loops={0: {"inv": [("counter-is-the-line-about-to-be-written", _INV, "P"),
                     ("one-line-per-piece", "self.lineno == pre(self.lineno) + _i0 and len(self.line_buffer) == pre(len(self.line_buffer)) + _i0", "P"),
                     ("lines-of-the-block-map-to-consecutive-template-lines",
                      "implies(starting_lineno is not None, forall(lambda j: implies(0 <= j and j < _i0, (pre(self.lineno) + j) in self.source_map and implies((pre(self.lineno) + j) not in pre(self.source_map), self.source_map[pre(self.lineno) + j] == the(starting_lineno) + j))))", "P"),
                     ("earlier-entries-kept", "forall(lambda g: implies(g in pre(self.source_map), g in self.source_map and self.source_map[g] == pre(self.source_map)[g]))", "P"),
                     ("only-the-block's-lines-are-added", "forall(lambda g: implies(g in self.source_map, g in pre(self.source_map) or (pre(self.lineno) <= g and g < pre(self.lineno) + _i0)))", "P")],
             "modifies": ["self.lineno", "self.line_buffer", "self.source_map"]}},
  ensures=[("counter-is-the-line-about-to-be-written", _INV),
           ("each-line-of-the-block-maps-to-its-own-template-line",
            "implies(starting_lineno is not None, forall(lambda j: implies(0 <= j and j < self.lineno - old(self.lineno), (old(self.lineno) + j) in self.source_map and implies((old(self.lineno) + j) not in old(self.source_map), self.source_map[old(self.lineno) + j] == the(starting_lineno) + j))))"),
           ("earlier-entries-kept", "forall(lambda g: implies(g in old(self.source_map), g in self.source_map and self.source_map[g] == old(self.source_map)[g]))")],
  raises={}, locals={"i": "Int", "l": "Str"}, props=["C12"], native_skip=True)

C("mako.pygen:PythonPrinter.writeline", params={"self": "Printer", "line": "Opt[Str]"},
  requires=[("counter-is-the-line-about-to-be-written", _INV), ("indent-matches-its-stack", "self.indent >= 0")],
  modifies=["self.lineno", "self.line_buffer", "self.in_indent_lines", "self.indent", "self.indent_detail", "G.nl", "self.backslashed", "self.triplequoted"],
  ensures=[("counter-is-the-line-about-to-be-written", _INV),
           ("advanced-by-the-lines-written", "self.lineno == old(self.lineno) + ite(line is None, 0, 1 + count(the(line), '\\n'))"),
           ("map-untouched", "self.source_map == old(self.source_map)")],
  raises={"MakoException": {}}, props=["C12"], native_skip=True)
