"""Contracts for mako.util.LRUCache (C14: 'with collection_size=n the cache holds at most 1.5n templates')."""
from vrf.pyvc.spec import C, ASSUME, CLASS, GHOST
import contracts.lookup  # noqa

CLASS("mako.util:LRUCache._Item", name="LRUItem", fields={"key": "Str", "value": "Any", "timestamp": "Real"})
CLASS("mako.util:LRUCache", name="LRUCache", fields={"capacity": "Int", "threshold": "Real"}, dictlike=("Str", "LRUItem"))

GHOST("clock", "Real", "last value returned by timeit.default_timer")
ASSUME("timeit:default_timer", params={}, returns="Real", modifies=["G.clock"],
       ensures=[("monotonic", "result >= old(G.clock) and G.clock == result")],
       note="A-clock: the performance counter does not go backwards")
ASSUME("operator:attrgetter", params={"name": "Str"}, returns="Any", ensures=[("it", "result == attrgetter_of(name)")])
ASSUME("builtins:sorted@mako.util:LRUCache._manage_size", params={"iterable": "List[LRUItem]", "key": "Any=None", "reverse": "Bool=False"}, returns="List[LRUItem]",
       ensures=[("fresh", "fresh(result)"), ("same-length", "len(result) == len(iterable)"),
                ("same-members", "forall(lambda i: implies(0 <= i and i < len(result), exists(lambda j: 0 <= j and j < len(iterable) and same(result[i], iterable[j]))))"),
                ("newest-first", "implies(key == attrgetter_of('timestamp') and reverse, forall(lambda i, j: implies(0 <= i and i <= j and j < len(result), result[i].timestamp >= result[j].timestamp)))")],
       note="sorted(items, key=attrgetter('timestamp'), reverse=True): a permutation, newest first")
ASSUME("builtins:dict.values", params={"self": "LRUCache"}, returns="List[LRUItem]",
       ensures=[("fresh", "fresh(result)"), ("one-per-key", "len(result) == len(self)"),
                ("members-are-entries", "forall(lambda i: implies(0 <= i and i < len(result), exists(lambda k: k in self and same(result[i], self[k]), ty='Str')))")],
       note="dict.values(self) as a list: one element per key, each the item stored under some key")

C("mako.util:LRUCache._Item.__init__",
  params={"self": "LRUItem", "key": "Str", "value": "Any"},
  modifies=["self.key", "self.value", "self.timestamp", "G.clock"],
  ensures=[("fields", "self.key == key and same(self.value, value) and self.timestamp >= old(G.clock)")],
  props=["C14"], native_skip=True)

C("mako.util:LRUCache.__init__",
  params={"self": "LRUCache", "capacity": "Int", "threshold": "Real=0.5"},
  modifies=["self.capacity", "self.threshold"],
  ensures=[("fields", "self.capacity == capacity and self.threshold == threshold")],
  props=["C14"], native_skip=True)

_OWN = "forall(lambda k: implies(k in self, self[k].key == k), ty='Str')"
_BOUND = "len(self) <= self.capacity + self.capacity * self.threshold"
_ONLY_REMOVES = "forall(lambda k: implies(k in self, k in old(self) and same(self[k], old(self)[k])), ty='Str')"

C("mako.util:LRUCache._manage_size",
  params={"self": "LRUCache"},
  modifies=["self"],
  loops={0: {"inv": [("only-removes", "forall(lambda k: implies(k in self, k in pre(self) and same(self[k], pre(self)[k])), ty='Str')", "P")],
             "modifies": ["self"]},
         1: {"inv": [("only-removes", "forall(lambda k: implies(k in self, k in pre(self) and same(self[k], pre(self)[k])), ty='Str')", "P")],
             "modifies": ["self"]}},
  requires=[("items-under-their-own-key", _OWN)],
  ensures=[("size-bound", _BOUND), ("only-removes-entries", _ONLY_REMOVES), ("items-under-their-own-key", _OWN)],
  raises={},
  locals={"bytime": "List[LRUItem]", "item": "LRUItem"},
  props=["C14"], native_skip=True,
  note="termination of the outer loop is not proved (needs: the slice bytime[capacity:] is non-empty and every item is stored under its own key)")

C("mako.util:LRUCache.__setitem__",
  params={"self": "LRUCache", "key": "Str", "value": "Any"},
  modifies=["self", "heap('f:LRUItem.value')", "fresh_heap('f:LRUItem.key')", "fresh_heap('f:LRUItem.timestamp')", "G.clock"],
  requires=[("items-under-their-own-key", _OWN)],
  ensures=[("size-bound-after-every-insert", _BOUND), ("items-under-their-own-key", _OWN),
           ("nothing-appears-but-the-key", "forall(lambda k: implies(k in self and k != key, k in old(self) and same(self[k], old(self)[k])), ty='Str')"),
           ("value-stored-if-kept", "implies(key in self, same(self[key].value, value))"),
           ("other-values-untouched", "forall(lambda k: implies(k in old(self) and k != key, same(old(self)[k].value, old(old(self)[k].value))), ty='Str')")],
  raises={},
  props=["C14"], native_skip=True)

C("mako.util:LRUCache.__getitem__",
  params={"self": "LRUCache", "key": "Str"}, returns="Any",
  modifies=["heap('f:LRUItem.timestamp')", "G.clock"],
  ensures=[("value", "key in self and same(result, self[key].value)"),
           ("stamped-now", "self[key].timestamp >= old(G.clock) and self[key].timestamp == G.clock"),
           ("others-not-stamped", "forall(lambda k: implies(k in self and not same(self[k], self[key]), self[k].timestamp == old(self[k].timestamp)), ty='Str')")],
  raises={"KeyError": {"when": "key not in self", "ensures": [("unchanged", "G.clock == old(G.clock)")]}},
  props=["C14"], native_skip=True)

C("mako.util:LRUCache.setdefault",
  params={"self": "LRUCache", "key": "Str", "value": "Any"}, returns="Any",
  modifies=["self", "heap('f:LRUItem.value')", "heap('f:LRUItem.timestamp')", "fresh_heap('f:LRUItem.key')", "G.clock"],
  requires=[("items-under-their-own-key", _OWN)],
  ensures=[("items-under-their-own-key", _OWN), ("existing-wins", "implies(key in old(self), same(result, old(self)[key].value) and len(self) == old(len(self)))"),
           ("size-bound", "implies(key not in old(self), %s)" % _BOUND),
           ("new-value-returned", "implies(key not in old(self), same(result, value))")],
  raises={},
  props=["C14"], native_skip=True)
