"""Contract for the module-attribute walk behind self.attr / next.attr / parent.attr (C06)."""
from vrf.pyvc.spec import C, CLASS, CLASSES
from vrf.pyvc.types import parse_ty
import contracts.runtime_context  # noqa
import contracts.runtime_render  # noqa

CLASSES["Namespace"].fields["module"] = parse_ty("Any")      # the namespace's module object (a property on TemplateNamespace), seen as a field
CLASS("mako.runtime:_NSAttr", name="NSAttr", fields={"__parent": "Opt[Obj[Namespace]]"})

C("mako.runtime:_NSAttr.__getattr__",
  params={"self": "NSAttr", "key": "Str"}, returns="Any",
  modifies=[],
  loops={0: {"inv": [("the-answer-lies-at-or-beyond-ns", "first_with_attr(ns, key) == first_with_attr(self.__parent, key)", "P")], "modifies": []}},
  ensures=[("most-derived-definition-wins: the first namespace toward the base whose module has the attribute answers, whatever the value",
            "first_with_attr(self.__parent, key) is not None and same(result, mod_getattr(first_with_attr(self.__parent, key).module, key))")],
  raises={"AttributeError": {"when": "first_with_attr(self.__parent, key) is None"}},
  locals={"ns": "Opt[Obj[Namespace]]"},
  props=["C06"], native_skip=True,
  note="termination relies on the inherits chain being finite (C06.chain contracts)")
