"""Native stand-ins for callable specs (used by replay and bounded checks)."""
from vrf.pyvc.native import native_fun


class Boom(Exception):
    pass


@native_fun("balanced")
def _noop(env):
    return lambda *a, **k: None


@native_fun("balanced")
def _writes(env):
    ctx = env.get("context")

    def f(*a, **k):
        if ctx is not None:
            ctx.write("W")
        return "ret"
    return f


@native_fun("balanced")
def _raises(env):
    ctx = env.get("context")

    def f(*a, **k):
        if ctx is not None:
            ctx.write("partial")
        raise Boom("boom")
    return f


@native_fun("balanced")
def _nested_balanced(env):
    ctx = env.get("context")

    def f(*a, **k):
        if ctx is not None:
            ctx._push_buffer()
            ctx.write("inner")
            ctx._pop_buffer()
            ctx.caller_stack._push_frame()
            ctx.caller_stack._pop_frame()
        return None
    return f


@native_fun("balanced")
def _not_callable(env):
    return 42


for _f in (_noop, _writes, _raises, _nested_balanced):
    def _mk(f):
        def fac(env):
            inner = f(env)
            return lambda ctx, *a, **k: inner(*a, **k)
        return fac
    native_fun("balanced_ctx")(_mk(_f))


@native_fun("iterable")
def _it_list(env):
    return [10, 20, 30]


@native_fun("iterable")
def _it_empty(env):
    return []


@native_fun("iterable")
def _it_gen(env):
    return (x for x in "ab")


@native_fun("iterable")
def _it_one(env):
    return ("only",)


@native_fun("render_callable")
def _rc_page(env):
    def render_body(context, a, b=2, **pageargs):
        return ""
    return render_body


@native_fun("render_callable")
def _rc_def(env):
    def render_x(context, a, k, *rest):
        return ""
    return render_x


@native_fun("render_callable")
def _rc_ctx_only(env):
    def render_y(context):
        return ""
    return render_y
