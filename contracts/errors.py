"""Contracts for the carriers of error positions (C11)."""
from vrf.pyvc.spec import C, ASSUME, CLASS

CLASS("mako.exceptions:MakoException", name="MakoException", fields={}, exception=True)
CLASS("mako.exceptions:CompileException", name="CompileException", bases=["MakoException"], exception=True,
      fields={"lineno": "Any", "pos": "Any", "filename": "Any", "source": "Any"})
CLASS("mako.exceptions:SyntaxException", name="SyntaxException", bases=["MakoException"], exception=True,
      fields={"lineno": "Any", "pos": "Any", "filename": "Any", "source": "Any"})
CLASS("mako.parsetree:Node", name="PNode", fields={"source": "Any", "lineno": "Any", "pos": "Any", "filename": "Any"})

ASSUME("mako.exceptions:MakoException.__init__", params={"self": "MakoException", "*args": "Star"})
ASSUME("mako.exceptions:_format_filepos", params={"lineno": "Any", "pos": "Any", "filename": "Any"}, returns="Str",
       ensures=[("text", "result == filepos_text(lineno, pos, filename)")])

for _cls in ("CompileException", "SyntaxException"):
    C("mako.exceptions:%s.__init__" % _cls,
      params={"self": _cls, "message": "Str", "source": "Any", "lineno": "Any", "pos": "Any", "filename": "Any"},
      modifies=["self.lineno", "self.pos", "self.filename", "self.source"],
      ensures=[("carries-the-position-and-the-template", "same(self.lineno, lineno) and same(self.pos, pos) and same(self.filename, filename) and same(self.source, source)")],
      raises={}, props=["C11"], native_skip=True)

C("mako.parsetree:Node.__init__",
  params={"self": "PNode", "source": "Any", "lineno": "Any", "pos": "Any", "filename": "Any"},
  modifies=["self.source", "self.lineno", "self.pos", "self.filename"],
  ensures=[("fields", "same(self.source, source) and same(self.lineno, lineno) and same(self.pos, pos) and same(self.filename, filename)")],
  raises={}, props=["C11"], native_skip=True)

C("mako.parsetree:Node.exception_kwargs",
  params={"self": "PNode"}, returns="Dict[Str,Any]",
  ensures=[("exactly-the-node's-own-position",
            "forall(lambda k: (k in result) == (k == 'source' or k == 'lineno' or k == 'pos' or k == 'filename'), ty='Str') and same(result['source'], self.source) and same(result['lineno'], self.lineno) and same(result['pos'], self.pos) and same(result['filename'], self.filename)"),
           ("fresh", "fresh(result)")],
  raises={}, props=["C11"], native_skip=True)

C("mako.pyparser:_adjust_lineno",
  params={"exc": "Any", "lineno_offset": "Int", "exception_kwargs": "Dict[Str,Any]"}, returns="Dict[Str,Any]",
  requires=[("line-numbers-are-ints", "implies('lineno' in exception_kwargs and exception_kwargs['lineno'] is not None, is_boxed_int(exception_kwargs['lineno'])) and implies(exc_lineno(exc) is not None, is_boxed_int(exc_lineno(exc)))")],
  ensures=[("line-of-the-offending-python-line",
            "implies('lineno' in exception_kwargs and exception_kwargs['lineno'] is not None and exc_lineno(exc) is not None, 'lineno' in result and result['lineno'] == box(unbox_int(exception_kwargs['lineno']) + lineno_offset + unbox_int(exc_lineno(exc)) - 1))"),
           ("everything-else-as-given",
            "forall(lambda k: implies(k != 'lineno', (k in result) == (k in exception_kwargs) and same(result[k], exception_kwargs[k])), ty='Str')"),
           ("no-line-known: unchanged", "implies(not ('lineno' in exception_kwargs and exception_kwargs['lineno'] is not None and exc_lineno(exc) is not None), result == exception_kwargs)"),
           ("input-untouched", "exception_kwargs == old(exception_kwargs)")],
  raises={}, props=["C11"], native_skip=True)
