"""Contracts for the carriers of error positions (C11)."""
from vrf.pyvc.spec import C, ASSUME, CLASS

CLASS("mako.exceptions:MakoException", name="MakoException", fields={}, exception=True)
CLASS("mako.exceptions:CompileException", name="CompileException", bases=["MakoException"], exception=True,
      fields={"lineno": "Any", "pos": "Any", "filename": "Any", "source": "Any"})
CLASS("mako.exceptions:SyntaxException", name="SyntaxException", bases=["MakoException"], exception=True,
      fields={"lineno": "Any", "pos": "Any", "filename": "Any", "source": "Any"})
CLASS("mako.parsetree:Node", name="PNode", fields={"source": "Any", "lineno": "Any", "pos": "Any", "filename": "Any"})

ASSUME("mako.exceptions:MakoException.__init__", params={"self": "MakoException", "*args": "Star"})
ASSUME("mako.exceptions:_format_filepos", params={"lineno": "Any", "pos": "Any", "filename": "Any"}, returns="Str",
       ensures=[("text", "result == filepos_text(lineno, pos, filename)")])

for _cls in ("CompileException", "SyntaxException"):
    C("mako.exceptions:%s.__init__" % _cls,
      params={"self": _cls, "message": "Str", "source": "Any", "lineno": "Any", "pos": "Any", "filename": "Any"},
      modifies=["self.lineno", "self.pos", "self.filename", "self.source"],
      ensures=[("carries-the-position-and-the-template", "same(self.lineno, lineno) and same(self.pos, pos) and same(self.filename, filename) and same(self.source, source)")],
      raises={}, props=["C11"], native_skip=True)

C("mako.parsetree:Node.__init__",
  params={"self": "PNode", "source": "Any", "lineno": "Any", "pos": "Any", "filename": "Any"},
  modifies=["self.source", "self.lineno", "self.pos", "self.filename"],
  ensures=[("fields", "same(self.source, source) and same(self.lineno, lineno) and same(self.pos, pos) and same(self.filename, filename)")],
  raises={}, props=["C11"], native_skip=True)

C("mako.parsetree:Node.exception_kwargs",
  params={"self": "PNode"}, returns="Dict[Str,Any]",
  ensures=[("exactly-the-node's-own-position",
            "forall(lambda k: (k in result) == (k == 'source' or k == 'lineno' or k == 'pos' or k == 'filename'), ty='Str') and same(result['source'], self.source) and same(result['lineno'], self.lineno) and same(result['pos'], self.pos) and same(result['filename'], self.filename)"),
           ("fresh", "fresh(result)")],
  raises={}, props=["C11"], native_skip=True)

C("mako.pyparser:_adjust_lineno",
  params={"exc": "Any", "lineno_offset": "Int", "exception_kwargs": "Dict[Str,Any]"}, returns="Dict[Str,Any]",
  requires=[("line-numbers-are-ints", "implies('lineno' in exception_kwargs and exception_kwargs['lineno'] is not None, is_boxed_int(exception_kwargs['lineno'])) and implies(exc_lineno(exc) is not None, is_boxed_int(exc_lineno(exc)))")],
  ensures=[("line-of-the-offending-python-line",
            "implies('lineno' in exception_kwargs and exception_kwargs['lineno'] is not None and exc_lineno(exc) is not None, 'lineno' in result and result['lineno'] == box(unbox_int(exception_kwargs['lineno']) + lineno_offset + unbox_int(exc_lineno(exc)) - 1))"),
           ("everything-else-as-given",
            "forall(lambda k: implies(k != 'lineno', (k in result) == (k in exception_kwargs) and same(result[k], exception_kwargs[k])), ty='Str')"),
           ("no-line-known: unchanged", "implies(not ('lineno' in exception_kwargs and exception_kwargs['lineno'] is not None and exc_lineno(exc) is not None), result == exception_kwargs)"),
           ("input-untouched", "exception_kwargs == old(exception_kwargs)")],
  raises={}, props=["C11"], native_skip=True)

# ---- PythonCode: the line offset handed to the parser (C11) -------------------------------------
from vrf.pyvc.spec import GHOST, CONTRACTS
GHOST("parse_offset", "Int", "lineno_offset of the most recent pyparser.parse call")
GHOST("parse_code", "Str", "the code it was given")
GHOST("parse_calls", "Int", "calls of pyparser.parse")
CLASS("mako.ast:PythonCode", name="PythonCode", fields={"code": "Any", "declared_identifiers": "Set[Str]", "undeclared_identifiers": "Set[Str]"})
CLASS("mako.pyparser:FindIdentifiers", name="FindIdents", fields={})
ASSUME("mako.pyparser:parse", params={"code": "Str", "mode": "Str='exec'", "lineno_offset": "Int=0", "**exception_kwargs": "Star"}, returns="Any",
       modifies=["G.parse_offset", "G.parse_code", "G.parse_calls"],
       ensures=[("logged", "G.parse_offset == lineno_offset and G.parse_code == code and G.parse_calls == old(G.parse_calls) + 1")],
       raises={"*": {"ensures": [("logged", "G.parse_offset == lineno_offset and G.parse_code == code and G.parse_calls == old(G.parse_calls) + 1")]}},
       note="pyparser.parse re-bases a SyntaxError by lineno_offset (its _adjust_lineno is verified separately)")
ASSUME("mako.pyparser:FindIdentifiers.__init__", params={"self": "FindIdents", "listener": "Any", "**exception_kwargs": "Star"})
ASSUME("mako.pyparser:FindIdentifiers.visit", params={"self": "FindIdents", "node": "Any"}, returns="Any", raises={"*": {}})

_LEAD = "count(code[:len(code) - len(code.lstrip())], '\\n')"
C("mako.ast:PythonCode.__init__",
  params={"self": "PythonCode", "code": "Str", "lineno_offset": "Int=0", "**exception_kwargs": "Star"},
  modifies=["ptr(self.code)", "ptr(self.declared_identifiers)", "ptr(self.undeclared_identifiers)", "G.parse_offset", "G.parse_code", "G.parse_calls",
            "fresh_heap('set:Str')"],
  ensures=[("parsed-once", "G.parse_calls == old(G.parse_calls) + 1"),
           ("the-parser-is-told-how-many-lines-precede-the-code", "G.parse_offset == lineno_offset + %s" % _LEAD),
           ("the-code-parsed-starts-at-its-first-non-blank-character", "G.parse_code == code.lstrip()")],
  raises={"*": {"ensures": [("the-parser-is-told-how-many-lines-precede-the-code", "implies(G.parse_calls == old(G.parse_calls) + 1, G.parse_offset == lineno_offset + %s)" % _LEAD)]}},
  props=["C11"], native_skip=True,
  note="verified for string code (the parse-tree path); an already parsed AST is passed through")

# what callers see of the exception constructors (they pass the position either positionally or as **exception_kwargs)
from vrf.pyvc.spec import VIEWS
for _cls in ("CompileException", "SyntaxException"):
    VIEWS["mako.exceptions:%s.__init__" % _cls] = ASSUME(
        "mako.exceptions:%s.__init__@callers" % _cls, params={"self": _cls, "message": "Any", "*args": "Star", "**kw": "Star"},
        modifies=["self.lineno", "self.pos", "self.filename", "self.source"])
    CONTRACTS.pop("mako.exceptions:%s.__init__@callers" % _cls, None)
