"""Contracts for the lexer's position / line bookkeeping (C01, C11, C12, C20)."""
from vrf.pyvc.spec import C, ASSUME, CLASS, FUNSPEC, GLOBALS

for _f in ("I", "S", "X", "M", "IGNORECASE", "DOTALL", "VERBOSE", "MULTILINE", "UNICODE"):
    GLOBALS["re:" + _f] = ("Int", "re flag constant")

CLASS("mako.lexer:Lexer",
      fields={"text": "Str", "match_position": "Int", "lineno": "Int", "matched_lineno": "Int",
              "matched_charpos": "Int", "textlength": "Int", "filename": "Opt[Str]"})
CLASS("re:Pattern", name="Pattern", fields={})
CLASS("re:Match", name="Match", fields={"start_": "Int", "end_": "Int"})

ASSUME("re:Pattern.match",
       params={"self": "Pattern", "string": "Str", "pos": "Int=0"}, returns="Opt[Obj[Match]]",
       ensures=[("deterministic", "(result is not None) == pat_matches(self, string, pos)"),
                ("group1", "implies(result is not None, match_group(result, 1) == pat_group1(self, string, pos))"),
                ("as-a-function-of-the-pattern-text", "implies(pos == 0, (result is not None) == re_matches_f(pat_source(self), pat_flags(self), string) and implies(result is not None and match_group(result, 1) is not None, the(match_group(result, 1)) == re_group_f(pat_source(self), pat_flags(self), string, 1)))"),
                ("anchored-span", "implies(result is not None, result.start_ == pos and pos <= result.end_ and result.end_ <= len(string))"),
                ("in-range", "implies(result is not None, 0 <= pos and pos <= len(string))"),
                ("fresh", "implies(result is not None, fresh(result))")],
       note="re.Pattern.match(s, pos): None or a match object whose span starts at pos and lies within s")

ASSUME("re:Match.span",
       params={"self": "Match"}, returns="Tuple[Int,Int]",
       ensures=[("span", "result[0] == self.start_ and result[1] == self.end_")])

C("mako.lexer:Lexer.match_reg",
  params={"self": "Lexer", "reg": "Pattern"}, returns="Opt[Obj[Match]]",
  requires=[("pos-in-text", "0 <= self.match_position and self.match_position <= len(self.text) + 1"),
            ("length-known", "self.match_position == 0 or self.textlength == len(self.text)")],
  modifies=["ptr(self.match_position)", "ptr(self.lineno)", "ptr(self.matched_lineno)", "ptr(self.matched_charpos)"],
  ensures=[("no-match-no-change",
            "implies(result is None, self.match_position == old(self.match_position) and self.lineno == old(self.lineno) and self.matched_lineno == old(self.matched_lineno) and self.matched_charpos == old(self.matched_charpos))"),
           ("consumes-exactly-the-match",
            "implies(result is not None and result.end_ > result.start_, self.match_position == result.end_)"),
           ("empty-match-steps-one",
            "implies(result is not None and result.end_ == result.start_, self.match_position == result.end_ + 1)"),
           ("always-advances", "implies(result is not None, self.match_position > old(self.match_position))"),
           ("match-starts-at-position", "implies(result is not None, result.start_ == old(self.match_position))"),
           ("reported-line-is-line-of-match-start", "implies(result is not None, self.matched_lineno == old(self.lineno))"),
           ("reported-column-is-1-based-offset-in-line",
            "implies(result is not None and old(self.match_position) >= 1 and old(self.match_position) <= len(self.text), self.matched_charpos == old(self.match_position) - str_rfind(self.text[:old(self.match_position)], '\\n'))"),
           ("column-at-start-of-text", "implies(result is not None and old(self.match_position) == 0, self.matched_charpos == 1)"),
           ("line-counter-adds-newlines-of-consumed-text",
            "implies(result is not None, self.lineno == old(self.lineno) + count(self.text[old(self.match_position):self.match_position], '\\n'))"),
           ("text-untouched", "self.text == old(self.text)")],
  props=["C01", "C11", "C12"], native_skip=True)

# ---------------------------------------------------------------------------
# match_text: an empty match must not lose the character match_reg steps over (C01)
from vrf.pyvc.spec import GHOST, CLASSES
from vrf.pyvc.types import parse_ty

GHOST("last_match", "Any", "the match object most recently returned by Lexer.match")
GHOST("text_out", "Seq[Str]", "contents of the Text nodes appended so far, in order")

_MR = "forall(lambda: True)"

ASSUME("mako.lexer:Lexer.match",
       params={"self": "Lexer", "regexp": "Str", "flags": "Opt[Int]"}, returns="Opt[Obj[Match]]",
       requires=[("pos-in-text", "0 <= self.match_position and self.match_position <= len(self.text) + 1")],
       modifies=["ptr(self.match_position)", "ptr(self.lineno)", "ptr(self.matched_lineno)", "ptr(self.matched_charpos)",
                 "G.last_match"],
       ensures=[("logged", "same(G.last_match, result)"),
                ("anchored-span", "implies(result is not None, result.start_ == old(self.match_position) and result.start_ <= result.end_ and result.end_ <= len(self.text))"),
                ("fresh", "implies(result is not None, fresh(result))"),
                ("group1-within-span", "implies(result is not None and match_group(result, 1) is not None, len(match_group(result, 1)) <= result.end_ - result.start_)"),
                ("advance", "implies(result is not None, self.match_position == ite(result.end_ > result.start_, result.end_, result.end_ + 1))"),
                ("no-match-no-change", "implies(result is None, self.match_position == old(self.match_position))"),
                ("text-untouched", "self.text == old(self.text)")],
       note="Lexer.match = compile (cached) + match_reg, whose own contract is verified (C01.reg)")

ASSUME("re:Match.group",
       params={"self": "Match", "*idx": "Seq[Int]"}, returns="Opt[Str]",
       requires=[("one-index", "len(idx) == 1")],
       ensures=[("def", "result == match_group(self, idx[0])")])
ASSUME("re:Match.start", params={"self": "Match"}, returns="Int", ensures=[("def", "result == self.start_")])
ASSUME("re:Match.end", params={"self": "Match"}, returns="Int", ensures=[("def", "result == self.end_")])

ASSUME("mako.lexer:Lexer.append_node",
       params={"self": "Lexer", "nodecls": "Any", "*args": "Seq[Str]", "**kwargs": "Star"},
       modifies=["G.text_out"],
       ensures=[("text-logged", "implies(same(nodecls, static_ref('mako.parsetree:Text')) and len(args) == 1, G.text_out == old(G.text_out) + [args[0]])"),
                ("others", "implies(not same(nodecls, static_ref('mako.parsetree:Text')), G.text_out == old(G.text_out))")],
       raises={"SyntaxException": {}, "CompileException": {}},
       note="append_node(Text, content): constructs the node with the lexer's matched position and appends it")

C("mako.lexer:Lexer.match_text",
  params={"self": "Lexer"}, returns="Bool",
  requires=[("pos-in-text", "0 <= self.match_position and self.match_position <= len(self.text) + 1"),
            ("length-known", "self.textlength == len(self.text)")],
  modifies=["ptr(self.match_position)", "ptr(self.lineno)", "ptr(self.matched_lineno)", "ptr(self.matched_charpos)",
            "G.last_match", "G.text_out"],
  ensures=[("reports-match", "result == (G.last_match is not None)"),
           ("no-match-nothing-emitted", "implies(not result, G.text_out == old(G.text_out))"),
           ("text-emitted-verbatim",
            "implies(result and match_group(lm(), 1) is not None and len(match_group(lm(), 1)) > 0, G.text_out == old(G.text_out) + [match_group(lm(), 1)])"),
           ("empty-match-emits-the-skipped-character",
            "implies(result and not (match_group(lm(), 1) is not None and len(match_group(lm(), 1)) > 0) and lm().end_ == lm().start_ and lm().start_ < len(self.text), G.text_out == old(G.text_out) + [self.text[lm().start_]] and self.match_position == lm().start_ + 1)"),
           ("nothing-else-emitted",
            "implies(result and not (match_group(lm(), 1) is not None and len(match_group(lm(), 1)) > 0) and not (lm().end_ == lm().start_ and lm().start_ < len(self.text)), G.text_out == old(G.text_out))")],
  raises={"SyntaxException": {}, "CompileException": {}},
  props=["C01"], native_skip=True)
