"""./vcheck replay <path>: re-decide the obligation a replay file names, against /repo's current tree.

The replay file carries the obligation id, the verifier's output and (where one was found) the failing input.
Replaying re-runs the owning property's check and reports that obligation's verdict now: exit 1 and a VIOLATION
line if it still fails, exit 0 if it is discharged / within bounds again."""
from __future__ import annotations

import importlib
import json
import sys

from .core import Report, VIOLATED, UNDECIDED, ERROR


def replay_file(path):
    try:
        d = json.load(open(path))
    except Exception as e:
        print("cannot read replay file %s: %s" % (path, e))
        return 3
    prop, oid = d.get("property"), d.get("obligation")
    print("replay: property=%s obligation=%s" % (prop, oid))
    if d.get("witness") is not None:
        print("recorded witness: %s" % json.dumps(d["witness"], ensure_ascii=False, default=str)[:600])
    from .cli import load_contracts
    load_contracts()
    mod = importlib.import_module("props." + prop)
    rep = Report(prop, "quick", 0, level=(getattr(mod, "META", None) or {}).get("level") or getattr(mod, "LEVEL", "proof"))
    rep.quiet = True
    mod.run(rep, "quick")
    hits = [r for r in rep.results if r.oid == oid]
    if not hits:
        print("obligation %s is no longer generated from the current source (renamed contract clause or removed function): undecided" % oid)
        return 2
    r = hits[0]
    from .core import Baseline
    failing = r.status == VIOLATED or (r.status == UNDECIDED and oid in Baseline(prop) and getattr(r, "cand", False))
    print("verdict now: %s (%s) %s" % (r.status, r.backend, (r.detail or "")[:200]))
    if r.status == ERROR:
        return 3
    if failing:
        print("VIOLATION property=%s replay=%s%s" % (prop, path, "" if r.replayed else " no-failing-input-found"))
        return 1
    if r.status == UNDECIDED:
        return 2
    return 0
