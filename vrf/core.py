"""Core data model: obligations, results, the per-property report, evidence,
known findings, replay files and exit codes.

Exit codes: 0 held / 1 violation / 2 undecided / 3 checker failure.
"""
from __future__ import annotations

import hashlib
import json
import os
import sys
import time
import traceback
from dataclasses import dataclass, field
from typing import Any, Callable, Optional

VERIF = os.path.dirname(os.path.dirname(os.path.abspath(__file__)))
REPO = os.environ.get("MAKO_REPO", "/repo")

DISCHARGED = "discharged"   # obligation proved (unsat / exact decision procedure)
VIOLATED = "violated"       # counter-model (sat) or concrete failing input
UNDECIDED = "undecided"     # unknown / timeout / outside the subset
ERROR = "error"             # checker failure
BOUNDED_OK = "bounded-ok"   # bounded stand-in found nothing (never counted as proved)


@dataclass
class Result:
    oid: str                      # obligation id, e.g. C05.rt.caller.push.post1
    status: str
    klass: str = "P"              # P = property instance, L = sufficient lemma, B = bounded stand-in
    backend: str = ""             # z3 / cvc5 / rex-automaton / cpython-oracle / native-enum ...
    time_s: float = 0.0
    detail: str = ""              # human readable: what was asked
    function: str = ""            # repo function the obligation is about
    witness: Any = None           # solver model or concrete input (json-able)
    output: str = ""              # solver / oracle output
    replayed: Optional[bool] = None   # True: witness reproduced on the real code
    replay: Optional[dict] = None     # data for the replay file
    bound: str = ""               # for B-class: the stated bound
    evaluations: int = 0
    cand: bool = False            # undecided, but a counter-model of the quantifier-free hypotheses exists

    def brief(self):
        return {
            "id": self.oid, "class": self.klass, "status": self.status,
            "backend": self.backend, "time_s": round(self.time_s, 4),
            "function": self.function, "detail": self.detail[:400],
        }


def src_hash(text: str) -> str:
    return hashlib.sha256(text.encode("utf-8", "replace")).hexdigest()[:16]


class Findings:
    """known_findings.json: committed, never written at run time."""

    def __init__(self):
        self.path = os.path.join(VERIF, "known_findings.json")
        try:
            with open(self.path) as f:
                self.entries = json.load(f)["findings"]
        except FileNotFoundError:
            self.entries = []

    def known_for(self, prop, oid):
        return [e for e in self.entries
                if e.get("status") == "known" and e["property"] == prop
                and e["obligation"] == oid]

    def all_known(self, prop):
        return [e for e in self.entries
                if e.get("status") == "known" and e["property"] == prop]


class Baseline:
    """baseline/<prop>.json: ids of the obligations discharged on the unchanged tree (committed;
    regenerated only by `vcheck baseline`, never at check time)."""

    def __init__(self, prop):
        self.path = os.path.join(VERIF, "baseline", prop + ".json")
        try:
            with open(self.path) as f:
                self.discharged = set(json.load(f)["discharged"])
        except FileNotFoundError:
            self.discharged = set()

    def __contains__(self, oid):
        return oid in self.discharged


class Report:
    """Collects results for one property run and turns them into exit code,
    VIOLATION / KNOWN-FINDING lines, replay files and the evidence file."""

    def __init__(self, prop: str, tier: str, seed: int, level: str = "proof"):
        self.prop = prop
        self.tier = tier
        self.seed = seed
        self.level = level
        self.results: list[Result] = []
        self.functions: dict[str, str] = {}     # qualified name -> source hash
        self.assumptions: list[str] = []
        self.trusted: list[str] = []
        self.samples: list[Any] = []
        self.notes: list[str] = []
        self.known_confirmed: list[str] = []
        self.t0 = time.time()
        self.findings = Findings()
        self.baseline = Baseline(prop)
        self.extra_cov: dict[str, Any] = {}

    # -- collection -------------------------------------------------------
    def add(self, r: Result):
        self.results.append(r)
        return r

    def extend(self, rs):
        for r in rs:
            self.add(r)

    def assume(self, *texts):
        for t in texts:
            if t not in self.assumptions:
                self.assumptions.append(t)

    def trust(self, *texts):
        for t in texts:
            if t not in self.trusted:
                self.trusted.append(t)

    def function(self, qname, source):
        self.functions[qname] = src_hash(source)

    def sample(self, s):
        if len(self.samples) < 12:
            self.samples.append(s)

    # -- verdict ----------------------------------------------------------
    def finish(self) -> int:
        wall = time.time() - self.t0
        deductive = [r for r in self.results if r.klass in ("P", "L")]
        bounded = [r for r in self.results if r.klass == "B"]
        violated = [r for r in self.results if r.status == VIOLATED]
        undecided = [r for r in self.results if r.status == UNDECIDED]
        errors = [r for r in self.results if r.status == ERROR]
        lines = []
        code = 0
        os.makedirs(os.path.join(VERIF, "replays", self.prop), exist_ok=True)

        # an obligation of the property itself (P) that was discharged on the unchanged tree and can
        # no longer be proved, with a counter-model of its quantifier-free hypotheses as the solver's
        # reason, is reported as the violation (no-failing-input-found): DESIGN 4.5
        for r in list(undecided):
            if r.klass == "P" and r.cand and r.oid in self.baseline:
                undecided.remove(r)
                violated.append(r)
                r.output = ("obligation was discharged on the unchanged tree and is no longer provable; "
                            "the solver has a counter-model of the quantifier-free hypotheses but returned "
                            "'unknown' on the full query\n") + r.output
        n_violation = 0
        for r in violated:
            # L-class failures without a replayed witness are "undecided".
            if r.klass == "L" and not r.replayed:
                undecided.append(r)
                continue
            rp = self._write_replay(r)
            tail = "" if r.replayed else " no-failing-input-found"
            lines.append("VIOLATION property=%s replay=%s%s" % (self.prop, rp, tail))
            lines.append("  obligation=%s function=%s :: %s" % (r.oid, r.function, r.detail[:300]))
            n_violation += 1
        if n_violation:
            code = 1
        elif errors:
            code = 3
        elif undecided:
            code = 2
        if not deductive and self.level == "proof" and code == 0:
            lines.append("CHECKER-FAILURE property=%s zero obligations generated" % self.prop)
            code = 3
        for r in errors[:4]:
            lines.append("CHECKER-ERROR property=%s obligation=%s %s" % (self.prop, r.oid, r.output.strip()[-400:]))
        if len(errors) > 4:
            lines.append("CHECKER-ERROR ... and %d more" % (len(errors) - 4))
        for r in undecided[:12]:
            if r in violated:
                lines.append("UNDECIDED property=%s lemma-failed obligation=%s %s" % (self.prop, r.oid, r.detail[:200]))
            else:
                lines.append("UNDECIDED property=%s obligation=%s %s" % (self.prop, r.oid, (r.output or r.detail)[:300]))
        for k in self.known_confirmed:
            lines.append("KNOWN-FINDING: property=%s %s" % (self.prop, k))

        self._write_evidence(wall, deductive, bounded, n_violation)
        nd = sum(1 for r in deductive if r.status == DISCHARGED)
        print("property %s tier=%s: %d/%d deductive obligations discharged, %d bounded stand-ins, "
              "%d violations, %d undecided, %d errors, %.1fs"
              % (self.prop, self.tier, nd, len(deductive), len(bounded), n_violation,
                 len([u for u in undecided]), len(errors), wall))
        for ln in lines:
            print(ln)
        sys.stdout.flush()
        return code

    def _write_replay(self, r: Result) -> str:
        safe = r.oid.replace("/", "_").replace(" ", "_")[:120]
        path = os.path.join(VERIF, "replays", self.prop, safe + ".json")
        data = {
            "property": self.prop, "obligation": r.oid, "class": r.klass,
            "function": r.function, "source_hash": self.functions.get(r.function),
            "backend": r.backend, "detail": r.detail, "witness": r.witness,
            "verifier_output": r.output, "replayed_on_real_code": bool(r.replayed),
            "replay": r.replay,
        }
        with open(path, "w") as f:
            json.dump(data, f, indent=1, default=repr)
        return path

    def _write_evidence(self, wall, deductive, bounded, n_violation):
        by_backend: dict[str, dict] = {}
        for r in deductive:
            b = by_backend.setdefault(r.backend or "?", {"obligations": 0, "discharged": 0, "time_s": 0.0})
            b["obligations"] += 1
            b["discharged"] += 1 if r.status == DISCHARGED else 0
            b["time_s"] = round(b["time_s"] + r.time_s, 4)
        nd = sum(1 for r in deductive if r.status == DISCHARGED)
        cov = {
            "obligations": len(deductive),
            "discharged": nd,
            "checker_cmd": "./vcheck check %s --tier %s" % (self.prop, self.tier),
            "trusted_base": self.trusted,
            "by_backend": by_backend,
            "functions_under_contract": self.functions,
            "obligation_list": [r.brief() for r in deductive][:400],
            "bounded": [{"id": r.oid, "status": r.status, "bound": r.bound,
                         "evaluations": r.evaluations, "backend": r.backend,
                         "time_s": round(r.time_s, 3)} for r in bounded],
            "samples": self.samples or [r.brief() for r in deductive[:5]],
            "evaluations": sum(r.evaluations for r in bounded) + len(deductive),
            "distinct_nontrivial": len({r.oid for r in self.results}),
            "rule": "one case per obligation id (deductive) or per enumerated input (bounded); "
                    "non-trivial = obligation whose path/precondition was checked satisfiable",
            "explanation": "; ".join(self.notes) or
                           "contract obligations generated from /repo's current source and discharged by SMT / exact automata procedures; bounded stand-ins listed separately and never counted in obligations/discharged",
            "known_findings_confirmed": self.known_confirmed,
        }
        cov.update(self.extra_cov)
        ev = {
            "property_id": self.prop, "tier": self.tier, "seed": self.seed,
            "level": self.level, "coverage": cov, "assumptions": self.assumptions,
            "wall_s": round(wall, 2), "violations": n_violation,
        }
        os.makedirs(os.path.join(VERIF, "evidence"), exist_ok=True)
        with open(os.path.join(VERIF, "evidence", self.prop + ".json"), "w") as f:
            json.dump(ev, f, indent=1, default=repr)


def guarded(oid, fn: Callable[[], Result], klass="P", function="") -> Result:
    """Run an obligation producer; a crash is a checker error, never a verdict."""
    t0 = time.time()
    try:
        r = fn()
        if not r.time_s:
            r.time_s = time.time() - t0
        return r
    except Exception:
        return Result(oid, ERROR, klass=klass, function=function,
                      output=traceback.format_exc(), time_s=time.time() - t0)


def read_repo(relpath: str) -> str:
    with open(os.path.join(REPO, relpath), encoding="utf-8") as f:
        return f.read()
