"""Bounded stand-in for C11: one fault of each class planted after varying prefixes; the exception must carry
the template's filename and source, the fault's line and the column where the construct begins."""
from __future__ import annotations

import os
import shutil
import tempfile

# (class, lines of the faulty construct, line offset of the fault inside it, column offset of the construct start, exception kinds)
FAULTS = [
    ("py-expression", ["${ 1 + }"], 0, 0),
    ("py-expression-multiline", ["${ (1,", "  2 +", "  ) }"], "py:0: (1,\n  2 +\n  ) ", 0),
    ("py-control-line", ["% if x == :", "y", "% endif"], 0, 0),
    ("py-control-line-continued", ["% if a and \\", "     b +* c:", "y", "% endif"], 1, 0),
    ("py-control-line-continued-twice", ["% for i in [1, \\", "    2, \\", "    3 +* 4]:", "y", "% endfor"], 2, 0),
    ("py-block", ["<%", "  a = 1", "  b = (", "  c = 3", "%>"], None, 0),       # CPython reports '(' never closed at its own line
    ("py-block-bad-token", ["<%", "  a = 1", "  b = 2 +* 3", "  c = 3", "%>"], 2, 0),
    ("py-module-block", ["<%!", "  import os", "  def f(:", "      pass", "%>"], 2, 0),
    ("py-block-indented-close", ["<%", "    x = 1", "    y = 2", "    z = = 3", "        %>"], 3, 0),
    ("py-block-trailing-blank-lines", ["<%", "  v = 1", "  w = = 2", "", "", "   %>"], 2, 0),
    ("py-block-leading-blank-lines", ["<%", "", "   ", "  w = = 2", "%>"], 3, 0),
    ("py-def-signature", ['<%def name="d(x=)">', "body", "</%def>"], 0, 0),
    ("py-page-signature", ['<%page args="a=="/>'], 0, 0),
    ("py-filter-list", ["${x | f(}"], 0, 0),
    ("py-attribute-expression", ['<%include file="${1 +}"/>'], 0, 0),
    ("py-attribute-expression-multiline", ['<%include file="${', "   1 +* 2", '}"/>'], 1, 0),
    ("py-attribute-expression-blank-lines", ['<%include file="${', "", "", "   3 +* 4 }\"/>"], 3, 0),
    ("unterminated-expression", ["${ x + 1", "more text"], 0, 0),
    ("unterminated-block", ["<% x = 1", "more text"], 0, 0),
    ("unknown-tag", ["<%foo>", "</%foo>"], 0, 0),
    ("closing-without-opening", ["</%def>"], 0, 0),
    ("mismatched-closing-tag", ['<%def name="m()">', "body", "</%block>"], 2, 0),
    ("unterminated-tag", ['<%def name="u()">', "body"], 0, 0),
    ("unterminated-control", ["% if True:", "yes"], 0, 0),
    ("control-end-without-start", ["% endfor"], 0, 0),
    ("mismatched-control-end", ["% if True:", "x", "% endfor"], 2, 0),
    ("else-outside", ["% else:"], 0, 0),
    ("duplicate-block", ['<%block name="dup">a</%block>', '<%block name="dup">b</%block>'], 1, 0),
    ("named-block-in-def", ['<%def name="nb()">', '<%block name="inner">x</%block>', "</%def>"], 1, 0),
    ("missing-attribute", ["<%def>", "x", "</%def>"], 0, 0),
    ("illegal-attribute", ['<%include file="a.html" bogus="1"/>'], 0, 0),
    ("missing-include-file", ["<%include/>"], 0, 0),
    # misplaced constructs found while generating code, and the remaining attribute / keyword checks
    ("anonymous-block-in-namespace", ['<%namespace name="n">', '<%def name="ok()">x</%def>', '  <%block>anon</%block>', '</%namespace>'], 2, 3),
    ("named-block-in-call", ['<%def name="c()">${caller.body()}</%def>', '<%self:c>', '   <%block name="inner">x</%block>', '</%self:c>'], 2, 4),
    ("def-then-block-of-the-same-name", ['<%def name="dd()">a</%def>', '', ' <%block name="dd">b</%block>'], 2, 2),
    ("expression-in-plain-attribute", ['<%def name="${x}()">', 'b', '</%def>'], 0, 0),
    ("namespace-without-name", ['<%namespace file="a.html"/>'], 0, 0),
    ("namespace-file-and-module", ['<%namespace name="q" file="a.html" module="os"/>'], 0, 0),
    ("def-without-parenthesis", ['<%def name="foo">', 'x', '</%def>'], 0, 0),
    ("block-with-signature", ['<%block name="b(x)">', 'x', '</%block>'], 0, 0),
    ("anonymous-block-with-args", ['<%block args="x">', 'x', '</%block>'], 0, 0),
    ("illegal-ternary", ['% for i in []:', 'x', '% elif y:', '% endfor'], 2, 0),
    ("invalid-control-line", ['% ???'], 0, 0),
    ("unsupported-control-keyword", ['% foo x:', 'y'], 0, 0),
    ("not-a-partial-control", ['% if x', 'y', '% endif'], 0, 0),
    ("import-star", ['<%', '  a = 1', '  from os import *', '%>'], None, 0),
]

PREFIXES = [
    ("none", []),
    ("blank-lines", ["", "", ""]),
    ("text", ["line one", "line two"]),
    ("multiline-construct", ["<%doc>", " a", " b", "</%doc>", "<%", "  ok = 1", "%>"]),
    ("continuation", ["joined \\", "lines \\", "here"]),
    ("comment-and-expr", ["## comment", "${1}"]),
]


def build(fault, prefix, crlf=False, indent=""):
    lines = list(prefix[1])
    start = len(lines) + 1
    fl = list(fault[1])
    fl[0] = indent + fl[0] if not fl[0].startswith("%") or indent == "" else indent + fl[0]
    lines += fl
    lines += ["", "tail ${2}"] if not fault[0].startswith("unterminated") else []
    nl = "\r\n" if crlf else "\n"
    src = nl.join(lines) + nl
    off = fault[2]
    if isinstance(off, str) and off.startswith("py:"):
        # the offending Python line is the one CPython itself reports for the embedded code
        _, first, code = off.split(":", 2)
        try:
            compile(code.strip(), "<embedded>", "eval")
            off = None
        except SyntaxError as e:
            off = int(first) + (e.lineno or 1) - 1
    exp_line = None if off is None else start + off
    return src, start, exp_line, len(indent) + 1


def cases():
    for f in FAULTS:
        for p in PREFIXES:
            for crlf in (False, True):
                for indent in ("", "   "):
                    if indent and f[1][0].startswith("%"):
                        pass
                    yield f[0], p[0], crlf, indent


def run_case(args):
    from mako.template import Template
    from mako.lookup import TemplateLookup
    from mako import exceptions
    fname, pname, crlf, indent = args
    fault = [f for f in FAULTS if f[0] == fname][0]
    prefix = [p for p in PREFIXES if p[0] == pname][0]
    src, start, exp_line, exp_col = build(fault, prefix, crlf, indent)
    root = tempfile.mkdtemp(prefix="c11_")
    try:
        fn = os.path.join(root, "t.html")
        with open(fn, "w", newline="") as f:
            f.write(src)
        open(os.path.join(root, "a.html"), "w").write("a")
        results = {}
        open(os.path.join(root, "main.html"), "w").write("main line 1\n\n\n<%include file='t.html'/>\nmain end\n")
        for path in ("string", "file", "lookup", "moddir", "included"):
            try:
                if path == "included":
                    # the faulty template is compiled while another template is rendering
                    TemplateLookup(directories=[root]).get_template("main.html").render_unicode()
                elif path == "string":
                    Template(src, uri="t.html", filename=None)
                elif path == "file":
                    Template(filename=fn)
                elif path == "lookup":
                    TemplateLookup(directories=[root]).get_template("t.html")
                else:
                    TemplateLookup(directories=[root], module_directory=os.path.join(root, "m")).get_template("t.html")
                results[path] = ("no exception",)
            except (exceptions.SyntaxException, exceptions.CompileException) as e:
                tb = exceptions.RichTraceback()
                shown_src = tb.source.decode() if isinstance(tb.source, bytes) else tb.source
                results[path] = (type(e).__name__, e.lineno, e.pos, e.filename, e.source == src or (isinstance(e.source, bytes) and e.source.decode() == src),
                                 tb.lineno if shown_src == src else "line %r of another text" % (tb.lineno,), str(e))
            except Exception as e:
                results[path] = ("other", type(e).__name__, str(e)[:100])
        problems = []
        for path, r in results.items():
            if r[0] not in ("SyntaxException", "CompileException"):
                problems.append("%s: %s" % (path, r))
                continue
            _, ln, pos, efile, src_ok, tbln, msg = r
            if exp_line is not None and ln != exp_line:
                problems.append("%s: line %r reported, the fault is on line %d" % (path, ln, exp_line))
            if exp_line is None and not (start <= ln <= start + len(fault[1]) - 1):
                problems.append("%s: line %r reported, the construct spans lines %d-%d" % (path, ln, start, start + len(fault[1]) - 1))
            ctl = fault[1][0].startswith("%")          # a control line is matched from the start of its line, indentation included
            if fault[2] == 0 and fault[0] != "py-filter-list" and pos != (1 if ctl else exp_col) and ln == exp_line:
                problems.append("%s: column %r reported, the construct begins at column %d" % (path, pos, exp_col))
            if fault[2] and fault[3] and ln == exp_line and pos != fault[3]:
                problems.append("%s: column %r reported, the offending construct begins at column %d of its line" % (path, pos, fault[3]))
            if path != "string" and efile != fn:
                problems.append("%s: filename %r, the template is %r" % (path, efile, fn))
            if not src_ok:
                problems.append("%s: the exception does not carry the template source" % path)
            if tbln != ln:
                problems.append("%s: RichTraceback.lineno %r differs from the exception's %r" % (path, tbln, ln))
            if ("line: %d" % ln) not in msg:
                problems.append("%s: message does not name line %d" % (path, ln))
        base = results.get("string")
        for path, r in results.items():
            if r[0] in ("SyntaxException", "CompileException") and base and base[0] == r[0] and (r[1], r[2]) != (base[1], base[2]):
                problems.append("%s reports (line, col) %r, the string path %r" % (path, (r[1], r[2]), (base[1], base[2])))
        if problems:
            return {"fault": fname, "prefix": pname, "crlf": crlf, "indent": indent, "template": src, "problem": "; ".join(problems[:3]),
                    "reported": {k: list(v[:4]) for k, v in results.items()}}
        return None
    finally:
        shutil.rmtree(root, ignore_errors=True)
