"""Bounded stand-in for C05's 'attribute values as keyword arguments: literal text as strings, ${} as values,
mixtures concatenated in order' - on <%ns:def> calls with content and <%call>-style namespace tags."""
from __future__ import annotations

import itertools

PIECES = ["lit", " ", "  ", "\t", "${a}", "${b}", "${a + b}", "${ {'k': a}['k'] }", "x y", " lead", "trail ", "${''}", "it's", "#h", "%p"]


def expected(pieces, env):
    out = ""
    for p in pieces:
        if p.startswith("${"):
            out += str(eval(p[2:-1].strip(), dict(env)))
        else:
            out += p
    return out


def cases():
    for n in (1, 2, 3):
        for combo in itertools.product(PIECES, repeat=n):
            if n == 3 and not any(p.strip() == "" for p in combo):
                continue                 # triples only where a whitespace-only piece takes part
            braces = [i for i, p in enumerate(combo) if "{'k'" in p]
            if braces and any(q.startswith("${") for q in combo[braces[0] + 1:]):
                continue                 # an expression containing braces followed by another expression: the statement is silent
                                         # (the attribute scanner takes both for one expression)
            # adjacent literal pieces merge in the source; fine: the oracle concatenates anyway
            yield combo


def run_chunk(args):
    part, nparts = args
    from mako.template import Template
    env = {"a": "A", "b": "B"}
    bad, n = [], 0
    for i, combo in enumerate(cases()):
        if i % nparts != part:
            continue
        val = "".join(combo)
        if '"' in val:
            continue
        n += 1
        src = '<%%def name="show(v, w=\'-\')">[${v}|${w}|${caller.body()}]</%%def><%%self:show v="%s" w="${b}">body</%%self:show>' % val
        exp = "[%s|B|body]" % expected(combo, env)
        try:
            got = Template(src).render_unicode(**env)
        except Exception as e:
            got = "%s: %s" % (type(e).__name__, str(e)[:80])
        if got != exp:
            bad.append({"attribute": val, "template": src, "expected": exp, "got": got})
            if len(bad) > 3:
                break
    return n, bad
