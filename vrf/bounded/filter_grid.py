"""Bounded stand-ins for C02: (A) filter pipelines built from non-commuting callables under every combination
of default_filters / <%page expression_filter> / local filters / n; (B) spellings of the expression itself."""
from __future__ import annotations

import itertools
import sys
import types
import urllib.parse

MOD = "c02_filters"


def _install():
    m = types.ModuleType(MOD)
    for nm in ("fa", "fb", "fp", "fq", "fd", "fe"):
        setattr(m, nm, (lambda tag: (lambda s: "%s(%s)" % (tag, _show(s))))(nm))
    m.fc = lambda pre, post="": (lambda s: "fc[%s|%s|%s]" % (pre, s, post))
    sys.modules[MOD] = m
    return m


class Val:
    """a value that is not a str: whether str() has been applied to it before a filter sees it is observable"""

    def __str__(self):
        return " <v&> "


def _show(s):
    return s if isinstance(s, str) else "%s:%s" % (type(s).__name__, s)


IMPORTS = ["from %s import fa, fb, fp, fq, fd, fe, fc" % MOD]


def documented(flag, s):
    import markupsafe
    from mako import filters
    if flag == "h":
        return markupsafe.escape(s)          # a Markup object: escaping it again leaves it alone (documented markupsafe behaviour)
    if flag == "x":
        return s.replace("&", "&amp;").replace(">", "&gt;").replace("<", "&lt;").replace('"', "&#34;").replace("'", "&#39;")
    if flag == "u":
        return urllib.parse.quote_plus(s.encode("utf-8"))
    if flag == "trim":
        return s.strip()
    if flag == "entity":
        return filters.html_entities_escape(s)
    if flag in ("str", "unicode"):
        return str(s)
    if flag.startswith("decode."):
        return s if isinstance(s, str) else str(s, flag.split(".", 1)[1])
    raise KeyError(flag)


def apply_list(names, s):
    for f in names:
        if f == "n":
            continue
        if f in ("x", "trim", "entity", "u") or f.startswith("decode."):
            s = documented(f, str(s) if not isinstance(s, bytes) else s)
            continue
        if f.startswith("fc("):
            args = eval("(lambda *a, **k: (a, k))" + f[2:])
            pre = args[0][0]
            post = args[0][1] if len(args[0]) > 1 else args[1].get("post", "")
            s = "fc[%s|%s|%s]" % (pre, s, post)
        elif f in ("fa", "fb", "fp", "fq", "fd", "fe"):
            s = "%s(%s)" % (f, _show(s))
        else:
            s = documented(f, s)
    return s


def expected(value, default_filters, page, local):
    """the statement: f_local(P(D(value))); n among local disables D and P; n in page disables only D; D defaults to str"""
    D = ["str"] if default_filters is None else list(default_filters)
    P = list(page or [])
    if "n" in local:
        D, P = [], []
    elif "n" in P:
        D = []
    out = apply_list(D + P + list(local), value)
    if not isinstance(out, str):
        return None         # nothing turned the value into text: what is written then is outside the statement
    return str(out)


LOCALS = [[], ["fa"], ["fa", "fb"], ["fb", "fa"], ["n"], ["n", "fa"], ["fa", "n"], ["h"], ["h", "fa"], ["fa", "h"], ["trim", "fa"],
          ["fc('<', '>')"], ["fc('p', post='q')", "fa"], ["fa", "fc('(', ')')"], ["x"], ["u"], ["entity"], ["str"], ["unicode", "fb"],
          ["decode.utf8"], ["decode.utf8", "fa"], ["fa", "fb", "h", "fa"], ["n", "n"], ["u", "h"], ["h", "u"]]
DEFAULTS = [None, [], ["str"], ["fd"], ["fd", "fe"], ["str", "fd"], ["h"]]
PAGES = [None, ["fp"], ["fp", "fq"], ["n", "fp"], ["fp", "n"], ["n"], ["h"]]
VALUE = " <a&'\"b>é "


_STR_ONLY = ("x", "u", "entity", "trim")


def pipeline_cases():
    for d in DEFAULTS:
        for p in PAGES:
            for l in LOCALS:
                yield d, p, l, "str"
                if d is None and p is None:
                    yield d, p, l, "str-strict"      # under strict_undefined no flag name may be looked up in the context
                # a non-str value: only where every filter of the pipeline accepts one
                if not any(f in _STR_ONLY or f.startswith("decode.") for f in l + (p or []) + (d or [])):
                    yield d, p, l, "obj"


def run_pipeline(args):
    from mako.template import Template
    _install()
    d, p, l = args[:3]
    value = VALUE if len(args) < 4 or args[3] == "str" else Val()
    head = '<%%page expression_filter="%s"/>' % ", ".join(p) if p is not None else ""
    src = head + "${v%s}" % ((" | " + ", ".join(l)) if l else "")
    kw = {} if d is None else {"default_filters": d}
    if len(args) >= 4 and args[3] == "str-strict":
        kw["strict_undefined"] = True
    try:
        out = Template(src, imports=IMPORTS, **kw).render_unicode(v=value)
    except Exception as e:
        out = "EXC %r" % e
    exp = expected(value, d, p, l)
    if out == exp or exp is None:
        return None
    return {"template": src, "default_filters": d, "value": "a str" if value is VALUE else "an object whose str() is ' <v&> '", "expected": exp, "got": out}


def site_cases():
    """filter= on defs, blocks, <%text> (no D/P) and buffer_filters"""
    out = []
    for l in [["fa"], ["fa", "fb"], ["fb", "fa"], ["h", "fa"], ["fa", "h"], ["fc('<', '>')", "fb"], ["trim", "fa"], ["n", "fa"]]:
        fl = ", ".join(l)
        body = " <b&> "
        out.append(("def", '<%%def name="d()" filter="%s">%s</%%def>${d()}' % (fl, body), {}, apply_list(l, body)))
        out.append(("block", '<%%block filter="%s">%s</%%block>' % (fl, body), {}, apply_list(l, body)))
        out.append(("named block", '<%%block name="b" filter="%s">%s</%%block>' % (fl, body), {}, apply_list(l, body)))
        out.append(("text", '<%%text filter="%s">%s${x}</%%text>' % (fl, body), {}, apply_list(l, body + "${x}")))
        out.append(("def with D and P set", '<%%page expression_filter="fp"/><%%def name="d()" filter="%s">%s</%%def>${d() | n}' % (fl, body),
                    {"default_filters": ["fd"]}, apply_list(l, body)))
    for bf in [["fa"], ["fa", "fb"], ["h"]]:
        out.append(("buffered def + buffer_filters", '<%def name="d()" buffered="True"> <q&> </%def>${d() | n}', {"buffer_filters": bf}, apply_list(bf, " <q&> ")))
        out.append(("buffered def + buffer_filters + filter", '<%def name="d()" buffered="True" filter="fb"> <q&> </%def>${d() | n}', {"buffer_filters": bf},
                    None))
        out.append(("capture + buffer_filters", '<%def name="d()"> <q&> </%def>${capture(d) | n}', {"buffer_filters": bf}, None))
    return [c for c in out if c[3] is not None]


def run_site(case):
    from mako.template import Template
    _install()
    what, src, kw, exp = case
    try:
        out = Template(src, imports=IMPORTS, **kw).render_unicode()
    except Exception as e:
        out = "EXC %r" % e
    if out == exp:
        return None
    return {"site": what, "template": src, "options": kw, "expected": exp, "got": out}


ATOMS = ["'}'", '"|"', "'a|b}'", '"}}"', "'''x|}\ny'''", "{'k': '}'}['k']", "{'a|': 1}['a|']", "(3 | 4)", "[1 | 2, 4][0]", "{1: {2: '}'}}[1][2]",
         "(lambda d={'}': '|'}: d['}'])()", "'#'", "[1, # }| comment\n 2][1]", "(1,\n 2)[1]", "'\\''", '"\\"}"', "'\\\\'", "{}", "dict(a='}')['a']",
         "{'x': [1, {'y': '|'}]}['x'][1]['y']", "f'{1 | 2}'", "'%s' % ('}',)", "\"it's | }\"", "[c for c in '}|'][0]",
         "{\n 'k': 1\n}['k']", "( # comment with } and |\n 5)", "'''\n}\n'''.strip()",
         # a backslash-newline continuation inside a literal, followed by } and | in the same literal
         "'a\\\n}b|c'", '"a\\\n|}"', "'''x\\\n}|y'''", "'p\\\r\n}q'"]


def spelling_cases():
    for a in ATOMS:
        for pad_l, pad_r in (("", ""), (" ", " "), ("\n", "\n"), ("  ", "")):
            for filt in ("", "fa", "fa,fb", " fa , fb "):
                yield a, pad_l, pad_r, filt
    for a, b in itertools.product(ATOMS[:14], repeat=2):
        yield "str(%s) + str(%s)" % (a, b), " ", " ", "fa"
        yield "[%s, %s][1]" % (a, b), "", "", ""


def run_spelling(args):
    from mako.template import Template
    _install()
    e, pl, pr, filt = args
    src = "A${" + pl + e + pr + ("|" + filt if filt else "") + "}Z}|"
    try:
        val = eval(e)
    except Exception as ex:
        return {"expression": e, "problem": "oracle cannot evaluate: %r" % ex}
    exp = "A" + apply_list([f.strip() for f in filt.split(",") if f.strip()], str(val)) + "Z}|"
    try:
        out = Template(src, imports=IMPORTS).render_unicode()
    except Exception as ex:
        out = "EXC %r" % ex
    if out == exp:
        return None
    return {"template": src, "expected": exp, "got": out}
