"""Bounded stand-in for C08: the same template on every construction / rendering path, under several hash seeds."""
from __future__ import annotations

import json
import os
import shutil
import subprocess
import sys
import tempfile

TEMPLATES = {
    "plain": "hello ${a} and ${b}\n",
    "defs": '<%def name="d1(x)">[d1 ${x} ${a}]</%def><%def name="d2()">[d2 ${b}]</%def>${d1(1)}${d2()}\n',
    "many-names": "${a}${b}${c}${d}${e}${f}${g}${h}<% i = a + b %>${i}\n% for j in [a, b, c]:\n${j}${loop.index}\n% endfor\n",
    "nonascii": "## -*- coding: utf-8 -*-\nhé ${a} ünï <% s = 'çé' %>${s}\n",
    "blocks": '<%block name="x">bx ${a}</%block><%block>anon ${b}</%block>\n',
    "module-code": "<%! import math\nK = math.floor(2.5) %>${K}${a}\n",
    "nested": '<%def name="o()"><%def name="i()">${a}${b}</%def>${i()}${c}</%def>${o()}${d}\n',
    "pageargs": '<%page args="a, z=7"/>${a}${z}${b}\n',
    # a source encoding declared only by its magic comment, not UTF-8: the module file must be written and labelled alike
    "latin1-comment": ("## -*- coding: iso-8859-1 -*-\ncaf\xe9 cr\xe8me ${a} <% s = 'h\xe9llo' %>${s}\n", "iso-8859-1"),
    "cp1251-comment": ("## -*- coding: cp1251 -*-\n\u041f\u0440\u0438\u0432\u0435\u0442 ${a}\n", "cp1251"),
    # inner defs whose argument defaults are context names: every declaration order the code generator can choose must work
    "nested-defaults": '<%def name="o()"><%def name="i1(x=a)">${x}</%def><%def name="i2(y=b)">${y}</%def><%def name="i3(z=c)">${z}</%def>${i1()}${i2()}${i3()}${d}</%def>${o()}\n',
    # an inner def whose name sorts before the context name its default reads (and one after): lookups first, defs second
    "def-before-name": '<%def name="o()"><%def name="A0(x=b)">${x}</%def><%def name="zz(y=a)">${y}</%def>${A0()}${zz()}${c}</%def>${o()}\n',
    # sibling inner defs used as each other's argument defaults: declared in name order, whatever order the set yields them in
    "sibling-defaults": ('<%def name="o()"><%def name="a1()">A</%def><%def name="a2(x=a1)">${x()}2</%def><%def name="a3(y=a2)">${y()}3</%def>'
                         '<%def name="a4(z=a3)">${z()}4</%def>${a4()}${b}</%def>${o()}\n'),
}
DATA = {k: v for k, v in zip("abcdefgh", ["1", "2", "3", "4", "5", "6", "7", "8"])}

CHILD = r'''
import json, os, sys, io, types, importlib.util
sys.path.insert(0, os.environ["MAKO_REPO"])
from mako.template import Template, ModuleTemplate
from mako.lookup import TemplateLookup
from mako.runtime import Context
from mako.util import FastEncodingBuffer
root, name = sys.argv[1], sys.argv[2]
enc = sys.argv[4]
src = open(os.path.join(root, name + ".html"), "rb").read().decode(enc)
data = json.loads(sys.argv[3])
out = {}
import re
def norm(code):
    code = re.sub(r"_modified_time = [0-9.]+", "", code)
    code = re.sub(r"_template_(filename|uri) = .*", "", code)
    code = re.sub(r"__M_BEGIN_METADATA.*?__M_END_METADATA", "", code, flags=re.S)
    code = re.sub(r"# -\*- coding:.*", "", code)
    return code.strip()
def rec(path, t, also_defs=True):
    r = {"render_unicode": t.render_unicode(**data)}
    x = t.render(**data)
    r["render"] = x if isinstance(x, str) else x.decode("utf-8")
    buf = FastEncodingBuffer()
    t.render_context(Context(buf, **data), **({"a": data["a"]} if name == "pageargs" else {}))
    r["render_context"] = buf.getvalue()
    r["source"] = t.source if isinstance(t.source, str) else t.source.decode("utf-8")
    r["code_norm"] = norm(t.code)
    r["list_defs"] = sorted(t.list_defs())
    r["has_def"] = {d: t.has_def(d) for d in ("d1", "d2", "nope", "body")}
    if t.has_def("d2"):
        r["get_def"] = t.get_def("d2").render_unicode(**data)
    out[path] = r
fn = os.path.join(root, name + ".html")
rec("string", Template(src, uri=name + ".html"))
rec("file", Template(filename=fn, uri=name + ".html"))
md = os.path.join(root, "mods")
rec("moddir", Template(filename=fn, uri=name + ".html", module_directory=md))
rec("reloaded", Template(filename=fn, uri=name + ".html", module_directory=md))
lk = TemplateLookup(directories=[root], module_directory=os.path.join(root, "mods2"))
rec("lookup", lk.get_template(name + ".html"))
rec("lookup-slash", lk.get_template("/" + name + ".html"))
lk2 = TemplateLookup(directories=[root], module_directory=os.path.join(root, "mods3"), modulename_callable=lambda f, u: os.path.join(root, "mods3", "custom_" + name + ".py"))
rec("modulename_callable", lk2.get_template(name + ".html"))
# ModuleTemplate over the generated module
t0 = Template(src, uri=name + ".html")
mp = os.path.join(root, "asmodule_%s.py" % name)
open(mp, "w", encoding="utf-8").write(t0.code)
spec = importlib.util.spec_from_file_location("asmodule_%s" % name, mp)
mod = importlib.util.module_from_spec(spec); spec.loader.exec_module(mod)
rec("ModuleTemplate", ModuleTemplate(mod, module_filename=mp, template_source=src, module_source=t0.code))
print(json.dumps(out))
'''


def template_text(name):
    t = TEMPLATES[name]
    return t[0] if isinstance(t, tuple) else t


def template_enc(name):
    t = TEMPLATES[name]
    return t[1] if isinstance(t, tuple) else "utf-8"


def run_one(args):
    name, seed, repo = args
    root = tempfile.mkdtemp(prefix="c08_")
    try:
        open(os.path.join(root, name + ".html"), "wb").write(template_text(name).encode(template_enc(name)))
        env = dict(os.environ, PYTHONHASHSEED=str(seed), MAKO_REPO=repo, PYTHONDONTWRITEBYTECODE="1")
        p = subprocess.run([sys.executable, "-c", CHILD, root, name, json.dumps(DATA), template_enc(name)], capture_output=True, text=True, env=env, timeout=120)
        if p.returncode != 0:
            return {"template": name, "seed": seed, "problem": "child failed: %s" % p.stderr[-400:]}
        res = json.loads(p.stdout)
        # mako-render
        cmd = [sys.executable, "-m", "mako.cmd"] + sum((["--var", "%s=%s" % kv] for kv in DATA.items()), []) + [os.path.join(root, name + ".html")]
        env2 = dict(env, PYTHONPATH=repo, PYTHONIOENCODING="utf-8")
        c1 = subprocess.run(cmd, capture_output=True, env=env2, timeout=60)
        res["mako-render"] = {"render": c1.stdout.decode("utf-8", "replace") if c1.returncode == 0 else "EXIT %d %s" % (c1.returncode, c1.stderr.decode()[-200:])}
        c2 = subprocess.run(cmd[:3] + ["--output-encoding", "utf-8"] + cmd[3:], capture_output=True, env=env2, timeout=60)
        res["mako-render --output-encoding"] = {"render": c2.stdout.decode("utf-8", "replace") if c2.returncode == 0 and not c2.stderr else
                                                "EXIT %d %s" % (c2.returncode, c2.stderr.decode()[-160:])}
        of = os.path.join(root, "out.txt")
        c3 = subprocess.run(cmd[:3] + ["--output-encoding", "utf-8", "--output-file", of] + cmd[3:], capture_output=True, env=env2, timeout=60)
        res["mako-render --output-file"] = {"render": open(of, "rb").read().decode("utf-8") if os.path.exists(of) and not c3.stderr else
                                            "EXIT %d %s" % (c3.returncode, c3.stderr.decode()[-160:])}
        return {"template": name, "seed": seed, "paths": res}
    finally:
        shutil.rmtree(root, ignore_errors=True)


def compare(results):
    """all paths, all seeds: same output, own source, same def answers"""
    bad = []
    by_t = {}
    for r in results:
        if "problem" in r:
            bad.append(r)
            continue
        by_t.setdefault(r["template"], []).append(r)
    for name, rs in by_t.items():
        ref = rs[0]["paths"]["string"]["render_unicode"]
        src = template_text(name)
        for r in rs:
            for path, v in r["paths"].items():
                for k in ("render_unicode", "render", "render_context"):
                    if k in v and v[k] != ref:
                        bad.append({"template": name, "seed": r["seed"], "path": path, "entry": k, "got": v[k][:200], "expected": ref[:200]})
                if "source" in v and v["source"] != src:
                    bad.append({"template": name, "seed": r["seed"], "path": path, "problem": "Template.source is not this template's text: %r" % v["source"][:80]})
                if "code_norm" in v and v["code_norm"] != r["paths"]["string"]["code_norm"]:
                    bad.append({"template": name, "seed": r["seed"], "path": path, "problem": "Template.code differs from the module generated on the string path"})
                for k in ("list_defs", "has_def", "get_def"):
                    if k in v and v[k] != rs[0]["paths"]["string"].get(k):
                        bad.append({"template": name, "seed": r["seed"], "path": path, "problem": "%s answers %r, on the string path %r" % (k, v[k], rs[0]["paths"]["string"].get(k))})
    return bad


def getdef_inherit_check():
    """a single def of an inheriting template rendered through get_def: same output as when the page calls it"""
    from mako.lookup import TemplateLookup
    lk = TemplateLookup()
    lk.put_string("base.html", '<%def name="who()">base-who</%def><%def name="label()">base-label</%def>[${self.body()}]')
    lk.put_string("child.html", '<%inherit file="base.html"/><%def name="who()">child-who</%def><%def name="show()">${local.who()}/${self.who()}/${parent.label()}</%def>${show()}')
    t = lk.get_template("child.html")
    page = t.render_unicode()
    bad = []
    exp = "child-who/child-who/base-label"
    if page != "[%s]" % exp:
        bad.append({"path": "render", "got": page, "expected": "[%s]" % exp})
    for entry in ("render", "render_unicode"):
        try:
            got = getattr(t.get_def("show"), entry)()
            got = got if isinstance(got, str) else got.decode()
        except Exception as e:
            got = "%s: %s" % (type(e).__name__, str(e)[:80])
        if got != exp:
            bad.append({"path": "get_def('show').%s" % entry, "got": got, "expected": exp})
    return bad


def collision_check():
    """two templates whose URIs differ only in non-word characters, alive together"""
    from mako.lookup import TemplateLookup
    out = []
    for u1, u2 in (("a-b.html", "a_b.html"), ("x/y.html", "x_y.html"), ("p.html", "q.html")):
        lk = TemplateLookup()
        lk.put_string(u1, "first ${1}")
        lk.put_string(u2, "second ${2}")
        t1, t2 = lk.get_template(u1), lk.get_template(u2)
        try:
            s1, s2, c1, c2 = t1.source, t2.source, t1.code, t2.code
        except Exception as e:
            s1 = s2 = c1 = c2 = "<%s: %s>" % (type(e).__name__, e)
        if s1 != "first ${1}" or s2 != "second ${2}" or "first" not in c1 or "second" not in c2:
            out.append({"uris": [u1, u2], "module_ids": [t1.module.__name__, t2.module.__name__],
                        "problem": "Template.source of %s is %r" % (u1, s1)})
    return out


def getdef_args_check():
    """a single def rendered through get_def(name).render(**values): the values reach it as given - also 0, '', None, False
    and empty containers - exactly as when the template calls the def itself"""
    from mako.template import Template
    src = '<%def name="cell(n=5, label=\'none\', flag=True, items=(1,))">[${repr(n)}|${repr(label)}|${repr(flag)}|${repr(items)}]</%def>'
    t = Template(src)
    bad = []
    for values in ({"n": 0}, {"label": ""}, {"flag": False}, {"items": []}, {"n": None}, {"n": 0, "label": "", "flag": None, "items": ()},
                   {"n": 7, "label": "x"}, {}):
        call = ", ".join("%s=%r" % kv for kv in values.items())
        want = Template(src + "${cell(%s)}" % call).render_unicode()
        for entry in ("render", "render_unicode"):
            try:
                got = getattr(t.get_def("cell"), entry)(**values)
                got = got.decode() if isinstance(got, bytes) else got
            except Exception as e:
                got = "%s: %s" % (type(e).__name__, str(e)[:80])
            if got != want:
                bad.append({"path": "get_def('cell').%s(%s)" % (entry, call), "got": got, "expected": want})
    return bad
