"""Bounded (but complete over the stated finite domain) run of the real filters on code points."""
from __future__ import annotations

import html
import itertools
import re
from urllib.parse import unquote_plus

CHARSETS = ["ascii", "latin-1", "cp1251", "shift_jis", "utf-8"]
URLSAFE = set("ABCDEFGHIJKLMNOPQRSTUVWXYZabcdefghijklmnopqrstuvwxyz0123456789_.-~+%")
ENT_OK = re.compile(r"&(?:[A-Za-z][A-Za-z0-9]*|#[0-9]+|#x[0-9A-Fa-f]+);")


def decode_refs(s):
    """reference decoder: &#N; and &#xH; denote that code point, &name; the html.entities code point
    (HTML5's remapping of the C1 range U+0080..U+009F to windows-1252 is *not* applied)"""
    from html.entities import name2codepoint

    def rep(m):
        d, h, n = m.groups()
        if d:
            return chr(int(d))
        if h:
            return chr(int(h, 16))
        return chr(name2codepoint[n]) if n in name2codepoint else m.group(0)
    return re.sub(r"&(?:#([0-9]+)|#[xX]([0-9A-Fa-f]+)|([A-Za-z][A-Za-z0-9]*));", rep, s)


def safe_markup(out):
    """no < > " ' and every & starts an entity"""
    if any(c in out for c in "<>\"'"):
        return False
    i = 0
    while True:
        i = out.find("&", i)
        if i < 0:
            return True
        if not ENT_OK.match(out, i):
            return False
        i += 1


def check_cp(cp, filters, handler_charsets):
    from mako import filters as F
    from html.entities import codepoint2name
    ch = chr(cp)
    fails = []
    for name in filters:
        try:
            if name == "h":
                out = str(F.html_escape(ch))
                ok = safe_markup(out) and html.unescape(out) == ch
            elif name == "x":
                out = F.xml_escape(ch)
                ok = safe_markup(out) and html.unescape(out) == ch
            elif name == "u":
                out = F.url_escape(ch)
                ok = set(out) <= URLSAFE and unquote_plus(out, encoding="utf-8") == ch
            elif name == "entity":
                out = F.html_entities_escape(ch)
                ok = ((out != ch) == (cp in codepoint2name)) and F.html_entities_unescape(out) == ch
            elif name == "escape":
                out = F._html_entities_escaper.escape(ch)
                ok = isinstance(out, bytes) and decode_refs(out.decode("ascii")) == ch
            else:
                continue
        except Exception as e:
            out, ok = repr(e), False
        if not ok:
            fails.append({"filter": name, "codepoint": cp, "char": ch, "output": out})
    for cs in handler_charsets:
        try:
            ch.encode(cs)
            continue                 # encodable: the error handler is not involved
        except UnicodeEncodeError:
            pass
        try:
            out = ch.encode(cs, "htmlentityreplace")
            dec = out.decode(cs)
            ok = decode_refs(dec) == ch
        except Exception as e:
            out, ok = repr(e), False
        if not ok:
            fails.append({"filter": "htmlentityreplace", "charset": cs, "codepoint": cp, "char": ch, "output": repr(out)})
    return fails


def run_range(args):
    lo, hi, step, filters, charsets = args
    n, fails = 0, []
    for cp in range(lo, hi, step):
        if 0xD800 <= cp <= 0xDFFF:
            continue
        n += 1
        f = check_cp(cp, filters, charsets)
        if f:
            fails.extend(f)
            if len(fails) > 5:
                break
    return n, fails


def string_grid(maxlen=3):
    """strings over markup characters and entity fragments: the filters are character-wise (R4)"""
    from mako import filters as F
    alpha = ["&", "<", ">", '"', "'", ";", "#", "a", "amp", "€", "é", " "]
    n, fails = 0, []
    for ln in range(0, maxlen + 1):
        for t in itertools.product(alpha, repeat=ln):
            s = "".join(t)
            n += 1
            for name, f in (("x", F.xml_escape), ("h", lambda z: str(F.html_escape(z))), ("entity", F.html_entities_escape)):
                try:
                    out = f(s)
                    piecewise = "".join(f(c) for c in s)
                except Exception as e:
                    fails.append({"filter": name, "string": s, "exception": repr(e)})
                    continue
                if out != piecewise:
                    fails.append({"filter": name, "string": s, "output": out, "characterwise": piecewise})
                elif name in ("x", "h") and (not safe_markup(out) or html.unescape(out) != s):
                    fails.append({"filter": name, "string": s, "output": out, "problem": "unsafe or not invertible"})
            if F.html_entities_unescape(F.html_entities_escape(s)) != s and "&" not in s:
                fails.append({"filter": "entity-roundtrip", "string": s})
            # the error handler on runs: adjacent unencodable characters reach it as one slice (R4: character-wise image)
            for cs in ("ascii", "latin-1", "cp1251", "shift_jis", "utf-8"):
                try:
                    out = s.encode(cs, "htmlentityreplace")
                    piecewise = b"".join(c.encode(cs, "htmlentityreplace") for c in s)
                except Exception as e:
                    fails.append({"filter": "htmlentityreplace", "charset": cs, "string": s, "exception": repr(e)})
                    continue
                if out != piecewise:
                    fails.append({"filter": "htmlentityreplace", "charset": cs, "string": s, "output": repr(out), "characterwise": repr(piecewise)})
            if F.trim("  " + s + "\n") != s.strip():
                fails.append({"filter": "trim", "string": s})
            if len(fails) > 5:
                return n, fails
    return n, fails
