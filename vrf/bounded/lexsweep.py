"""Bounded stand-in for C01: exhaustive k-token strings through the real lexer with a
span-accounting monitor on match_reg and a render oracle (contracts evaluated natively)."""
from __future__ import annotations

import itertools
import random
import re
import time

TOKENS = ["<%", "%>", "</%", "${", "}", "%", "%%", "##", "\\", "\n", "\r\n", "\r", '"', "'", "|", ">", "/",
          "<%text>", "</%text>", "<%doc>", "</%doc>", " ", "a", "<", "#", "$", "é", "\t", "% if x:", "% endif"]


def check_string(s):
    """returns None or a failure description"""
    from mako import lexer as LX, parsetree as PT, exceptions as EX
    from mako.template import Template
    spans = []
    orig = LX.Lexer.match_reg

    def mr(self, reg):
        mp = self.match_position
        m = orig(self, reg)
        if m:
            spans.append((m.start(), m.end(), reg.pattern, m))
        return m
    orig_append = LX.Lexer.append_node
    appended = {}      # index of the span during which a Text node was appended -> content

    def an(self, nodecls, *args, **kwargs):
        if nodecls is PT.Text and args:
            appended.setdefault(len(spans) - 1, []).append(args[0])
        return orig_append(self, nodecls, *args, **kwargs)
    LX.Lexer.match_reg = mr
    LX.Lexer.append_node = an
    t0 = time.time()
    try:
        try:
            tree = LX.Lexer(s).parse()
        finally:
            LX.Lexer.match_reg = orig
            LX.Lexer.append_node = orig_append
    except (EX.SyntaxException, EX.CompileException):
        return timing(s, t0)
    except Exception as e:          # any other exception type is outside the documented outcomes
        return {"kind": "undocumented-exception", "source": s, "exception": repr(e)}
    bad = timing(s, t0)
    if bad:
        return bad
    # T1: spans tile the source
    pos = 0
    stepped = {}
    for i, (st, en, pat, m) in enumerate(spans):
        if st != pos:
            prev = spans[i - 1] if i else None
            # the only legitimate gap: one character stepped over after an empty match of the text
            # matcher, which must have been appended as a Text node of exactly that character
            ok = (prev is not None and st == pos + 1 and prev[0] == prev[1]
                  and prev[2].lstrip().startswith("(.*?)         # anything")
                  and appended.get(i - 1) == [s[pos]])
            # inside parse_until_text the scan may step over a quote or '#' that starts no string /
            # comment; the expression text is sliced from the source afterwards, so nothing is lost
            scan = (prev is not None and st == pos + 1 and prev[0] == prev[1]
                    and prev[2].startswith("(.*?)(?=\\\"|\\'|#|"))
            if scan:
                pos = en
                continue
            if not ok:
                return {"kind": "source-character-skipped" if st > pos else "source-re-read", "source": s,
                        "at": pos, "skipped": s[pos:st], "next_span": [st, en, pat[:30]]}
            stepped[i - 1] = s[pos]
        pos = en
    if pos != len(s):
        return {"kind": "source-not-consumed-to-the-end", "source": s, "at": pos}
    # T2: what each kind of span may drop
    expected = []
    only_text = True
    for i, (st, en, pat, m) in enumerate(spans):
        seg = s[st:en]
        if pat.lstrip().startswith("(.*?)         # anything"):
            g1, g3 = m.group(1), m.group(3) or ""
            if seg != g1 + g3 or g3 not in ("", "\\\n", "\\\r\n"):
                return {"kind": "text-span-drops-more-than-an-escaped-newline", "source": s, "span": seg, "text": g1}
            expected.append(g1)
            if i in stepped:
                expected.append(stepped[i])
        elif "%%(%*)" in pat:
            g1, g2 = m.group(1), m.group(2)
            if seg != g1 + "%%" + g2:
                return {"kind": "percent-span", "source": s, "span": seg}
            expected.append(g1 + "%" + g2)
        elif pat.startswith("<%doc>"):
            if not (seg.startswith("<%doc>") and seg.endswith("</%doc>")) or "</%doc>" in seg[6:-7]:
                return {"kind": "doc-span-not-first-close", "source": s, "span": seg}
        elif "(%(?!%)|##)" in pat:
            body = seg.rstrip("\n").rstrip("\r") if seg.endswith("\n") else seg
            if "\n" in re.sub(r"\\\r?\n", "", body):
                return {"kind": "line-directive-spans-more-than-its-line", "source": s, "span": seg}
            if m.group(1) == "##":
                if not (st == 0 or s[st - 1] == "\n") or not (en == len(s) or seg.endswith("\n")):
                    return {"kind": "comment-line-span-not-a-whole-line", "source": s, "span": seg}
            else:
                only_text = False
        elif pat == r"\Z" or pat.startswith("#.*coding"):
            if pat.startswith("#.*coding"):
                pass
        elif pat.startswith(r"(.*?)(?=\</%text>)"):
            expected.append(m.group(1))
        elif "opening tag" in pat or pat.startswith(r"\</%"):
            if not (seg.lower().startswith("<%text") or seg.startswith("</%text")):
                only_text = False
        else:
            only_text = False
    if only_text and not has_directive_nodes(tree, PT):
        exp = "".join(expected)
        try:
            out = Template(s).render_unicode()
        except Exception as e:
            return {"kind": "text-only-template-fails-to-render", "source": s, "exception": repr(e)}
        if out != exp:
            return {"kind": "render-differs-from-source-minus-documented-escapes", "source": s, "rendered": out, "expected": exp}
    return None


def has_directive_nodes(tree, PT):
    def walk(nodes):
        for n in nodes:
            if isinstance(n, (PT.Text, PT.Comment)):
                continue
            if isinstance(n, PT.TextTag):
                if n.attributes.get("filter"):
                    return True
                if walk(n.nodes):
                    return True
                continue
            return True
        return False
    return walk(tree.nodes)


def timing(s, t0):
    dt = time.time() - t0
    if dt > 1.0:
        return {"kind": "lexing-too-slow", "source": s, "seconds": round(dt, 2), "length": len(s)}
    return None


def run_chunk(args):
    k, start, step, sample_seed, nsample = args
    fails, n = [], 0
    if nsample:
        rnd = random.Random(sample_seed)
        it = ("".join(rnd.choice(TOKENS) for _ in range(k)) for _ in range(nsample))
    else:
        it = ("".join(t) for i, t in enumerate(itertools.product(TOKENS, repeat=k)) if i % step == start)
    for s in it:
        n += 1
        f = check_string(s)
        if f:
            fails.append(f)
            if len(fails) >= 3:
                break
    return n, fails
