"""Bounded stand-in for C05 ("calling a def binds its arguments by Python's calling rules"): the signature a <%def> or
<%block args=> is re-emitted with, against inspect.signature of the same text as a native def, and the re-emitted call
form against a native call."""
from __future__ import annotations

import inspect
import itertools


def signatures():
    kwpool = ["x=1", "y", "z=3"]
    for pos in ["", "a", "a, b=2", "a, b=2, c='s'"]:
        for var in ["", "*r", "*"]:
            for k in range(0, 4):
                for kws in itertools.permutations(kwpool, k):
                    if var == "*" and not kws:
                        continue
                    if kws and var == "":
                        continue
                    for kk in ["", "**kw"]:
                        yield ", ".join([p for p in [pos, var] + list(kws) + [kk] if p]), var == "*"


def run_signature(args):
    from mako import ast as mast
    from mako.template import Template
    S, bare_star = args
    ns = {}
    try:
        exec("def f(%s): return locals()" % S, ns)
    except SyntaxError:
        return None
    want = str(inspect.signature(ns["f"]))
    try:
        fd = mast.FunctionDecl("def f(%s):pass" % S)
        decl = ",".join(fd.get_argument_expressions())
        ms = {}
        exec("def f(%s): return locals()" % decl, ms)
        got = str(inspect.signature(ms["f"]))
    except Exception as e:
        decl, got = None, "%s: %s" % (type(e).__name__, str(e)[:100])
    problems = []
    if got != want:
        problems.append("re-emitted as def f(%s): signature %s, written %s" % (decl, got, want))
    else:
        # the same through a template: call with the required arguments only, by keyword where needed
        params = inspect.signature(ns["f"]).parameters.values()
        call = ", ".join(("%s=%r" % (p.name, p.name.upper())) if p.kind is p.KEYWORD_ONLY else repr(p.name.upper())
                         for p in params if p.default is p.empty and p.kind in (p.POSITIONAL_OR_KEYWORD, p.KEYWORD_ONLY))
        native = eval("f(%s)" % call, ns)
        names = [p.name for p in params]
        try:
            out = Template('<%%def name="f(%s)">${repr([%s])}</%%def>${f(%s)}' % (S, ", ".join(names), call)).render_unicode().strip()
        except Exception as e:
            out = "%s: %s" % (type(e).__name__, str(e)[:100])
        exp = repr([native[n] for n in names])
        if out != exp:
            problems.append("f(%s) bound %s, Python binds %s" % (call, out, exp))
    if problems:
        return {"signature": S, "bare_star": bare_star, "problem": "; ".join(problems)}
    return None


# body arguments of a call with content: `args=` of <%ns:def> / <%call> declares the parameters caller.body(...) binds
BODY_ARGS = [
    ("x", "1"), ("x, y=2", "1"), ("x, y=2", "1, y=5"), ("x, *rest", "1, 2, 3"), ("*, label", "label='L'"), ("x, *, label='d'", "1"),
    ("x, *, label='d'", "1, label='L'"), ("idx, **kw", "1, extra='e'"), ("*rest, k", "1, k=2"), ("**kw", "a=1, b=2"), ("x=1, *, k=2, **kw", "k=3, z=4"),
]


def run_body_args(args):
    import inspect as _inspect
    from mako.template import Template
    sig, call, form = args
    ns = {}
    exec("def body(%s): return locals()" % sig, ns)
    names = list(_inspect.signature(ns["body"]).parameters)
    native = eval("body(%s)" % call, ns)
    want = repr([native[n] for n in names])
    shown = "${repr([%s])}" % ", ".join(names)
    head = '<%%def name="w()">${caller.body(%s)}</%%def>' % call
    if form == "ns-tag":
        src = head + '<%%self:w args="%s">%s</%%self:w>' % (sig, shown)
    else:
        src = head + '<%%call expr="w()" args="%s">%s</%%call>' % (sig, shown)
    decoys = {n: "CTX-" + n for n in names}        # the same names in the context must not shadow the body's parameters
    try:
        out = Template(src).render_unicode(**decoys).strip()
    except Exception as e:
        out = "%s: %s" % (type(e).__name__, str(e)[:100])
    if out != want:
        return {"args": sig, "call": "caller.body(%s)" % call, "form": form, "template": src, "expected": want, "got": out}
    return None


def body_args_cases():
    return [(s, c, f) for s, c in BODY_ARGS for f in ("ns-tag", "call-tag")]
