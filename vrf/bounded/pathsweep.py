"""Bounded validations for C09: (i) the assumed stdlib contract A-path, (ii) the regex/lstrip
lemma, (iii) an end-to-end URI sweep through a real TemplateLookup with an audit hook."""
from __future__ import annotations

import itertools
import os
import posixpath
import re
import shutil
import sys
import tempfile

SEGS = ["name", "sub", "..", ".", "", "..name", "name..", "sub\\..", "\\..", "sub\\..\\.."]
DIRS = ["/srv/t", "/srv/t/", "rel/t", ".", "..", "/", "/srv/./t", "/srv/x/../t", "t//u"]


def inside(path, d):
    d = posixpath.normpath(d)
    if d == "/":
        return path.startswith("/")
    if d == ".":
        return not (path == ".." or path.startswith("../")) and not path.startswith("/")
    return path == d or path.startswith(d + "/")


def apath_chunk(args):
    """A-path: d normalised, u without leading '/', not normpath(u).startswith('..')  =>
    normpath(join(d, u)) lies lexically inside d."""
    nseg, part, nparts = args
    n, bad = 0, []
    for i, combo in enumerate(itertools.product(SEGS, repeat=nseg)):
        if i % nparts != part:
            continue
        for sep in ("/", "//"):
            for trail in ("", "/"):
                u = sep.join(combo) + trail
                u = u.replace("\\", "/").lstrip("/")
                nu = posixpath.normpath(u)
                if nu.startswith(".."):
                    continue
                for d in DIRS:
                    dn = posixpath.normpath(d)
                    n += 1
                    p = posixpath.normpath(posixpath.join(dn, u))
                    if not inside(p, dn):
                        bad.append({"dir": d, "u": u, "joined": p})
                        if len(bad) > 3:
                            return n, bad
    return n, bad


def lstrip_lemma(pattern, maxlen=6):
    """re.sub(pattern, '', s) == s.lstrip('/') on all strings over a small alphabet"""
    n, bad = 0, []
    rx = re.compile(pattern)
    for ln in range(0, maxlen + 1):
        for t in itertools.product("/a.\\", repeat=ln):
            s = "".join(t)
            n += 1
            if rx.sub("", s) != s.lstrip("/"):
                bad.append(s)
                if len(bad) > 3:
                    return n, bad
    return n, bad


def uri_sweep(nseg, limit=None, module_directory=False, seed=0):
    """every URI of <= nseg segments through a real lookup over a scratch tree; an audit hook records
    every file opened; nothing outside the configured directories may be opened or returned"""
    from mako.lookup import TemplateLookup
    from mako import exceptions
    root = tempfile.mkdtemp(prefix="c09_")
    opened = []
    active = [True]

    def hook(event, args):
        if active[0] and event == "open" and isinstance(args[0], str):
            opened.append(args[0])
    sys.addaudithook(hook)
    n, bad = 0, []
    try:
        tdir = os.path.join(root, "t")
        os.makedirs(os.path.join(tdir, "sub", "name"))
        os.makedirs(os.path.join(root, "mods"))
        for rel in ("name", "sub/name/name", "sub/x.html", "..name", "name.."):
            p = os.path.join(tdir, rel)
            if not os.path.isdir(p):
                open(p, "w").write("inside:" + rel)
        for rel in ("secret", "name", "sub", "x.html"):
            p = os.path.join(root, rel)
            if not os.path.exists(p):
                open(p, "w").write("OUTSIDE:" + rel)
        kw = {"module_directory": os.path.join(root, "mods")} if module_directory else {}
        for dirspec in (tdir, tdir + "/", tdir + "/./"):
            lk = TemplateLookup(directories=[dirspec], **kw)
            for k in range(1, nseg + 1):
                for combo in itertools.product(SEGS + ["secret", "x.html"], repeat=k):
                    for lead in ("", "/", "//", "\\"):
                        uri = lead + "/".join(combo)
                        if not uri:
                            continue
                        n += 1
                        if limit and n > limit:
                            return n, bad
                        del opened[:]
                        try:
                            t = lk.get_template(uri)
                        except exceptions.TemplateLookupException:
                            t = None
                        except Exception as e:
                            t = None
                            if not isinstance(e, (exceptions.MakoException, OSError, UnicodeError, IndexError)):
                                bad.append({"uri": uri, "unexpected": repr(e)})
                        real_t = os.path.realpath(tdir)
                        for f in opened:
                            rf = os.path.realpath(f)
                            ok = rf == real_t or rf.startswith(real_t + os.sep) or rf.startswith(os.path.realpath(os.path.join(root, "mods")) + os.sep) \
                                or not rf.startswith(os.path.realpath(root))
                            if not ok:
                                bad.append({"uri": uri, "opened_outside": f})
                        if t is not None:
                            fn = os.path.realpath(t.filename)
                            if not (fn == real_t or fn.startswith(real_t + os.sep)):
                                bad.append({"uri": uri, "returned_filename": t.filename})
                            elif "OUTSIDE" in t.render():
                                bad.append({"uri": uri, "content_from_outside": t.filename})
                        if len(bad) > 3:
                            return n, bad
        # leading separator runs that mix the two separators, in front of the absolute path of a file outside the root
        outside = os.path.join(root, "secret")
        for dirspec in (tdir,):
            lk = TemplateLookup(directories=[dirspec], **kw)
            # ... and white space around the separators and the dots (what a guard sees and what the file system is asked must agree)
            ws_leads = ("", " ", "\t", "/ ", "// ", "\\ ", " /", "/\t")
            ws_tails = (" ../secret", "../secret", ".. /secret", "\t..\\secret", " ..\\secret", "../ secret", " ../../" + outside.lstrip("/"))
            for lead in ("/", "\\", "\\/", "/\\", "/\\/", "\\\\/", "//\\/", "\\/\\/", "\\//") + ws_leads:
                for tail in (outside.lstrip("/"), outside.lstrip("/").replace("/", "\\"), "t/../" + "secret", "..\\secret") + (ws_tails if lead in ws_leads else ()):
                    uri = lead + tail
                    n += 1
                    del opened[:]
                    try:
                        t = lk.get_template(uri)
                    except exceptions.TemplateLookupException:
                        t = None
                    except Exception:
                        t = None
                    real_t = os.path.realpath(tdir)
                    if t is not None:
                        fn = os.path.realpath(t.filename)
                        if not (fn == real_t or fn.startswith(real_t + os.sep)):
                            bad.append({"uri": uri, "returned_filename": t.filename})
                    for f in opened:
                        rf = os.path.realpath(f)
                        if rf == os.path.realpath(outside):
                            bad.append({"uri": uri, "opened_outside": f})
        return n, bad
    finally:
        active[0] = False
        shutil.rmtree(root, ignore_errors=True)
