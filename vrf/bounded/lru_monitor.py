"""Bounded stand-in for the LRU part of C14: every op sequence up to a length over a few keys, checked against
the property's own wording (at most 1.5n entries, evicting the least recently fetched, eviction never
changes what a lookup returns)."""
from __future__ import annotations

import itertools
import os
import shutil
import tempfile


def lru_sequences(maxlen, keys="abcde"):
    import mako.util as U
    n_eval, bad = 0, []
    tick = [0]

    def timer():
        tick[0] += 1
        return float(tick[0])
    saved = U.timeit.default_timer
    U.timeit.default_timer = timer
    try:
        for cap in (1, 2, 4):
            bound = cap + cap * 0.5
            ops = [("set", k) for k in keys[: cap + 3]] + [("get", k) for k in keys[: cap + 3]]
            for ln in range(1, maxlen + 1):
                for seq in itertools.product(ops, repeat=ln):
                    n_eval += 1
                    c = U.LRUCache(cap)
                    last = {}
                    val = {}
                    problem = None
                    for step, (op, k) in enumerate(seq):
                        before = set(dict.keys(c))
                        if op == "get":
                            if k in before:
                                got = c[k]
                                last[k] = tick[0]
                                if got != val[k]:
                                    problem = "get(%r) returned %r, stored %r" % (k, got, val[k])
                            else:
                                try:
                                    c[k]
                                    problem = "get of absent key %r did not raise" % k
                                except KeyError:
                                    pass
                        else:
                            c[k] = (k, step)
                            val[k] = (k, step)
                            last[k] = tick[0]
                            after = set(dict.keys(c))
                            removed = (before | {k}) - after
                            if len(after) > bound:
                                problem = "holds %d entries, capacity %d allows %.1f" % (len(after), cap, bound)
                            elif removed and len(before | {k}) <= bound:
                                problem = "evicted %s although only %d entries were held" % (sorted(removed), len(before | {k}))
                            elif removed and after and max(last[r] for r in removed) > min(last[a] for a in after):
                                problem = "evicted %s which was fetched more recently than a kept entry" % sorted(removed)
                            elif not (after <= before | {k}):
                                problem = "entries appeared: %s" % sorted(after - before - {k})
                        if problem:
                            break
                    if problem:
                        bad.append({"capacity": cap, "ops": [list(o) for o in seq], "problem": problem})
                        if len(bad) > 3:
                            return n_eval, bad
        return n_eval, bad
    finally:
        U.timeit.default_timer = saved


def lookup_sequences(maxlen):
    """get_template sequences through a TemplateLookup with collection_size=n"""
    from mako.lookup import TemplateLookup
    root = tempfile.mkdtemp(prefix="c14_")
    n_eval, bad = 0, []
    try:
        uris = ["u%d.html" % i for i in range(5)]
        for u in uris:
            open(os.path.join(root, u), "w").write("content of %s" % u)
        for n in (1, 2):
            for fsc in (True, False):
                for ln in range(1, maxlen + 1):
                    for seq in itertools.product(uris[: n + 3], repeat=ln):
                        n_eval += 1
                        lk = TemplateLookup(directories=[root], collection_size=n, filesystem_checks=fsc)
                        for u in seq:
                            t = lk.get_template(u)
                            out = t.render()
                            if out != "content of %s" % u:
                                bad.append({"collection_size": n, "uris": list(seq), "problem": "get_template(%r) rendered %r" % (u, out)})
                                break
                            if len(lk._collection) > n + n * 0.5:
                                bad.append({"collection_size": n, "uris": list(seq),
                                            "problem": "the cache holds %d templates, collection_size=%d allows %.1f" % (len(lk._collection), n, n * 1.5)})
                                break
                        if len(bad) > 3:
                            return n_eval, bad
        return n_eval, bad
    finally:
        shutil.rmtree(root, ignore_errors=True)


def freshness_sequences(maxlen):
    """op sequences {touch file (mtime + 2 s, new content), get_template} over 2 URIs, for collection_size in
    {-1, 1, 2, 4} x filesystem_checks on/off: with checks on a get after a touch returns the new content, without
    a change the very same object; with checks off the loaded template keeps being returned"""
    from mako.lookup import TemplateLookup
    root = tempfile.mkdtemp(prefix="c14f_")
    n_eval, bad = 0, []
    try:
        uris = ["a.html", "b.html"]
        ops = [("get", u) for u in uris] + [("touch", u) for u in uris]
        for size in (-1, 1, 2, 4):
            for fsc in (True, False):
                for ln in range(1, maxlen + 1):
                    for seq in itertools.product(ops, repeat=ln):
                        n_eval += 1
                        ver = {u: 0 for u in uris}
                        mt = {u: 1000 for u in uris}
                        for u in uris:
                            p = os.path.join(root, u)
                            open(p, "w").write("%s v0" % u)
                            os.utime(p, (1000, 1000))
                        lk = TemplateLookup(directories=[root], collection_size=size, filesystem_checks=fsc)
                        loaded = {}          # uri -> (object, version it was compiled from)
                        problem = None
                        for op, u in seq:
                            p = os.path.join(root, u)
                            if op == "touch":
                                ver[u] += 1
                                mt[u] += 2
                                open(p, "w").write("%s v%d" % (u, ver[u]))
                                os.utime(p, (mt[u], mt[u]))
                                continue
                            t = lk.get_template(u)
                            out = t.render()
                            # compile time of a fresh load is "now" (far later than the simulated mtimes): stamp it down
                            if u not in loaded or loaded[u][0] is not t:
                                t.module._modified_time = mt[u]
                            if fsc or u not in loaded or (size != -1 and loaded[u][0] is not t):
                                exp = "%s v%d" % (u, ver[u]) if (fsc or u not in loaded or loaded[u][0] is not t) else None
                            else:
                                exp = "%s v%d" % (u, loaded[u][1])
                            if fsc and out != "%s v%d" % (u, ver[u]):
                                problem = "filesystem_checks on: get_template(%r) renders %r, the file holds v%d" % (u, out, ver[u])
                            elif not fsc and size == -1 and u in loaded and loaded[u][0] is not t:
                                problem = "filesystem_checks off: a loaded template was replaced"
                            elif fsc and u in loaded and loaded[u][1] == ver[u] and size == -1 and loaded[u][0] is not t:
                                problem = "nothing changed on disk, yet a different Template object was returned"
                            if problem:
                                break
                            cur = int(out.rsplit("v", 1)[1])
                            loaded[u] = (t, cur)
                        if problem:
                            bad.append({"collection_size": size, "filesystem_checks": fsc, "ops": [list(o) for o in seq], "problem": problem})
                            if len(bad) > 3:
                                return n_eval, bad
        return n_eval, bad
    finally:
        shutil.rmtree(root, ignore_errors=True)
