"""Bounded stand-ins for C15: fault injection at every file-system call of the module writer, and
histories of {touch source newer/older/equal, delete module, foreign magic, construct}."""
from __future__ import annotations

import itertools
import os
import shutil
import sys
import tempfile


class Crash(BaseException):
    pass


def die(what):
    """process death: no unwinding, no flushing of buffered file objects, no finally blocks"""
    os._exit(77)


FS_CALLS = [("tempfile", "mkstemp"), ("os", "write"), ("os", "close"), ("shutil", "move"), ("os", "rename"), ("os", "replace"),
            ("os", "fdopen"), ("builtins", "open"), ("os", "unlink"), ("os", "remove"), ("shutil", "copy"), ("shutil", "copyfile"),
            ("shutil", "copy2"), ("os", "open"), ("os", "fsync")]


os_write = os.write


class Injector:
    """counts the file-system calls made inside mako.template._compile_module_file and crashes at the k-th
    one: 'before' (call not made), 'after' (call made, then crash), 'mid' (os.write/file.write of half the data)"""

    def __init__(self, k, mode):
        self.k, self.mode, self.n, self.active, self.saved, self.fired = k, mode, 0, False, [], None
        self.log = []
        self.report_fd = None

    def report(self, what):
        if self.report_fd is not None:
            os_write(self.report_fd, (what + "|" + ",".join(self.log)).encode())

    def wrap(self, modname, fname, real):
        inj = self

        def w(*a, **kw):
            if not inj.active:
                return real(*a, **kw)
            inj.n += 1
            me = inj.n
            inj.log.append("%s.%s" % (modname, fname))
            if me == inj.k:
                inj.fired = "%s.%s/%s" % (modname, fname, inj.mode)
                inj.report(inj.fired)
                if inj.mode == "before":
                    die(inj.fired)
                if inj.mode == "mid" and fname == "write" and len(a) > 1 and isinstance(a[1], (bytes, bytearray)):
                    real(a[0], a[1][: len(a[1]) // 2])
                    die(inj.fired)
                r = real(*a, **kw)
                die(inj.fired)
            r = real(*a, **kw)
            if fname in ("open", "fdopen") and modname in ("builtins", "os") and hasattr(r, "write") and \
                    any(m in str(a[1:2] or kw.get("mode", "")) for m in ("w", "a", "+")):
                return FileProxy(r, inj)
            return r
        return w

    def __enter__(self):
        import builtins, mako.template as T
        mods = {"tempfile": tempfile, "os": os, "shutil": shutil, "builtins": builtins}
        for m, f in FS_CALLS:
            real = getattr(mods[m], f)
            self.saved.append((mods[m], f, real))
            setattr(mods[m], f, self.wrap(m, f, real))
        return self

    def __exit__(self, *a):
        for mod, f, real in self.saved:
            setattr(mod, f, real)


class FileProxy:
    def __init__(self, f, inj):
        self._f, self._inj = f, inj

    def write(self, data):
        inj = self._inj
        inj.n += 1
        inj.log.append("file.write")
        if inj.n == inj.k:
            inj.fired = "file.write/" + inj.mode
            inj.report(inj.fired)
            if inj.mode == "before":
                die(inj.fired)
            if inj.mode == "mid":
                self._f.write(data[: len(data) // 2])
                self._f.flush()
                die(inj.fired)
            self._f.write(data)          # buffered: dies before any flush
            die(inj.fired)
        return self._f.write(data)

    def __getattr__(self, k):
        return getattr(self._f, k)

    def __enter__(self):
        return self

    def __exit__(self, *a):
        return self._f.__exit__(*a)


def crash_sweep(max_k=12):
    """for every k and mode: previous module present / absent; crash the writer; then the module path must hold
    nothing, the complete previous module or the complete new one, and a fresh Template must render the current source"""
    import mako.template as T
    from mako.template import Template
    root = tempfile.mkdtemp(prefix="c15_")
    n, bad, fired = 0, [], set()
    try:
        for prev in (False, True):
            for k in range(1, max_k + 1):
                for mode in ("before", "after", "mid"):
                    d = os.path.join(root, "r%d_%d_%s" % (prev, k, mode))
                    os.makedirs(os.path.join(d, "mods"))
                    src = os.path.join(d, "t.html")
                    mp = os.path.join(d, "mods", "t.html.py")
                    old = None
                    if prev:
                        open(src, "w").write("OLD ${x} é\n")
                        Template(filename=src, uri="t.html", module_directory=os.path.join(d, "mods"), input_encoding="utf-8")
                        old = open(mp, "rb").read()
                        os.utime(mp, (1000, 1000))
                    open(src, "w", encoding="utf-8").write("NEW ${x} é\n")
                    os.utime(src, (2000, 2000))
                    inj = Injector(k, mode)
                    orig = T._compile_module_file

                    def guarded(*a, _orig=orig, _inj=inj, **kw):
                        _inj.active = True
                        try:
                            return _orig(*a, **kw)
                        finally:
                            _inj.active = False
                    T._compile_module_file = guarded
                    r_fd, w_fd = os.pipe()
                    inj.report_fd = w_fd
                    pid = os.fork()
                    if pid == 0:
                        # the writing process
                        os.close(r_fd)
                        try:
                            with inj:
                                Template(filename=src, uri="t.html", module_directory=os.path.join(d, "mods"), input_encoding="utf-8")
                        except BaseException:
                            os._exit(78)
                        os._exit(0)
                    os.close(w_fd)
                    _, status = os.waitpid(pid, 0)
                    msg = os.read(r_fd, 65536).decode()
                    os.close(r_fd)
                    T._compile_module_file = orig
                    if msg:
                        inj.fired, _, lg = msg.partition("|")
                        inj.log = lg.split(",")
                    if not inj.fired:
                        shutil.rmtree(d, ignore_errors=True)
                        continue
                    fired.add(inj.fired)
                    n += 1
                    cur = open(mp, "rb").read() if os.path.exists(mp) else None
                    problem = None
                    if cur is not None and cur != old:
                        # must be the complete new module: compare with a clean generation elsewhere
                        d2 = os.path.join(d, "clean")
                        os.makedirs(d2)
                        Template(filename=src, uri="t.html", module_directory=d2, input_encoding="utf-8")
                        new = open(os.path.join(d2, "t.html.py"), "rb").read()
                        norm = lambda b: b.replace(d2.encode(), b"@").replace(os.path.join(d, "mods").encode(), b"@")
                        import re as _re
                        strip = lambda b: _re.sub(rb"_modified_time = [0-9.]+", b"", norm(b))
                        if strip(cur) != strip(new):
                            problem = "module path holds neither the previous nor the complete new module (%d bytes, new is %d) after crash at %s" % (len(cur), len(new), inj.fired)
                    if problem is None:
                        try:
                            out = Template(filename=src, uri="t.html", module_directory=os.path.join(d, "mods"), input_encoding="utf-8").render_unicode(x=1)
                            if out != "NEW 1 é\n":
                                problem = "a later Template renders %r, not the current source, after crash at %s" % (out, inj.fired)
                        except Exception as e:
                            problem = "a later Template fails with %r after crash at %s" % (e, inj.fired)
                    if problem:
                        bad.append({"previous_module": prev, "k": k, "mode": mode, "calls": inj.log, "problem": problem})
                    shutil.rmtree(d, ignore_errors=True)
                    if len(bad) > 3:
                        return n, bad, sorted(fired)
        return n, bad, sorted(fired)
    finally:
        shutil.rmtree(root, ignore_errors=True)


OPS = ["src_newer", "src_older", "src_equal", "del_module", "foreign_magic", "construct"]


def history_sweep(maxlen, writer=False):
    """all histories over OPS of length <= maxlen, each followed by a construct; oracle: the module is
    rewritten iff missing / older (whole seconds) / other magic, else byte-identical; the render is that of
    the source version the module was generated from"""
    from mako.template import Template
    from mako import codegen
    root = tempfile.mkdtemp(prefix="c15h_")
    n, bad = 0, []
    try:
        for ln in range(0, maxlen + 1):
            for hist in itertools.product(OPS, repeat=ln):
                if ln and hist[-1] == "construct":
                    continue                       # a final construct is appended anyway
                n += 1
                d = os.path.join(root, "h")
                shutil.rmtree(d, ignore_errors=True)
                os.makedirs(os.path.join(d, "mods"))
                src, mp = os.path.join(d, "t.html"), os.path.join(d, "mods", "t.html.py")
                ver, clock = [0], [5000]
                calls = []

                def mw(source, path, _calls=calls):
                    _calls.append((bytes(source), path))
                    with open(path, "wb") as f:
                        f.write(source)
                kw = {"module_writer": mw} if writer else {}

                def write_src(mt):
                    ver[0] += 1
                    open(src, "w").write("v%d ${x}" % ver[0])
                    os.utime(src, (mt, mt))
                write_src(clock[0])
                gen_from = [None]       # source version the module on disk was generated from (None: no usable module)
                mod_mtime = [None]
                magic_ok = [True]

                def construct(step):
                    due = gen_from[0] is None or not os.path.exists(mp) or mod_mtime[0] < int(os.stat(src).st_mtime) or not magic_ok[0]
                    before = open(mp, "rb").read() if os.path.exists(mp) else None
                    ncalls = len(calls)
                    t = Template(filename=src, uri="t.html", module_directory=os.path.join(d, "mods"), **kw)
                    out = t.render_unicode(x=step)
                    after = open(mp, "rb").read()
                    if due:
                        gen_from[0] = ver[0]
                        magic_ok[0] = True
                        clock[0] += 10
                        os.utime(mp, (clock[0], clock[0]))
                        mod_mtime[0] = clock[0]
                        if writer and len(calls) - ncalls < 1:
                            return "module_writer not called although a rewrite was due"
                        if writer and (calls[-1][1] != mp or not isinstance(calls[-1][0], bytes) or b"_magic_number" not in calls[-1][0]):
                            return "module_writer called with %r" % (calls[-1][1],)
                    else:
                        if after != before:
                            return "module rewritten although it was current"
                        if writer and len(calls) != ncalls:
                            return "module_writer called although no rewrite was due"
                    exp = "v%d %d" % (gen_from[0], step)
                    if out != exp:
                        return "rendered %r, expected %r (module generated from v%d, source is v%d)" % (out, exp, gen_from[0], ver[0])
                    return None
                problem = None
                for i, op in enumerate(hist + ("construct",)):
                    if op == "src_newer":
                        clock[0] += 10
                        write_src(clock[0])
                    elif op == "src_older":
                        write_src(100)
                    elif op == "src_equal":
                        write_src(mod_mtime[0] if mod_mtime[0] else clock[0])
                    elif op == "del_module":
                        if os.path.exists(mp):
                            os.unlink(mp)
                        gen_from[0] = None
                    elif op == "foreign_magic":
                        if os.path.exists(mp):
                            s = open(mp).read().replace("_magic_number = %r" % codegen.MAGIC_NUMBER, "_magic_number = %r" % (codegen.MAGIC_NUMBER - 1))
                            s = s.replace("v%d" % (gen_from[0] or 0), "FOREIGN")
                            open(mp, "w").write(s)
                            os.utime(mp, (mod_mtime[0], mod_mtime[0]))
                            magic_ok[0] = False
                    else:
                        problem = construct(i)
                    if problem:
                        break
                if problem:
                    bad.append({"history": list(hist) + ["construct"], "problem": problem, "module_writer": writer})
                    if len(bad) > 3:
                        return n, bad
        return n, bad
    finally:
        shutil.rmtree(root, ignore_errors=True)
        for k in [k for k in sys.modules if k.startswith("t_html") or "t.html" in k]:
            sys.modules.pop(k, None)
