"""Bounded stand-in for C20: gettext calls planted in every Python-bearing construct at known lines, decoys in
text constructs, translator comments at varying distances; Babel and Lingua extractors."""
from __future__ import annotations

import io
import itertools
import random

# (kind, template lines with {M} for the call text, line offset of the call inside the construct)
CONSTRUCTS = [
    ("expression", ["${{ {M} }}"], 0),
    ("expression-multiline", ["${{ fmt(", "     {M},", "     1) }}"], 1),
    ("expression-filter-arg", ["${{ 'v' | wrap({M}) }}"], 0),
    ("control-if", ["% if {M}:", "x", "% endif"], 0),
    ("control-for", ["% for z in [{M}]:", "${{z}}", "% endfor"], 0),
    ("control-elif", ["% if False:", "a", "% elif {M}:", "b", "% endif"], 2),
    ("code-block", ["<%", "    q1 = 1", "    q2 = {M}", "%>"], 2),
    ("code-block-oneline", ["<% q3 = {M} %>"], 0),
    ("code-block-trailing-space-after-open", ["<% ", "    q5 = {M}", "%>"], 1),
    ("code-block-blank-indented-first-line", ["<%", "    ", "    q6 = {M}", "%>"], 2),
    ("module-block-tab-after-open", ["<%!\t", "    Q7 = {M}", "%>"], 1),
    ("expression-open-space-newline", ["${{ ", "     {M} }}"], 1),
    ("module-block", ["<%!", "    import os", "    Q4 = {M}", "%>"], 2),
    ("def-signature", ['<%def name="dsig(a={M})">', "body", "</%def>"], 0),
    ("def-body", ['<%def name="dbody()">', "   ${{ {M} }}", "</%def>"], 1),
    ("block-signature", ['<%block name="bsig" args="b={M}">', "x", "</%block>"], 0),
    ("block-body", ["<%block>", "  ${{ {M} }}", "</%block>"], 1),
    ("page-signature", ['<%page args="p={M}"/>'], 0),
    ("call-expr", ['<%call expr="wrapper({M})">', "inner", "</%call>"], 0),
    ("call-body", ['<%call expr="wrapper(1)">', "  ${{ {M} }}", "</%call>"], 1),
    ("ns-call-arg", ['<%self:wrapper2 arg="${{ {M} }}">', "inner", "</%self:wrapper2>"], 0),
    ("nested-def", ['<%def name="outer()">', '  <%def name="inner()">', "    ${{ {M} }}", "  </%def>", "</%def>"], 2),
]
DECOYS = [
    ["plain text _('decoy-text') here"],
    ["<%text>", "${_('decoy-texttag')}", "</%text>"],
    ["<%doc>", "_('decoy-doc')", "</%doc>"],
    ["## _('decoy-comment')"],
]
HEAD = ['<%def name="wrapper(x)">${caller.body()}</%def>', '<%def name="wrapper2(arg)">${caller.body()}</%def>']


def build(seed, crlf=False, funcs=("_", "gettext", "ngettext"), nonascii=False):
    rnd = random.Random(seed)
    order = list(CONSTRUCTS)
    rnd.shuffle(order)
    lines = list(HEAD) + [""]
    expected = []
    n = 0
    page_done = False
    for kind, tl, off in order:
        if kind == "page-signature":
            if page_done:
                continue
            page_done = True
        for _ in range(rnd.randrange(0, 3)):
            lines.append(rnd.choice(["", "filler text", "   "]))
        if rnd.random() < 0.5:
            lines.extend(rnd.choice(DECOYS))
        n += 1
        f = rnd.choice(funcs)
        msg = "msg-%d-%s" % (n, kind) + (nonascii if isinstance(nonascii, str) else ("-é日" if nonascii else ""))
        call = "%s('%s')" % (f, msg) if f != "ngettext" else "ngettext('%s', '%ss', 2)" % (msg, msg)
        start = len(lines) + 1
        for ln in tl:
            lines.append(ln.format(M=call))
        expected.append({"line": start + off, "func": f, "msg": msg, "kind": kind})
    nl = "\r\n" if crlf else "\n"
    return nl.join(lines) + nl, expected


def babel_extract(src, encoding="utf-8", comment_tags=()):
    from mako.ext.babelplugin import extract
    opts = {"input_encoding": encoding}
    out = list(extract(io.BytesIO(src.encode(encoding)), ["_", "gettext", "ngettext"], list(comment_tags), opts))
    return [{"line": l, "func": f, "msg": tuple(m) if isinstance(m, (list, tuple)) else m, "comments": c} for l, f, m, c in out]


def lingua_extract(src, comment_tags=""):
    import os, tempfile
    from mako.ext.linguaplugin import LinguaMakoExtractor
    import lingua.extractors
    if not lingua.extractors.EXTRACTORS:
        lingua.extractors.register_extractors()
    ex = LinguaMakoExtractor({"comment-tags": comment_tags, "encoding": "utf-8"})
    class O:
        keywords = []
        domain = None
        comment_tag = comment_tags or None
    d = tempfile.mkdtemp(prefix="c20_")
    try:
        fn = os.path.join(d, "t.mako")
        with open(fn, "w", encoding="utf-8", newline="") as f:
            f.write(src)
        out = []
        for m in ex(fn, O()):
            out.append({"line": m.location[1], "func": None, "msg": m.msgid if not m.msgid_plural else (m.msgid, m.msgid_plural), "comments": m.comment})
        return out
    finally:
        import shutil
        shutil.rmtree(d, ignore_errors=True)


def run_case(args):
    seed, crlf, enc, which = args
    src, expected = build(seed, crlf, nonascii={"ascii": "", "utf-8": "-é日", "latin-1": "-éü"}[enc])
    try:
        got = babel_extract(src, "utf-8" if enc == "ascii" else enc) if which == "babel" else lingua_extract(src)
    except Exception as e:
        return {"seed": seed, "extractor": which, "encoding": enc, "crlf": crlf, "problem": "%s: %s" % (type(e).__name__, str(e)[:150]), "template": src}
    problems = []
    gm = {}
    for g in got:
        gm.setdefault(g["msg"][0] if isinstance(g["msg"], tuple) else g["msg"], []).append(g)
    for e in expected:
        hits = gm.get(e["msg"], [])
        if len(hits) != 1:
            problems.append("%s: message %r reported %d times" % (e["kind"], e["msg"], len(hits)))
            continue
        h = hits[0]
        if h["line"] != e["line"]:
            problems.append("%s: message %r at line %r, written on line %d" % (e["kind"], e["msg"], h["line"], e["line"]))
        if which == "babel" and h["func"] != e["func"]:
            problems.append("%s: function %r, written %r" % (e["kind"], h["func"], e["func"]))
    for g in got:
        m = g["msg"] if not isinstance(g["msg"], (list, tuple)) else g["msg"][0]
        if isinstance(m, str) and m.startswith("decoy"):
            problems.append("decoy %r reported from a non-Python construct" % m)
    if problems:
        return {"seed": seed, "extractor": which, "encoding": enc, "crlf": crlf, "problem": "; ".join(problems[:3]), "n_problems": len(problems), "template": src}
    return None


def comment_cases():
    """translator comments: attached to the construct immediately following, to nothing else"""
    out = []
    for kind, tl, off in [c for c in CONSTRUCTS if c[2] == 0][:8]:
        for gap in (0, 1, 2):
            lines = ["text", "## TRANSLATORS: note for %s" % kind] + [""] * gap
            start = len(lines) + 1
            lines += [l.format(M="_('m-%s')" % kind) for l in tl]
            lines += ["", "${_('later-%s')}" % kind]
            out.append((kind, gap, "\n".join(lines) + "\n", "m-%s" % kind, "later-%s" % kind))
    # another construct with a message right behind the commented one, on the same line: it is not the comment's construct
    for kind, tl, off in [c for c in CONSTRUCTS if len(c[1]) == 1 and c[2] == 0 and not c[1][0].startswith(("%", "<%page", "<%def", "<%block", "<%call", "<%self"))]:
        for second in ("${{_('later-{K}')}}", "${{'w' | wrap(_('later-{K}'))}}", "<% later = _('later-{K}') %>"):
            line = tl[0].format(M="_('m-%s')" % kind) + " " + second.replace("{K}", kind).replace("{{", "{").replace("}}", "}")
            out.append((kind + "+same-line", 0, "\n".join(["text", "## TRANSLATORS: note for %s" % kind, line, ""]) + "\n", "m-%s" % kind, "later-%s" % kind))
    return out


MESSAGELESS = ["${plain()}", "% for zz in seq:\n${zz}\n% endfor".split("\n")[0], '<%def name="nomsg(a=1)">', "${title | h}"]


def lingering_cases():
    """a tagged comment in front of a construct without any message must not reach a later message, and an
    untagged ## comment is never a translator comment"""
    out = []
    for ml in MESSAGELESS:
        for untagged in (True, False):
            for gap in (0, 1):
                lines = ["## TRANSLATORS: for the construct below", ml]
                if ml.startswith("<%def"):
                    lines += ["x", "</%def>"]
                if ml.startswith("% for"):
                    lines += ["${zz}", "% endfor"][:1]            # keep the loop open: no '% end' line resets anything
                lines += [""] * gap
                if untagged:
                    lines.append("## just a remark, no tag")
                lines.append("${_('later-message')}")
                if ml.startswith("% for"):
                    lines.append("% endfor")
                out.append((ml, untagged, gap, "\n".join(lines) + "\n"))
    return out


def run_lingering(case):
    ml, untagged, gap, src = case
    try:
        got = babel_extract(src, comment_tags=["TRANSLATORS:"])
    except Exception as e:
        return {"construct": ml, "problem": "%s: %s" % (type(e).__name__, str(e)[:100]), "template": src}
    by = {g["msg"]: g for g in got}
    if "later-message" not in by:
        return {"construct": ml, "problem": "message not extracted", "template": src}
    c = by["later-message"]["comments"]
    if any("remark" in x for x in c):
        return {"construct": ml, "untagged": untagged, "gap": gap, "problem": "an untagged ## comment was attached as a translator comment: %r" % c, "template": src}
    if any("construct below" in x for x in c):
        return {"construct": ml, "untagged": untagged, "gap": gap, "problem": "a translator comment in front of another construct was attached: %r" % c, "template": src}
    return None


def run_comment(case):
    kind, gap, src, msg, later = case
    got = babel_extract(src, comment_tags=["TRANSLATORS:"])
    by = {g["msg"]: g for g in got}
    problems = []
    if msg not in by:
        return {"construct": kind, "gap": gap, "problem": "message not extracted", "template": src}
    has = any("note for" in c for c in by[msg]["comments"])
    if gap == 0 and not has:
        problems.append("comment immediately before the construct not attached")
    if gap >= 2 and has:
        problems.append("comment %d blank lines away attached" % gap)
    if later in by and any("note for" in c for c in by[later]["comments"]):
        problems.append("comment attached to a later, unrelated message")
    if problems:
        return {"construct": kind, "gap": gap, "problem": "; ".join(problems), "template": src}
    return None
