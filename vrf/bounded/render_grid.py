"""Run-time grid for schema programs (bounded stand-in and replay for schema obligations):
render the schematic template with concrete holes, raising at each hole in turn, and check the
render-state contract natively (stacks restored, caller reset at holes, output goes to the base
buffer afterwards, a second render is unaffected)."""
from __future__ import annotations

import re


class Boom(Exception):
    pass


def hole_names(source):
    return sorted(set(re.findall(r"\b((?:arg)?hole\d+)\b", source)), key=lambda s: (len(s), s))


def run_program(prog, raise_at=None, extra=None):
    """returns (problems: list[str], output, raised)"""
    from mako.template import Template
    from mako.lookup import TemplateLookup
    from mako.runtime import Context
    from mako import util
    lk = TemplateLookup()
    for uri, text in (prog.lookup_files or {}).items():
        lk.put_string(uri, text)
    t = Template(prog.source, lookup=lk, uri="/schema/%s" % prog.name, **(prog.template_kwargs or {}))
    buf = util.FastEncodingBuffer()
    problems = []
    state = {}

    def mk(name):
        def hole(*a, **k):
            ctx = state["ctx"]
            if not name.startswith("arg") and ctx.caller_stack.nextcaller is not None:
                problems.append("caller not reset at %s: nextcaller=%r" % (name, ctx.caller_stack.nextcaller))
            ctx.write("<%s>" % name)
            if name == raise_at:
                raise Boom(name)
            return "[%s]" % name
        return hole
    data = {n: mk(n) for n in hole_names(prog.source)}
    data.update({"seq": [[1, 2], [3]], "c": False, "d": True, "w": False, "x": "X", "a": "A", "z": "Z", "q": 1})
    data.update(extra or {})
    ctx = Context(buf, **data)
    state["ctx"] = ctx
    raised = None
    base_stack = list(ctx._buffer_stack)
    try:
        from mako.runtime import _kwargs_for_callable
        t.render_context(ctx, **_kwargs_for_callable(t.callable_, data))
    except Boom as e:
        raised = e
    except Exception as e:          # other exceptions from the schematic data are not the grid's concern
        raised = e
    if ctx._buffer_stack != base_stack:
        problems.append("buffer stack not restored: depth %d (expected %d)" % (len(ctx._buffer_stack), len(base_stack)))
    if len(ctx.caller_stack) != 0:
        problems.append("caller stack not restored: %r" % (list(ctx.caller_stack),))
    if ctx.caller_stack.nextcaller is not None:
        problems.append("nextcaller left set: %r" % (ctx.caller_stack.nextcaller,))
    ctx.write("<END>")
    out = buf.getvalue()
    if not out.endswith("<END>"):
        problems.append("later output does not reach the base buffer")
    return problems, out, raised


def grid(prog):
    """scenarios: no raise, raise at each hole; plus a clean re-render after each failing render"""
    results = []
    try:
        p0, out0, r0 = run_program(prog)
    except Exception as e:
        return [{"scenario": "no-raise", "problems": ["template fails: %r" % e]}]
    if p0:
        results.append({"scenario": "no-raise", "problems": p0, "output": out0[:200]})
    for h in hole_names(prog.source):
        try:
            p, out, r = run_program(prog, raise_at=h)
        except Exception as e:
            results.append({"scenario": "raise@" + h, "problems": ["%r" % e]})
            continue
        if p:
            results.append({"scenario": "raise@" + h, "problems": p, "output": out[:200]})
        # output written directly before the raise stays; and a later clean render equals the first one
        p2, out2, r2 = run_program(prog)
        if out2 != out0:
            results.append({"scenario": "re-render after raise@" + h, "problems": ["second render differs"], "output": out2[:200]})
    return results
