"""Bounded stand-in for C17: op sequences over templates with cached sections against a model of the
statement (run once per key, replay the exact output, invalidate_* / cache_enabled, argument precedence,
no entry of one template served to another)."""
from __future__ import annotations

import itertools
import random
import shutil
import tempfile

SECTIONS_SRC = '''<%def name="d(x)" cached="True" cache_timeout="30">[d:${x}:${v}${tick('d')}]</%def>
<%def name="outer()"><%def name="inner()" cached="True">[inner:${v}${tick('inner')}]</%def>${inner()}</%def>
<%def name="k(x)" cached="True" cache_key="${x}">[k:${x}:${v}${tick('k')}]</%def>
<%def name="bf(x)" cached="True" buffered="True" filter="trim">  [bf:${v}${tick('bf')}]  </%def>
<%def name="outer2()"><%def name="nb()" cached="True" buffered="True">[nb:${v}${tick('nb')}]</%def><% held = nb() %>(${held})</%def>
<%block name="blk" cached="True">[blk:${v}${tick('blk')}]</%block>
<%block cached="True">[anon:${v}${tick('anon')}]</%block>
${d(1)}${d(2)}${outer()}${k('p')}${k('q')}${bf(1)}${outer2()}'''
PAGE_SRC = '''<%page cached="True"/>[page:${v}${tick('page')}]'''


class Model:
    """what the statement prescribes, per template"""

    def __init__(self):
        self.store = {}         # key -> output captured at creation
        self.enabled = True

    def section(self, key, produce, counts, name):
        if self.enabled and key in self.store:
            return self.store[key]
        counts[name] = counts.get(name, 0) + 1
        out = produce()
        if self.enabled:
            self.store[key] = out
        return out

    def render_sections(self, v, counts):
        s = self.section
        parts = [
            s("d", lambda: "[d:1:%s]" % v, counts, "d"), s("d", lambda: "[d:2:%s]" % v, counts, "d"),
            s("inner", lambda: "[inner:%s]" % v, counts, "inner"),
            s("k:p", lambda: "[k:p:%s]" % v, counts, "k"), s("k:q", lambda: "[k:q:%s]" % v, counts, "k"),
            s("bf", lambda: "[bf:%s]" % v, counts, "bf"),
            # a cached *and buffered* def nested in another def: its value is returned to the caller, here held and written in brackets
            "(" + s("nb", lambda: "[nb:%s]" % v, counts, "nb") + ")",
        ]
        blk = s("blk", lambda: "[blk:%s]" % v, counts, "blk")
        anon = s("anon", lambda: "[anon:%s]" % v, counts, "anon")
        return blk + anon + "".join(parts)

    def render_page(self, v, counts):
        return self.section("page", lambda: "[page:%s]" % v, counts, "page")


OPS = ["render", "inv_def_d", "inv_closure_inner", "inv_key_p", "inv_def_blk", "inv_def_bf", "inv_body", "disable", "enable", "set_p", "render_other"]


def new_lookup(impl, root, shared_names):
    from mako.lookup import TemplateLookup
    kw = {"cache_impl": impl}
    if impl == "beaker":
        kw["cache_args"] = {"type": "memory"}
    elif impl == "beaker-file":
        kw["cache_impl"] = "beaker"
        kw["cache_args"] = {"type": "file", "dir": root}
    elif impl == "dogpile":
        kw["cache_impl"] = "dogpile.cache"
        kw["cache_args"] = {"regions": {"default": _dogpile_region()}, "region": "default"}
    lk = TemplateLookup(**kw)
    for nm in shared_names:
        lk.put_string(nm, SECTIONS_SRC)
    lk.put_string("page.html", PAGE_SRC)
    return lk


def _dogpile_region():
    from dogpile.cache import make_region
    return make_region().configure("dogpile.cache.memory")


def run_sequence(args):
    """one op sequence on one backend; returns None or a failure record"""
    impl, seq, names = args
    _install_ref()
    root = tempfile.mkdtemp(prefix="c17_")
    try:
        _reset_backends()
        lk = new_lookup(impl, root, names)
        models = {nm: Model() for nm in names}
        pagem = Model()
        v = 0
        main, other = names[0], names[-1]
        for step, op in enumerate(seq):
            t = lk.get_template(main)
            m = models[main]
            counts, exp_counts = {}, {}
            tick = lambda name, _c=counts: (_c.__setitem__(name, _c.get(name, 0) + 1), "")[1]
            try:
                if op in ("render", "render_other"):
                    nm = main if op == "render" else other
                    v += 1
                    out = lk.get_template(nm).render_unicode(v=v, tick=tick)
                    out = "".join(out.split("\n"))
                    exp = models[nm].render_sections(v, exp_counts)
                    if out != exp:
                        return _fail(impl, seq, step, names, "render of %s gave %r, the statement prescribes %r" % (nm, out, exp))
                    if counts != exp_counts:
                        return _fail(impl, seq, step, names, "bodies executed %r, the statement prescribes %r" % (counts, exp_counts))
                    v += 1
                    pout = lk.get_template("page.html").render_unicode(v=v, tick=tick)
                    if pout != pagem.render_page(v, {}):
                        return _fail(impl, seq, step, names, "cached page gave %r" % pout)
                elif op == "inv_def_d":
                    t.cache.invalidate_def("d"); m.store.pop("d", None)
                elif op == "inv_def_blk":
                    t.cache.invalidate_def("blk"); m.store.pop("blk", None)
                elif op == "inv_def_bf":
                    t.cache.invalidate_def("bf"); m.store.pop("bf", None)
                elif op == "inv_closure_inner":
                    t.cache.invalidate_closure("inner"); m.store.pop("inner", None)
                elif op == "inv_key_p":
                    t.cache.invalidate("p", __M_defname="render_k"); m.store.pop("k:p", None)
                elif op == "inv_body":
                    lk.get_template("page.html").cache.invalidate_body(); pagem.store.pop("page", None)
                elif op == "disable":
                    t.cache_enabled = False; m.enabled = False
                elif op == "enable":
                    t.cache_enabled = True; m.enabled = True
                elif op == "set_p":
                    t.cache.set("p", "[set-by-hand]", __M_defname="render_k"); m.store["k:p"] = "[set-by-hand]"
                    got = t.cache.get("p", __M_defname="render_k")
                    if got != "[set-by-hand]":
                        return _fail(impl, seq, step, names, "cache.get after cache.set gave %r" % (got,))
            except Exception as e:
                return _fail(impl, seq, step, names, "%s raised %s: %s" % (op, type(e).__name__, str(e)[:120]))
        return None
    finally:
        shutil.rmtree(root, ignore_errors=True)


def _fail(impl, seq, step, names, problem):
    return {"backend": impl, "ops": list(seq), "failed_at_step": step, "templates": list(names), "problem": problem}


_REF = {}


def _install_ref():
    from mako.cache import CacheImpl, register_plugin
    import sys
    import types
    if "c17_ref" in sys.modules:
        return
    mod = types.ModuleType("c17_ref")

    class RefImpl(CacheImpl):
        """reference dict backend: one process-wide store, namespaced by Cache.id as the docs tell backends to"""
        pass_context = False

        def _ns(self):
            return _REF.setdefault(self.cache.id, {})

        def get_or_create(self, key, creation_function, **kw):
            ns = self._ns()
            if key not in ns:
                ns[key] = creation_function()
            return ns[key]

        def set(self, key, value, **kw):
            self._ns()[key] = value

        def get(self, key, **kw):
            return self._ns()[key]

        def invalidate(self, key, **kw):
            self._ns().pop(key, None)
    mod.RefImpl = RefImpl
    sys.modules["c17_ref"] = mod
    register_plugin("c17ref", "c17_ref", "RefImpl")


def _reset_backends():
    _REF.clear()
    try:
        import mako.ext.beaker_cache as B
        B._beaker_cache = None
    except Exception:
        pass


def sequences(maxlen, nrandom, seed):
    seqs = []
    base = ["render"]
    for ln in range(0, maxlen + 1):
        for mid in itertools.product(OPS, repeat=ln):
            seqs.append(tuple(base) + mid + ("render",))
    rnd = random.Random(seed)
    for _ in range(nrandom):
        seqs.append(tuple(["render"] + [rnd.choice(OPS) for _ in range(rnd.randrange(5, 28))] + ["render"]))
    return seqs


def record_args():
    """argument precedence: Template cache_args < <%page cache_*> < the section's own; timeout int; context on request"""
    from mako.template import Template
    from mako.cache import CacheImpl, register_plugin
    import sys, types
    rec = []
    mod = types.ModuleType("c17_rec")

    class RecImpl(CacheImpl):
        pass_context = False

        def get_or_create(self, key, creation_function, **kw):
            rec.append((key, dict(kw)))
            return creation_function()

        def invalidate(self, key, **kw):
            rec.append(("invalidate:" + key, dict(kw)))

    class RecCtxImpl(RecImpl):
        pass_context = True
    mod.RecImpl, mod.RecCtxImpl = RecImpl, RecCtxImpl
    sys.modules["c17_rec"] = mod
    register_plugin("c17rec", "c17_rec", "RecImpl")
    register_plugin("c17recctx", "c17_rec", "RecCtxImpl")
    bad = []
    src = ('<%page cache_type="file" cache_dir="/pagedir" cache_timeout="7"/>'
           '<%def name="a()" cached="True">a</%def>'
           '<%def name="b()" cached="True" cache_type="dbm" cache_timeout="5">b</%def>'
           '<%def name="c()" cached="True" cache_url="u" cache_foo="bar">c</%def>'
           '${a()}${b()}${c()}')
    t = Template(src, cache_impl="c17rec", cache_args={"type": "memory", "dir": "/tdir", "extra": "E"})
    t.render()
    got = {k: kw for k, kw in rec}
    want = {
        "render_a": {"type": "file", "dir": "/pagedir", "timeout": 7, "extra": "E"},
        "render_b": {"type": "dbm", "dir": "/pagedir", "timeout": 5, "extra": "E"},
        "render_c": {"type": "file", "dir": "/pagedir", "timeout": 7, "extra": "E", "url": "u", "foo": "bar"},
    }
    for k, w in want.items():
        if got.get(k) != w:
            bad.append({"section": k, "backend_received": got.get(k), "statement_prescribes": w})
    for k, kw in rec:
        if "timeout" in kw and type(kw["timeout"]) is not int:
            bad.append({"section": k, "problem": "timeout not an int: %r" % (kw["timeout"],)})
    # an invalidation reaches the backend with the arguments the section was stored with
    del rec[:]
    t3 = Template(src.replace("${a()}", '<%def name="o()"><%def name="n()" cached="True" cache_type="ntype" cache_region="slow">n</%def>${n()}</%def>${o()}${a()}'),
                  cache_impl="c17rec", cache_args={"type": "memory", "dir": "/tdir", "extra": "E"})
    t3.render()
    stored = {k: kw for k, kw in rec}
    del rec[:]
    t3.cache.invalidate_def("a")
    t3.cache.invalidate_def("b")
    t3.cache.invalidate_def("c")
    t3.cache.invalidate_closure("n")
    for k, kw in rec:
        key = k.split(":", 1)[1]
        if stored.get(key) != kw:
            bad.append({"section": key, "problem": "invalidated with %r, stored with %r" % (kw, stored.get(key))})
    if len(rec) != 4:
        bad.append({"problem": "4 invalidations asked for, the backend saw %r" % ([k for k, _ in rec],)})
    del rec[:]
    t2 = Template('<%def name="a()" cached="True">a</%def>${a()}', cache_impl="c17recctx")
    t2.render(marker=1)
    if not rec or "context" not in rec[0][1] or rec[0][1]["context"].get("marker") != 1:
        bad.append({"problem": "a backend with pass_context=True did not receive the rendering context: %r" % (rec[:1],)})
    del rec[:]
    t.render()
    if any("context" in kw for _, kw in rec):
        bad.append({"problem": "context passed to a backend that did not ask for it"})
    return 9, bad
