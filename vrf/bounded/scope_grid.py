"""Bounded stand-in for C04: binding site x read site x strict_undefined grid.

Every value is a callable `lambda s=None: '<site>'` so the same variable can be read as `${x()}` and as
a filter `${'a' | x}`.  The oracle is the resolution order of the property statement:
  innermost Python scope (def argument > loop target / later assignment > body assignment > page argument)
  > module-level <%! %> > <%namespace import> > render-time context (+ body locals for defs called by
  name from the body) > builtin > UNDEFINED / NameError under strict_undefined."""
from __future__ import annotations

import itertools

BINDINGS = ["ctx", "pagearg", "bodyassign", "defarg", "outerlocal", "looptarget", "module", "imported", "nowhere"]
READS = ["body", "topdef", "nesteddef", "anonblock", "namedblock", "callbody", "controlline", "tagattr", "filter",
         "topdef-in-callbody", "topdef-in-block", "topdef-in-loop", "nsdef"]

NS_TEMPLATE = '<%def name="zz(s=None)">imported</%def>'


def lam(v):
    return "lambda s=None: %r" % v


def build(bind, read):
    """template text, expected winner (or None when the statement is silent), or None if the combination is meaningless"""
    bind = set(bind)
    head, pre, site_pre, site_post = [], [], "", ""
    rd = "${'UNDEF' if zz is UNDEFINED else zz()}"
    if read == "filter":
        rd = "${'a' | zz}"
    if read == "controlline":
        rd = "\n% for y in ['UNDEF' if zz is UNDEFINED else zz()]:\n${y}\n% endfor\n"
    if read == "tagattr":
        rd = '<%self:echo v="${\'UNDEF\' if zz is UNDEFINED else zz()}"/>'
        head.append('<%def name="echo(v)">${v}</%def>')
    if "module" in bind:
        head.append("<%%! zz = %s %%>" % lam("module"))
    if "imported" in bind:
        head.append('<%namespace file="ns.html" import="zz"/>')
    if "pagearg" in bind:
        head.append('<%%page args="zz=%s"/>' % lam("page").replace('"', "'"))
    if "bodyassign" in bind:
        pre.append("<%% zz = %s %%>" % lam("body"))
    local_to_site = None
    body = None
    in_def_like = read in ("topdef", "nesteddef", "topdef-in-callbody", "topdef-in-block", "topdef-in-loop", "nsdef")
    if "defarg" in bind and not in_def_like:
        return None
    if "outerlocal" in bind and read != "nesteddef":
        return None
    loop_open = loop_close = ""
    if "looptarget" in bind:
        if in_def_like and read != "nesteddef":
            # loop inside the def, around the read
            pass
        loop_open, loop_close = "\n% for zz in [" + lam("loop") + "]:\n", "\n% endfor\n"
    darg = "zz=%s" % lam("darg") if "defarg" in bind else ""
    wrapdef = '<%def name="wrap()">[${caller.body()}]</%def>'
    if read in ("body", "filter", "controlline", "tagattr"):
        body = loop_open + rd + loop_close
    elif read == "topdef":
        head.append('<%%def name="show(%s)">%s%s%s</%%def>' % (darg, loop_open, rd, loop_close))
        body = "${show()}"
    elif read == "topdef-in-callbody":
        head.append('<%%def name="show(%s)">%s%s%s</%%def>' % (darg, loop_open, rd, loop_close))
        head.append(wrapdef)
        body = '<%call expr="wrap()">${show()}</%call>'
    elif read == "topdef-in-block":
        head.append('<%%def name="show(%s)">%s%s%s</%%def>' % (darg, loop_open, rd, loop_close))
        body = '<%block>${show()}</%block>'
    elif read == "topdef-in-loop":
        head.append('<%%def name="show(%s)">%s%s%s</%%def>' % (darg, loop_open, rd, loop_close))
        body = "% for q in [1]:\n${show()}\n% endfor\n"
    elif read == "nesteddef":
        outer = "<%% zz = %s %%>" % lam("outer") if "outerlocal" in bind else ""
        head.append('<%%def name="outerd()">%s<%%def name="inner(%s)">%s%s%s</%%def>${inner()}</%%def>' % (outer, darg, loop_open, rd, loop_close))
        body = "${outerd()}"
    elif read == "nsdef":
        # a def written inside a <%namespace> tag, called through the namespace
        head.append('<%%namespace name="inl"><%%def name="show(%s)">%s%s%s</%%def></%%namespace>' % (darg, loop_open, rd, loop_close))
        body = "${inl.show()}"
    elif read == "anonblock":
        body = "<%block>" + loop_open + rd + loop_close + "</%block>"
    elif read == "namedblock":
        body = '<%block name="blk">' + loop_open + rd + loop_close + "</%block>"
    elif read == "callbody":
        head.append(wrapdef)
        body = '<%call expr="wrap()">' + loop_open + rd + loop_close + "</%call>"
    text = "\n".join(head) + "\n" + "\n".join(pre) + "\n" + body
    # ---- oracle ----------------------------------------------------------------------------
    order = []
    if "looptarget" in bind:
        order.append("loop")
    if "defarg" in bind:
        order.append("darg")
    if "outerlocal" in bind:
        order.append("outer")
    lexical_body = read in ("body", "filter", "controlline", "tagattr", "anonblock", "callbody")
    if lexical_body:
        if "bodyassign" in bind:
            order.append("body")
        if "pagearg" in bind:
            order.append("page-or-ctx")
    if "module" in bind:
        order.append("module")
    if "imported" in bind:
        order.append("imported")
    if not lexical_body and read != "namedblock" and read != "nesteddef":
        # a top-level def called by name from the (lexical) body sees body assignments and page args
        if "bodyassign" in bind:
            order.append("body")
        if "pagearg" in bind:
            order.append("page-or-ctx")
    if read == "nsdef" and ({"bodyassign", "pagearg", "imported"} & bind) and not (set(order) & {"loop", "darg", "module"}):
        return text, None          # the statement does not say what a def inside a <%namespace> tag sees of the body's locals or of import=
    if read == "nsdef":
        order = [o for o in order if o not in ("body", "page-or-ctx", "imported")]
    if read in ("namedblock", "nesteddef") and ({"bodyassign", "pagearg"} & bind) and not (set(order) & {"loop", "darg", "outer", "module", "imported"}):
        return text, None          # the statement does not say what a named block / a def nested in another def sees of the body's locals
    if "ctx" in bind:
        order.append("ctx")
    order.append("UNDEF")
    win = order[0]
    if win == "page-or-ctx":
        win = "ctx" if "ctx" in bind else "page"
    return text, win


def cases():
    combos = [()]
    for b in BINDINGS[:-1]:
        combos.append((b,))
    for a, b in itertools.combinations(BINDINGS[:-1], 2):
        combos.append((a, b))
    for t in [("ctx", "pagearg", "bodyassign"), ("ctx", "module", "imported"), ("ctx", "bodyassign", "module"),
              ("ctx", "pagearg", "imported"), ("pagearg", "bodyassign", "looptarget"), ("ctx", "defarg", "module"),
              ("ctx", "pagearg", "bodyassign", "module", "imported")]:
        combos.append(t)
    for c in combos:
        for r in READS:
            for strict in (False, True):
                yield c, r, strict


def run_case(args):
    from mako.lookup import TemplateLookup
    from mako import exceptions
    bind, read, strict = args
    b = build(bind, read)
    if b is None:
        return None
    text, win = b
    if win is None:
        return ("skipped", args, text)
    lk = TemplateLookup(strict_undefined=strict)
    lk.put_string("ns.html", NS_TEMPLATE)
    kw = {"zz": (lambda s=None: "ctx")} if "ctx" in bind else {}
    try:
        lk.put_string("t.html", text)
        t = lk.get_template("t.html")
    except NameError as e:
        out = "NameError@compile"          # strict_undefined reports at ... never at compile; treated below
        t = None
    except Exception as e:
        return ("error", args, text, "does not compile: %r" % e)
    if t is not None:
        try:
            out = t.render_unicode(**kw)
            out = "".join(out.split()).replace("[", "").replace("]", "")
        except NameError as e:
            out = "NameError(%s)" % e
        except TypeError as e:
            out = "TypeError"
        except Exception as e:
            out = "EXC:%r" % e
    if win == "UNDEF":
        if strict:
            ok = out.startswith("NameError(") and "zz" in out
        elif read == "filter":
            ok = out in ("TypeError",) or out.startswith("NameError(")     # UNDEFINED used as a filter: str(UNDEFINED) / call fails
        else:
            ok = out == "UNDEF"
    else:
        ok = out == win
    if ok:
        return ("ok", args)
    return ("bad", args, text, "expected %s, got %s" % (win, out))


RESERVED_FORMS = [
    ("<% {n} = 1 %>", "assignment in a <% %> block"),
    ("% for {n} in [1]:\n% endfor", "loop target"),
    ("<% ({n}, q) = (1, 2) %>", "tuple assignment"),
    ("<% import os as {n} %>", "import alias"),
    ("<%\ndef {n}():\n    pass\n%>", "function definition"),
    ("% with open('/dev/null') as {n}:\n% endwith", "with target"),
]


def reserved_grid():
    from mako.template import Template
    from mako import exceptions, codegen
    from mako.runtime import Context
    from mako.util import FastEncodingBuffer
    n, bad = 0, []
    for enable_loop in (True, False):
        names = sorted(codegen.RESERVED_NAMES if enable_loop else codegen.RESERVED_NAMES - {"loop"})
        for name in names:
            for form, what in RESERVED_FORMS:
                n += 1
                src = form.format(n=name)
                try:
                    Template(src, enable_loop=enable_loop)
                    bad.append({"template": src, "problem": "%s of reserved name %r accepted (enable_loop=%s)" % (what, name, enable_loop)})
                except exceptions.NameConflictError:
                    pass
                except Exception as e:
                    bad.append({"template": src, "problem": "%s of reserved name %r raises %r instead of NameConflictError" % (what, name, e)})
            t = Template('<%def name="d()">d</%def>body', enable_loop=enable_loop)
            entries = {
                "render": lambda kw: t.render(**kw),
                "render_unicode": lambda kw: t.render_unicode(**kw),
                "render_context": lambda kw: t.render_context(Context(FastEncodingBuffer(), **kw)),
                "get_def.render": lambda kw: t.get_def("d").render(**kw),
                "get_def.render_unicode": lambda kw: t.get_def("d").render_unicode(**kw),
            }
            for ename, fn in entries.items():
                n += 1
                try:
                    fn({name: 1})
                    bad.append({"entry": ename, "problem": "reserved name %r accepted by %s (enable_loop=%s)" % (name, ename, enable_loop)})
                except exceptions.NameConflictError:
                    pass
                except Exception as e:
                    bad.append({"entry": ename, "problem": "reserved name %r: %s raises %r instead of NameConflictError" % (name, ename, e)})
        if not enable_loop:
            n += 1
            try:
                if Template("<% loop = 5 %>${loop}", enable_loop=False).render(loop=None) .strip() != "5":
                    bad.append({"problem": "loop not assignable with enable_loop=False"})
            except Exception as e:
                bad.append({"problem": "loop with enable_loop=False: %r" % e})
    return n, bad


# constructs that mention a name in a binding position without binding it in the enclosing scope (Python's rules):
# a later read of the name in the same body still resolves to the context
NONBINDING = [
    ("comprehension-in-block", "<% r = [zz for zz in [1]] %>"),
    ("set-comprehension-in-block", "<% r = {zz for zz in [1]} %>"),
    ("dict-comprehension-in-block", "<% r = {zz: 1 for zz in [1]} %>"),
    ("generator-expression-in-block", "<% r = list(zz for zz in [1]) %>"),
    ("comprehension-in-expression", "${[zz for zz in [1]][0]}"),
    ("lambda-parameter", "<% f = lambda zz: zz %>"),
    ("lambda-parameter-in-expression", "${(lambda zz: 2)(1)}"),
    ("function-parameter", "<%\ndef g(zz):\n    return zz\n%>"),
    ("function-local", "<%\ndef g():\n    zz = 1\n    return zz\n%>"),
    ("comprehension-inside-function", "<%\ndef g():\n    return [zz for zz in [1]]\n%>"),
]


def run_nonbinding(args):
    from mako.template import Template
    kind, construct, site, strict = args
    read = "${zz()}"
    if site == "body":
        src = construct + "\n" + read
    elif site == "def":
        src = '<%def name="d()">' + construct + "\n" + read + "</%def>${d()}"
    else:
        src = "<%block>" + construct + "\n" + read + "</%block>"
    try:
        out = Template(src, strict_undefined=strict).render_unicode(zz=lambda: "ctx")
    except Exception as e:
        out = "%s: %s" % (type(e).__name__, str(e)[:80])
    if out.strip().endswith("ctx"):
        return None
    return {"kind": kind, "site": site, "strict_undefined": strict, "template": src, "expected": "...ctx (the name is not bound in this scope: the read goes to the context)", "got": out.strip()[-120:]}


def nonbinding_cases():
    return [(k, c, s, st) for k, c in NONBINDING for s in ("body", "def", "block") for st in (False, True)]


# a name whose only read sits inside a nested function / lambda / comprehension still comes from the context, also
# when the comprehension reuses the name as its loop variable (the outermost iterable is evaluated before binding)
INNER_READ = [
    ("function-body", "<%\ndef g():\n    return zz\n%>${g()[0]}"),
    ("lambda-body", "<% f = lambda: zz %>${f()[0]}"),
    ("comprehension-iterable-in-function", "<%\ndef g():\n    return [e for e in zz]\n%>${g()[0]}"),
    ("own-variable-iterable-in-function", "<%\ndef g():\n    return [zz for zz in zz]\n%>${g()[0]}"),
    ("own-variable-iterable-in-lambda", "<% f = lambda: [zz for zz in zz] %>${f()[0]}"),
    ("own-variable-dict-comprehension", "<%\ndef g():\n    return {zz: 1 for zz in zz}\n%>${list(g())[0]}"),
    ("own-variable-set-comprehension", "<%\ndef g():\n    return {zz for zz in zz}\n%>${list(g())[0]}"),
    ("own-variable-generator", "<%\ndef g():\n    return list(zz for zz in zz)\n%>${g()[0]}"),
    ("own-variable-lambda-in-expression", "${(lambda: [zz for zz in zz])()[0]}"),
    ("own-variable-nested-function", "<%\ndef g():\n    def h():\n        return [zz for zz in zz]\n    return h()\n%>${g()[0]}"),
    ("parameter-default", "<%\ndef g(p=zz):\n    return p\n%>${g()[0]}"),
    ("lambda-default", "<% f = lambda p=zz: p %>${f()[0]}"),
]


def run_inner_read(args):
    from mako.template import Template
    kind, construct, site, strict = args
    if site == "body":
        src = construct
    elif site == "def":
        src = '<%def name="d()">' + construct + "</%def>${d()}"
    else:
        src = "<%block>" + construct + "</%block>"
    try:
        out = Template(src, strict_undefined=strict).render_unicode(zz=["ctx"])
    except Exception as e:
        out = "%s: %s" % (type(e).__name__, str(e)[:80])
    if out.strip() == "ctx":
        return None
    return {"kind": kind, "site": site, "strict_undefined": strict, "template": src, "context": {"zz": ["ctx"]},
            "expected": "ctx (the only read of the name is in an inner scope; it resolves to the context value)", "got": out.strip()[-120:]}


def inner_read_cases():
    return [(k, c, s, st) for k, c in INNER_READ for s in ("body", "def", "block") for st in (False, True)]
