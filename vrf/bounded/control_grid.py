"""Bounded stand-in for C03: control-line templates generated from a small grammar are rendered
and compared with native execution of the equivalent Python statements (the contract "behaves
exactly as the equivalent Python statements executed in document order", evaluated natively)."""
from __future__ import annotations

import itertools
import random
import time

from ..core import Result, VIOLATED, BOUNDED_OK, Findings
from ..propkit import pool_map


def gen_bodies(depth, rnd):
    """(template_lines, python_lines) pairs; python appends to list `out`"""
    kinds = ["text", "expr", "if", "for", "while", "try", "block", "empty-if", "comment-if", "for-else", "try-2-except", "if-elif-elif", "with", "continued-lines"]
    k = rnd.choice(kinds if depth > 0 else ["text", "expr", "block"])
    n = rnd.randrange(1000)
    if k == "text":
        return ["t%d" % n], ["out.append('t%d\\n')" % n]
    if k == "expr":
        return ["${x + %d}" % n], ["out.append(str(x + %d) + '\\n')" % n]
    if k == "block":
        ind = rnd.choice(["", "  ", "\t", "        "])
        return ["<%", ind + "y = x * %d" % (n % 7), ind + "z = y + 1", "%>", "${y}${z}"], \
               ["y = x * %d" % (n % 7), "z = y + 1", "out.append('\\n' + str(y) + str(z) + '\\n')"]
    inner_t, inner_p = [], []
    for _ in range(rnd.randrange(1, 3)):
        t, p = gen_bodies(depth - 1, rnd)
        inner_t += t
        inner_p += p
    pad = rnd.choice(["", "  ", "\t"])
    ind = lambda ls: ["    " + l for l in ls]
    if k == "if":
        c = rnd.choice(["x % 2 == 0", "x > 2", "False", "True"])
        t2, p2 = gen_bodies(depth - 1, rnd)
        return [pad + "% if " + c + ":"] + inner_t + [pad + "% else:"] + t2 + [pad + "% endif"], \
               ["if " + c + ":"] + ind(inner_p) + ["else:"] + ind(p2)
    if k == "empty-if":
        return [pad + "% if x > 100:", pad + "% elif x > 200:", pad + "% else:"] + inner_t + [pad + "% endif"], \
               ["if x > 100:", "    pass", "elif x > 200:", "    pass", "else:"] + ind(inner_p)
    if k == "comment-if":
        return [pad + "% if x > 100:", pad + "## nothing here", pad + "% endif"] + inner_t, ["if x > 100:", "    pass"] + inner_p
    if k == "for":
        seq = rnd.choice(["[1, 2, 3]", "[]", "'ab'", "range(2)", "(i for i in [5, 6])"])
        use = rnd.random() < 0.6
        lt = ["${loop.index}:${loop.first}:${loop.even}"] if use else []
        lp = ["out.append('%s:%s:%s\\n' % (__i, __i == 0, __i % 2 == 0))"] if use else []
        return [pad + "% for v in " + seq + ":"] + lt + inner_t + [pad + "% endfor"], \
               ["for __i, v in enumerate(" + seq + "):"] + ind(lp + inner_p) + ([] if lp + inner_p else ["    pass"])
    if k == "for-else":
        return [pad + "% for v in [1, 2]:", "${v}", pad + "% else:"] + inner_t + [pad + "% endfor"], \
               ["for v in [1, 2]:", "    out.append(str(v) + '\\n')", "else:"] + ind(inner_p)
    if k == "while":
        return ["<% w = 0 %>", pad + "% while w < 2:"] + inner_t + ["<% w += 1 %>", pad + "% endwhile"], \
               ["w = 0", "out.append('\\n')", "while w < 2:"] + ind(inner_p + ["w += 1", "out.append('\\n')"])
    if k == "try":
        return [pad + "% try:", "${1 // (x - x)}", pad + "% except ZeroDivisionError:"] + inner_t + [pad + "% endtry"], \
               ["try:", "    out.append(str(1 // (x - x)) + '\\n')", "except ZeroDivisionError:"] + ind(inner_p)
    if k == "try-2-except":
        t2, p2 = gen_bodies(depth - 1, rnd)
        exc = rnd.choice(["${1 // (x - x)}", "${int('q')}"])
        pexc = "out.append(str(1 // (x - x)) + '\\n')" if "//" in exc else "out.append(str(int('q')) + '\\n')"
        return [pad + "% try:", exc, pad + "% except ZeroDivisionError:"] + inner_t + [pad + "% except (ValueError, KeyError) as err:"] + t2 + [pad + "% endtry"], \
               ["try:", "    " + pexc, "except ZeroDivisionError:"] + ind(inner_p) + ["except (ValueError, KeyError) as err:"] + ind(p2)
    if k == "if-elif-elif":
        t2, p2 = gen_bodies(depth - 1, rnd)
        t3, p3 = gen_bodies(depth - 1, rnd)
        return [pad + "% if x > 50:"] + inner_t + [pad + "% elif x > 2:"] + t2 + [pad + "% elif x >= 0:"] + t3 + [pad + "% endif"], \
               ["if x > 50:"] + ind(inner_p) + ["elif x > 2:"] + ind(p2) + ["elif x >= 0:"] + ind(p3)
    if k == "continued-lines":
        # control lines continued with a backslash, primary and ternary alike
        t2, p2 = gen_bodies(depth - 1, rnd)
        return [pad + "% if x > 50 and \\", pad + "      x > 60:"] + inner_t + [pad + "% elif x >= 0 and \\", pad + "      True:"] + t2 + [pad + "% endif"], \
               ["if x > 50 and x > 60:"] + ind(inner_p) + ["elif x >= 0 and True:"] + ind(p2)
    if k == "with":
        return [pad + "%% with cm(x) as w%d:" % n, "${w%d}" % n] + inner_t + [pad + "% endwith"], \
               ["with cm(x) as w%d:" % n, "    out.append(str(w%d) + '\\n')" % n] + ind(inner_p)
    raise AssertionError(k)


import contextlib


@contextlib.contextmanager
def _cm(v):
    yield v * 2


def one_case(seed):
    from mako.template import Template
    rnd = random.Random(seed)
    t, p = [], []
    for _ in range(rnd.randrange(1, 4)):
        a, b = gen_bodies(rnd.randrange(0, 4), rnd)
        t += a
        p += b
    src = "\n".join(t) + "\n"
    env = {"x": rnd.randrange(0, 5), "out": [], "cm": _cm}
    try:
        exec("\n".join(p), env)
        expected = "".join(env["out"])
    except Exception as e:
        return None          # the reference program itself fails: not a usable case
    try:
        got = Template(src).render_unicode(x=rnd_x(seed), cm=_cm)
    except Exception as e:
        return {"template": src, "python": p, "error": repr(e), "expected": expected}
    if got != expected:
        return {"template": src, "python": p, "rendered": got, "expected": expected}
    return None


def rnd_x(seed):
    rnd = random.Random(seed)
    # consume the same draws as one_case up to env creation: simpler to recompute deterministically
    t = []
    for _ in range(rnd.randrange(1, 4)):
        gen_bodies(rnd.randrange(0, 4), rnd)
    return rnd.randrange(0, 5)


def run_chunk(args):
    lo, hi = args
    fails, n = [], 0
    for seed in range(lo, hi):
        n += 1
        f = one_case(seed)
        if f:
            fails.append(dict(f, seed=seed))
            if len(fails) >= 3:
                break
    return n, fails


KNOWN_LOOP_IN_CALL_BODY = '<%def name="d()">${caller.body()}</%def>\n% for i in seq:\n<%call expr="d()">b ${loop.index}</%call>\n% endfor\n'


def loop_positions():
    """`loop` read at each kind of position inside a `% for` body must be the innermost loop"""
    from mako.template import Template
    cases = {
        "expression": ("% for i in seq:\n${loop.index}\n% endfor\n", "0\n1\n"),
        "control-line": ("% for i in seq:\n% if loop.first:\nF\n% endif\n% endfor\n", "F\n"),
        "python-block": ("% for i in seq:\n<% k = loop.index %>${k}\n% endfor\n", "0\n1\n"),
        "nested-inner": ("% for i in seq:\n% for j in seq:\n${loop.index}${loop.parent.index}\n% endfor\n% endfor\n", "00\n10\n01\n11\n"),
        "call-body": (KNOWN_LOOP_IN_CALL_BODY, "\nb 0\nb 1\n"),
        "nested-def": ('% for i in seq:\n<%def name="q()">${loop.index}</%def>${q()}\n% endfor\n', "0\n1\n"),
    }
    fails = []
    for name, (src, want) in cases.items():
        try:
            out = Template(src).render_unicode(seq=[7, 8])
            if out != want:
                fails.append({"position": name, "template": src, "rendered": out, "expected": want})
        except Exception as e:
            fails.append({"position": name, "template": src, "error": "%s: %s" % (type(e).__name__, e)})
    return len(cases), fails


FOR_TARGETS = ["x", "x, y", "(x, y)", "x, (y, z)", "(x, (y, z))", "x,y"]
FOR_ITERS = {       # iterable text -> per target shape
    1: ["seq", "seq[1:]", "seq[::2]", "'a:b'", '"p:q:r"', "{1: 2, 3: 4}", "[s for s in seq if s]", "sorted(seq, key=lambda v: -v)", "(seq)", "seq[0:2][:1]",
        "[{'k': 1}['k'], 2]"],
    2: ["pairs", "pairs[1:]", "{1: 2, 3: 4}.items()", "[(a, b) for a, b in pairs]", "zip('a:', ':b')"],
    3: ["triples", "triples[:1]", "[(1, (2, 3))]"],
}


def for_header_cases():
    out = []
    for tgt in FOR_TARGETS:
        names = [n for n in tgt.replace("(", " ").replace(")", " ").replace(",", " ").split()]
        for it in FOR_ITERS[len(names)]:
            if len(names) == 3 and it == "[(1, (2, 3))]" and "(y, z)" not in tgt:
                continue
            out.append((tgt, it, names))
    return out


def run_for_header(args):
    """a `% for` whose body uses `loop`, against the native loop with enumerate: any target list, any iterable text"""
    from mako.template import Template
    tgt, it, names = args
    env = {"seq": [3, 0, 5], "pairs": [(1, 2), (3, 4)], "triples": [(1, (2, 3)), (4, (5, 6))]}
    shown = "|".join("${%s}" % n for n in names)
    src = "%% for %s in %s:\n${loop.index}:%s;\n%% endfor\n" % (tgt, it, shown)
    code = "out = []\nfor __i, (%s) in enumerate(%s):\n    out.append('%%d:%%s;\\n' %% (__i, '|'.join(str(v) for v in [%s])))\n" % (
        tgt if len(names) > 1 or tgt.startswith("(") else tgt + ",", "[(v,) for v in %s]" % it if len(names) == 1 and not tgt.startswith("(") else it, ", ".join(names))
    if len(names) == 1:
        code = "out = []\nfor __i, %s in enumerate(%s):\n    out.append('%%d:%%s;\\n' %% (__i, %s))\n" % (tgt, it, names[0])
    ns = dict(env)
    try:
        exec(code, ns)
        want = "".join(ns["out"])
    except Exception:
        return None
    try:
        got = Template(src).render_unicode(**env)
    except Exception as e:
        got = "%s: %s" % (type(e).__name__, str(e)[:100])
    if got != want:
        return {"header": "% for " + tgt + " in " + it + ":", "template": src, "expected": want, "got": got}
    return None


def run_grid(rep, tier):
    t0 = time.time()
    n_cases = 1600 if tier == "quick" else 16000
    step = n_cases // 16
    base = rep.seed * 1000003
    outs = pool_map(run_chunk, [(base + i * step, base + (i + 1) * step) for i in range(16)])
    n = sum(o[0] for o in outs)
    fails = [f for o in outs for f in o[1]]
    bound = "%d seeded templates from a grammar of nested if/elif/else, for(/else), while, try/except, <%% %%> blocks at 4 margins, empty and comment-only bodies (depth <= 3)" % n_cases
    if fails:
        f = fails[0]
        rep.add(Result("C03.control-grid", VIOLATED, klass="B", backend="native-oracle", function="mako.codegen", bound=bound,
                       evaluations=n, detail="template renders differently from the equivalent Python", witness=f, replayed=True,
                       replay={"how": "Template(src).render_unicode(x=..) vs exec of the equivalent statements", "failures": fails[:3]},
                       time_s=time.time() - t0))
    else:
        rep.add(Result("C03.control-grid", BOUNDED_OK, klass="B", backend="native-oracle", function="mako.codegen", bound=bound,
                       evaluations=n, time_s=time.time() - t0, detail="all rendered outputs equal the native execution"))
    # for headers: the loop rewrite has to find the whole iterable, whatever punctuation it contains
    t2 = time.time()
    fh = for_header_cases()
    fh_bad = [o for o in pool_map(run_for_header, fh) if o]
    fb = "%d `%% for` headers (6 target shapes x iterables with slices, dict literals, strings with colons, lambdas, comprehensions) with `loop` used in the body" % len(fh)
    if fh_bad:
        rep.add(Result("C03.for-header-grid", VIOLATED, klass="B", backend="native-oracle", function="mako.codegen:mangle_mako_loop", bound=fb,
                       evaluations=len(fh), detail="%s: %s" % (fh_bad[0]["header"], fh_bad[0]["got"][:160]), witness=fh_bad[0], replayed=True,
                       replay={"failures": fh_bad[:3]}, time_s=time.time() - t2))
    else:
        rep.add(Result("C03.for-header-grid", BOUNDED_OK, klass="B", backend="native-oracle", function="mako.codegen:mangle_mako_loop", bound=fb,
                       evaluations=len(fh), time_s=time.time() - t2, detail="every loop renders what the native loop with enumerate gives"))
    # loop at every reading position
    t1 = time.time()
    n2, lf = loop_positions()
    known = {e["witness_class"]: e for e in Findings().all_known("C03")}
    unknown = []
    for f in lf:
        if f["position"] in ("call-body", "nested-def") and "loop-in-nested-scope" in known:
            rep.known_confirmed.append("%s [position %s: %s]" % (known["loop-in-nested-scope"]["what"], f["position"], f.get("error", f.get("rendered"))))
        else:
            unknown.append(f)
    if unknown:
        rep.add(Result("C03.loop-positions", VIOLATED, klass="B", backend="native-oracle", function="mako.codegen",
                       bound="`loop` read at 6 kinds of position inside a `% for`", evaluations=n2,
                       detail="`loop` is not the innermost enclosing loop at position %s" % unknown[0]["position"], witness=unknown[0],
                       replayed=True, replay={"failures": unknown}, time_s=time.time() - t1))
    else:
        rep.add(Result("C03.loop-positions", BOUNDED_OK, klass="B", backend="native-oracle", function="mako.codegen",
                       bound="`loop` read at 6 kinds of position inside a `% for`", evaluations=n2, time_s=time.time() - t1,
                       detail="known finding positions excluded: %d" % (len(lf) - len(unknown))))
