"""Bounded stand-in for C06: random inheritance chains against a model of the statement
(self = most derived definition, next/parent = adjacent templates answering with the nearest definition toward
the base, local = the template itself, named blocks once at their base-most position with the most derived
definition, bodies chained with next.body())."""
from __future__ import annotations

import random

MEMBERS = ["d1", "d2"]
BLOCKS = ["b1", "b2"]


def gen_chain(rnd, length):
    """chain[0] is the most derived template, chain[-1] the base"""
    chain = []
    for i in range(length):
        t = {"defs": [m for m in MEMBERS if rnd.random() < 0.6], "blocks": [b for b in BLOCKS if rnd.random() < 0.5],
             "attr": rnd.random() < 0.5, "attrval": rnd.choice(["'attr-of-t%d'" % i, "None", "0", "''", "False"]), "items": [], "dynamic": rnd.random() < 0.3, "anon": rnd.random() < 0.4}
        chain.append(t)
    k = length - 1
    for i, t in enumerate(chain):
        items = [("text", "[t%d]" % i)]
        for _ in range(rnd.randrange(2, 6)):
            kind = rnd.choice(["self", "next", "parent", "local", "selfattr", "text"])
            m = rnd.choice(MEMBERS)
            if kind == "self" and any(m in c["defs"] for c in chain):
                items.append(("self", m))
            elif kind == "next" and i > 0 and any(m in c["defs"] for c in chain[i - 1:]):
                items.append(("next", m))
            elif kind == "parent" and i < k and any(m in c["defs"] for c in chain[i + 1:]):
                items.append(("parent", m))
            elif kind == "local" and m in t["defs"]:
                items.append(("local", m))
            elif kind == "selfattr" and any(c["attr"] for c in chain):
                items.append(("selfattr", None))
            else:
                items.append(("text", "."))
        for b in t["blocks"]:
            items.insert(rnd.randrange(1, len(items) + 1), ("block", b))
        if t["anon"]:
            items.insert(rnd.randrange(1, len(items) + 1), ("anon", None))
        if i > 0:
            items.insert(rnd.randrange(1, len(items) + 1), ("nextbody", None))
        t["items"] = items
    return chain


def source(chain, i):
    t = chain[i]
    k = len(chain) - 1
    out = []
    if i < k:
        out.append('<%%inherit file="%s"/>' % ("${context['base_%d']}" % (i + 1) if t["dynamic"] else "t%d.html" % (i + 1)))
    if t["attr"]:
        out.append("<%%! mod_x = %s %%>" % t["attrval"])
    for m in t["defs"]:
        out.append('<%%def name="%s()">[t%d.%s]</%%def>' % (m, i, m))
    for kind, arg in t["items"]:
        if kind == "text":
            out.append(arg)
        elif kind in ("self", "next", "parent", "local"):
            out.append("${%s.%s()}" % (kind, arg))
        elif kind == "selfattr":
            out.append("(${repr(self.attr.mod_x)})")
        elif kind == "nextbody":
            out.append("<${next.body()}>")
        elif kind == "block":
            out.append('<%%block name="%s">[t%d.%s]</%%block>' % (arg, i, arg))
        elif kind == "anon":
            out.append("<%%block>[t%d.anon]</%%block>" % i)
    return "".join(out)


def model(chain):
    k = len(chain) - 1

    def nearest_def(start, m):
        for j in range(start, k + 1):
            if m in chain[j]["defs"]:
                return "[t%d.%s]" % (j, m)
        raise LookupError(m)

    def body(i):
        out = []
        for kind, arg in chain[i]["items"]:
            if kind == "text":
                out.append(arg)
            elif kind == "self":
                out.append(nearest_def(0, arg))
            elif kind == "next":
                out.append(nearest_def(i - 1, arg))
            elif kind == "parent":
                out.append(nearest_def(i + 1, arg))
            elif kind == "local":
                out.append("[t%d.%s]" % (i, arg))
            elif kind == "selfattr":
                j = next(j for j in range(0, k + 1) if chain[j]["attr"])
                out.append("(%s)" % repr(eval(chain[j]["attrval"])))
            elif kind == "nextbody":
                out.append("<" + body(i - 1) + ">")
            elif kind == "block":
                # only at its position in the base-most template that declares it, with the most derived definition
                if not any(arg in chain[j]["blocks"] for j in range(i + 1, k + 1)):
                    j = next(j for j in range(0, k + 1) if arg in chain[j]["blocks"])
                    out.append("[t%d.%s]" % (j, arg))
            elif kind == "anon":
                out.append("[t%d.anon]" % i)
        return "".join(out)
    return body(k)


def run_case(args):
    seed, = args if isinstance(args, tuple) else (args,)
    from mako.lookup import TemplateLookup
    rnd = random.Random(seed)
    bad = []
    for n in range(12):
        length = rnd.randrange(1, 5)
        chain = gen_chain(rnd, length)
        lk = TemplateLookup()
        srcs = {}
        for i in range(length):
            srcs["t%d.html" % i] = source(chain, i)
            lk.put_string("t%d.html" % i, srcs["t%d.html" % i])
        data = {"base_%d" % i: "t%d.html" % i for i in range(length)}
        try:
            exp = model(chain)
        except (LookupError, StopIteration):
            continue
        try:
            got = lk.get_template("t0.html").render_unicode(**data)
        except Exception as e:
            got = "%s: %s" % (type(e).__name__, str(e)[:100])
        if got != exp:
            bad.append({"seed": seed, "case": n, "templates": srcs, "expected": exp, "got": got})
            if len(bad) > 2:
                break
    return bad


def include_cases():
    """an <%include> from a template that itself inherits: the included template is a chain of its own - its
    named blocks render at their own position even when the includer's ancestors declare a block of that name"""
    from mako.lookup import TemplateLookup
    bad = []
    for inc_chain in (1, 2):
        for colliding in (True, False):
            lk = TemplateLookup()
            bname = "b1" if colliding else "other"
            lk.put_string("base.html", 'BASE<%block name="b1">[base.b1]</%block>{${next.body()}}')
            lk.put_string("page.html", '<%inherit file="base.html"/>PAGE<%include file="inc.html"/>END')
            if inc_chain == 1:
                lk.put_string("inc.html", 'INC<%%block name="%s">[inc.%s]</%%block>' % (bname, bname))
                exp_inc = "INC[inc.%s]" % bname
            else:
                lk.put_string("incbase.html", 'IB<%%block name="%s">[incbase.%s]</%%block>(${next.body()})' % (bname, bname))
                lk.put_string("inc.html", '<%%inherit file="incbase.html"/>INC<%%block name="%s">[inc.%s]</%%block>' % (bname, bname))
                exp_inc = "IB[inc.%s](INC)" % bname
            exp = "BASE[base.b1]{PAGE%sEND}" % exp_inc
            try:
                got = lk.get_template("page.html").render_unicode()
            except Exception as e:
                got = "%s: %s" % (type(e).__name__, str(e)[:100])
            if got != exp:
                bad.append({"included_chain_length": inc_chain, "block_name_collides": colliding, "expected": exp, "got": got})
    return 4, bad


def compile_rejections():
    """block names unique within a template; named blocks inside defs or calls rejected at compile time"""
    from mako.template import Template
    from mako import exceptions
    bad = []
    for what, src in (("duplicate block name", '<%block name="x">a</%block><%block name="x">b</%block>'),
                      ("duplicate block name, nested", '<%block name="x"><%block name="y">a</%block></%block><%block name="y">b</%block>'),
                      ("named block inside a def", '<%def name="d()"><%block name="x">a</%block></%def>'),
                      ("named block inside a call", '<%def name="w()">${caller.body()}</%def><%call expr="w()"><%block name="x">a</%block></%call>'),
                      ("named block inside a def nested in a block", '<%block name="o"><%def name="d()"><%block name="x">a</%block></%def></%block>')):
        try:
            Template(src)
            bad.append({"case": what, "template": src, "problem": "compiled"})
        except exceptions.CompileException:
            pass
        except Exception as e:
            bad.append({"case": what, "template": src, "problem": "%s instead of CompileException" % type(e).__name__})
    for what, src in (("anonymous block inside a def", '<%def name="d()"><%block>a</%block></%def>${d()}'), ("same block name in two templates is fine", '<%block name="x">a</%block>')):
        try:
            Template(src).render()
        except Exception as e:
            bad.append({"case": what, "template": src, "problem": "rejected: %s" % type(e).__name__})
    return 7, bad
