"""Bounded stand-in for C12: a raising call / a warning planted at each candidate position, on four
construction paths; RichTraceback, the error templates and the warning records must name the template and line."""
from __future__ import annotations

import os
import shutil
import tempfile
import warnings

# each entry: (kind, lines of template with @@ where the planted call goes, offset of the expected line inside the entry, exact?)
CONSTRUCTS = [
    ("expression", ["${@@}"], 0),
    ("expression-multiline", ["${", "   @@", "}"], 0),          # not a code block: the line the construct begins on
    ("code-block", ["<%", "    a1 = 1", "    a2 = @@", "    a3 = 3", "%>"], 2),   # exact line
    ("code-block-oneline", ["<% b1 = @@ %>"], 0),
    ("control-if", ["% if @@ or True:", "yes", "% endif"], 0),
    ("control-for", ["% for q in [@@]:", "${q}", "% endfor"], 0),
    ("control-for-using-loop", ["% for q2 in [@@]:", "${q2}${loop.index}", "% endfor"], 0),
    ("control-for-using-loop-after-text", ["some text", "more text", "% for q3 in [@@]:", "${loop.first}", "% endfor"], 2),
    ("control-nested-for-using-loop", ["% for o1 in [1]:", "% for q4 in [@@]:", "${loop.parent.index}", "% endfor", "% endfor"], 1),
    ("control-while", ["% while @@:", "x", "% endwhile"], 0),
    ("control-elif", ["% if False:", "a", "% elif @@:", "b", "% endif"], 2),
    ("def-body", ['<%def name="dd()">', "   ${@@}", "</%def>", "${dd()}"], 1),
    ("block-body", ['<%block name="bb">', "text", "${@@}", "</%block>"], 2),
    ("call-arg", ['<%def name="cc(v)">${v}</%def>', "${cc(@@)}"], 1),
    ("filter", ["${'t' | @@}"], 0),
    ("text-after-multiline", ["<%doc>", "one", "two", "</%doc>", "${@@}"], 4),
    ("after-continuation", ["plain \\", "continued", "${@@}"], 2),
    ("after-unicode-line-separators", ["sep \u2028 ff \x0c nel \x85 vt \x0b fs \x1c inside one line", "second", "${@@}"], 2),
]
BENIGN = {"filter": "str"}


def build(target, call):
    lines, expect = ["## header", ""], None
    for kind, tl, off in CONSTRUCTS:
        start = len(lines) + 1
        filler = BENIGN.get(kind, "0")
        for ln in tl:
            lines.append(ln.replace("@@", call if kind == target else filler))
        if kind == target:
            expect = start + off
        lines.append("")
    return "\n".join(lines) + "\n", expect


def make(path, root, src, name="t.html", **kw):
    from mako.template import Template
    from mako.lookup import TemplateLookup
    fn = os.path.join(root, name)
    with open(fn, "w") as f:
        f.write(src)
    if path == "string":
        return Template(src, uri=name, **kw), name
    if path == "file":
        return Template(filename=fn, **kw), fn
    if path == "lookup":
        return TemplateLookup(directories=[root], **kw).get_template(name), fn
    if path == "moddir":
        return TemplateLookup(directories=[root], module_directory=os.path.join(root, "mods"), **kw).get_template(name), fn
    if path == "moddir-rel":
        # a module directory given relative to the working directory (the caller restores the working directory)
        os.chdir(root)
        return TemplateLookup(directories=[root], module_directory="mods", **kw).get_template(name), fn


def boom():
    raise ZeroDivisionError("planted")


def filt_boom(s):
    raise ZeroDivisionError("planted")


def run_fault(args):
    from mako import exceptions
    kind, path = args
    call = "boom()" if kind != "filter" else "fboom"
    src, expect = build(kind, call)
    root = tempfile.mkdtemp(prefix="c12_")
    cwd0 = os.getcwd()
    try:
        t, fname = make(path, root, src)
        try:
            t.render_unicode(boom=boom, fboom=filt_boom)
            return {"construct": kind, "path": path, "problem": "the planted call did not raise"}
        except ZeroDivisionError:
            tb = exceptions.RichTraceback()
            text = exceptions.text_error_template().render_unicode()
            html = exceptions.html_error_template().render_unicode()
        recs = tb.records
        tmpl = [r for r in recs if r[4] is not None]
        py = [r for r in recs if r[4] is None]
        if not tmpl:
            return {"construct": kind, "path": path, "problem": "no traceback frame attributed to the template"}
        last = tmpl[-1]
        src_lines = src.split("\n")
        problems = []
        if last[5] != expect:
            problems.append("template line %r reported, the construct is on line %d (%r)" % (last[5], expect, src_lines[expect - 1]))
        if last[4] not in (fname, "t.html", os.path.basename(fname)) and not str(last[4]).endswith("t.html"):
            problems.append("frame attributed to %r, not to the template" % (last[4],))
        if last[5] == expect and last[6] != src_lines[expect - 1]:
            problems.append("template line text %r, source line is %r" % (last[6], src_lines[expect - 1]))
        if last[7] != src:
            problems.append("template source in the record is not the template's")
        for r in py:
            if r[5] is not None or r[6] is not None:
                problems.append("a plain Python frame got template coordinates")
        del LINE0[:]
        problems += [p_ for p_ in record_consistency(tb, {"t.html": src}) if "innermost" not in p_]
        if tb.lineno != expect and not problems:
            problems.append("RichTraceback.lineno = %r, expected %d" % (tb.lineno, expect))
        if not problems and ("line %d" % expect) not in text:
            problems.append("text error template does not show line %d" % expect)
        if not problems and ("line %d" % expect) not in html and (">%d<" % expect) not in html:
            problems.append("html error template does not show line %d" % expect)
        line0 = list(LINE0)
        if problems:
            return {"construct": kind, "path": path, "expected_line": expect, "problem": "; ".join(problems), "template": src}
        # format_exceptions
        t2, _ = make(path, root, src, name="t2.html", format_exceptions=True)
        out = t2.render_unicode(boom=boom, fboom=filt_boom)
        if ("line %d" % expect) not in out and (">%d<" % expect) not in out:
            return {"construct": kind, "path": path, "expected_line": expect, "problem": "format_exceptions output does not show line %d" % expect}
        if line0:
            return {"construct": kind, "path": path, "line0": line0, "template": src}
        return None
    finally:
        os.chdir(cwd0)
        shutil.rmtree(root, ignore_errors=True)


def run_chain(path):
    """several templates in one traceback: include + inherit + namespace call"""
    from mako.lookup import TemplateLookup
    from mako import exceptions
    root = tempfile.mkdtemp(prefix="c12c_")
    try:
        files = {
            "base.html": "base top\n${self.body()}\nbase end\n",
            "main.html": '<%inherit file="base.html"/>\n<%namespace name="ns" file="lib.html"/>\nmain\n\n${ns.helper()}\n',
            "lib.html": '<%def name="helper()">\n\n<%include file="inc.html"/>\n</%def>\n',
            "inc.html": "inc 1\ninc 2\n${boom()}\n",
        }
        expect = {"base.html": 2, "main.html": 5, "lib.html": 3, "inc.html": 3}
        for k, v in files.items():
            open(os.path.join(root, k), "w").write(v)
        kw = {"module_directory": os.path.join(root, "mods")} if path == "moddir" else {}
        lk = TemplateLookup(directories=[root], **kw)
        if path == "string":
            lk = TemplateLookup()
            for k, v in files.items():
                lk.put_string(k, v)
        try:
            lk.get_template("main.html").render_unicode(boom=boom)
            return {"path": path, "problem": "chain did not raise"}
        except ZeroDivisionError:
            tb = exceptions.RichTraceback()
        got = {}
        for r in tb.records:
            if r[4] is not None:
                got.setdefault(os.path.basename(str(r[4])).lstrip("/"), []).append(r[5])
        problems = []
        for k, ln in expect.items():
            if ln not in got.get(k, []):
                problems.append("%s: lines %r reported, expected %d" % (k, got.get(k), ln))
        del LINE0[:]
        problems += record_consistency(tb, files)
        if problems:
            return {"path": path, "problem": "; ".join(problems)}
        if LINE0:
            return {"path": path, "line0": list(LINE0)}
        return None
    finally:
        shutil.rmtree(root, ignore_errors=True)


LINE0 = []      # frames reported at template line 0 during the current case (the caller empties and reads it)


def record_consistency(tb, files):
    """every template record carries the source of the template it names, its line text is that line of that
    source, and RichTraceback.source / .lineno show the innermost template frame's own source"""
    problems = []
    last = None
    line0 = LINE0
    for r in tb.records:
        if r[4] is None:
            continue
        name = os.path.basename(str(r[4])).lstrip("/")
        src = files.get(name)
        if src is None:
            continue
        last = (name, r)
        if r[5] == 0:
            # generated code ahead of a render function's first construct (argument set-up, def stubs): mapped to line 0
            line0.append("frame %s (generated line %d) of %s is reported at template line 0, shown with the text %r" % (r[2], r[1], name, r[6]))
            continue
        if r[7] != src:
            other = [k for k, v in files.items() if v == r[7]]
            problems.append("record for %s line %d carries the source of %s" % (name, r[5], other or "something else"))
        lines = src.split("\n")
        if r[5] <= len(lines) and r[6] != lines[r[5] - 1]:
            problems.append("record for %s line %d shows %r, that line reads %r" % (name, r[5], r[6], lines[r[5] - 1]))
    # the 4-tuples handed to the error templates: a template frame is shown under the template's name and line
    for r, shown in zip(tb.records, tb.traceback):
        if r[4] is not None and r[6] is not None and (shown[0] != r[4] or shown[1] != r[5]):
            problems.append("frame %s of template %s (line %r) is shown as %r line %r" % (r[2], os.path.basename(str(r[4])), r[5], shown[0], shown[1]))
    if last is not None:
        name, r = last
        if tb.lineno != r[5] or tb.source != files[name]:
            other = [k for k, v in files.items() if v == tb.source]
            problems.append("RichTraceback.lineno/source = line %r of %s, the innermost template frame is %s line %d"
                            % (tb.lineno, other or "another text", name, r[5]))
    return problems


REENTRANT = {
    # a template frame, a frame of another template, then the first template again (a call body, a caller.body()
    # round trip, an inherited block calling back into the child): the per-module cache of the frame walk is hit
    "call-body": {"a.html": '<%namespace name="b" file="b.html"/>\nA line 2\n<%b:wrap>\n   A line 4\n   A line 5 ${boom()}\n   A line 6\n</%b:wrap>\n',
                  "b.html": '\n## B line 2\n## B line 3\n<%def name="wrap()">\nB-before\n${caller.body()}\nB-after\n</%def>\n'},
    "block-in-child": {"a.html": '<%inherit file="b.html"/>\n\n<%block name="part">\n\n  ${boom()}\n</%block>\n',
                       "b.html": 'top\n<%block name="part">base</%block>\nend\n${next.body()}\n'},
    "three": {"a.html": '<%namespace name="b" file="b.html"/>\n<%b:wrap>\n<%b:wrap2>\n\n${boom()}\n</%b:wrap2>\n</%b:wrap>\n',
              "b.html": '<%namespace name="c" file="c.html"/>\n<%def name="wrap()">\n${caller.body()}\n</%def>\n<%def name="wrap2()">\n\n<%c:inner>${caller.body()}</%c:inner>\n</%def>\n',
              "c.html": '\n\n\n<%def name="inner()">\n\n\n${caller.body()}</%def>\n'},
}


# the template line of every template frame, outermost first: the call site is reported at its tag, the body at its own line
EXPECT_FRAMES = {
    "call-body": [("a.html", 3), ("b.html", 6), ("a.html", 5)],
    "three": [("a.html", 2), ("b.html", 3), ("a.html", 3), ("b.html", 7), ("c.html", 7), ("b.html", 7), ("a.html", 5)],
}


def run_reentrant(args):
    kind, path = args
    from mako.lookup import TemplateLookup
    from mako import exceptions
    files = REENTRANT[kind]
    root = tempfile.mkdtemp(prefix="c12r_")
    try:
        for k, v in files.items():
            open(os.path.join(root, k), "w").write(v)
        kw = {"module_directory": os.path.join(root, "mods")} if path == "moddir" else {}
        lk = TemplateLookup(directories=[root], **kw)
        if path == "string":
            lk = TemplateLookup()
            for k, v in files.items():
                lk.put_string(k, v)
        try:
            lk.get_template("a.html").render_unicode(boom=boom)
            return {"kind": kind, "path": path, "problem": "did not raise"}
        except ZeroDivisionError:
            tb = exceptions.RichTraceback()
        names = [os.path.basename(str(r[4])).lstrip("/") for r in tb.records if r[4] is not None]
        del LINE0[:]
        problems = record_consistency(tb, files)
        line0 = list(LINE0)
        frames = [(os.path.basename(str(r[4])).lstrip("/"), r[5]) for r in tb.records if r[4] is not None and r[5] != 0]
        if kind in EXPECT_FRAMES and frames != EXPECT_FRAMES[kind]:
            problems.append("template frames reported as %r, the constructs are at %r" % (frames, EXPECT_FRAMES[kind]))
        if len(set(names)) < 2 or names[-1] != "a.html":
            problems.append("frames were %r: not the re-entrant shape this case is meant to produce" % names)
        if problems:
            return {"kind": kind, "path": path, "frames": names, "problem": "; ".join(problems)}
        if line0:
            return {"kind": kind, "path": path, "line0": line0}
        return None
    finally:
        shutil.rmtree(root, ignore_errors=True)


WARN_TEMPLATES = [
    ("module-level-warn", ["text", "<%!", "import warnings", "warnings.warn('planted', UserWarning)", "%>", "more"], 4),
    ("expression-literal", ["text", "", "${'\\d'}"], 3),
    ("code-block-literal", ["<%", "  p = 1", "  q = '\\d'", "%>"], 3),
    ("control-line-literal", ["a", "% if '\\d':", "x", "% endif"], 2),
]


def run_warning(args):
    kind, path, action = args
    ent = [w for w in WARN_TEMPLATES if w[0] == kind][0]
    src, expect = "\n".join(ent[1]) + "\n", ent[2]
    root = tempfile.mkdtemp(prefix="c12w_")
    cwd0 = os.getcwd()
    try:
        with warnings.catch_warnings(record=True) as rec:
            warnings.resetwarnings()
            warnings.simplefilter("always" if action != "once" else "once")
            if action == "error":
                warnings.simplefilter("error")
            try:
                t, fname = make(path, root, src, name="w_%s.html" % kind.replace("-", "_"))
                t.render_unicode()
                raised = None
            except Warning as e:
                raised = e
            except Exception as e:
                if isinstance(getattr(e, "__cause__", None), Warning) or "planted" in str(e) or "invalid escape" in str(e):
                    raised = e
                else:
                    return {"warning": kind, "path": path, "action": action, "problem": "%s: %s" % (type(e).__name__, str(e)[:120])}
        if action == "error":
            if raised is None:
                return {"warning": kind, "path": path, "action": action, "problem": "filter action error did not raise"}
            return None
        mine = [w for w in rec if "planted" in str(w.message) or "invalid escape" in str(w.message)]
        if len(mine) != 1:
            return {"warning": kind, "path": path, "action": action, "problem": "shown %d times: %r" % (len(mine), [(w.filename, w.lineno) for w in mine])}
        w = mine[0]
        base = "w_%s.html" % kind.replace("-", "_")
        if not str(w.filename).endswith(base):
            return {"warning": kind, "path": path, "action": action, "problem": "shown against %r, not the template" % (w.filename,)}
        if w.lineno != expect:
            return {"warning": kind, "path": path, "action": action, "problem": "shown at line %r, the literal is on template line %d" % (w.lineno, expect)}
        return None
    finally:
        os.chdir(cwd0)
        shutil.rmtree(root, ignore_errors=True)
