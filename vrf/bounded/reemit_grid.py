"""Bounded stand-in for C19: (a) expressions from a grammar over CPython's ast, re-emitted by Mako's
ExpressionGenerator, must parse back to the same AST; (b) FindIdentifiers against symtable; (c) re-margined
blocks against native execution."""
from __future__ import annotations

import ast
import warnings
warnings.filterwarnings("ignore", category=SyntaxWarning)
import itertools
import random
import symtable
import textwrap

ATOMS = ["a", "b", "1", "2.5", "'s'", '"q\\"x"', "None", "True", "b'by'", "...", "1j", "'it''s'", "'''tri\nple'''", "r'\\d'", "0x1f"]
BINOPS = ["+", "-", "*", "/", "//", "%", "<<", ">>", "|", "&", "^", "**", "@"]
CMPOPS = ["==", "!=", "<", "<=", ">", ">=", "in", "not in", "is", "is not"]
UNOPS = ["-", "+", "~", "not "]


def gen(depth, rnd):
    if depth <= 0 or rnd.random() < 0.15:
        return rnd.choice(ATOMS)
    k = rnd.randrange(22)
    g = lambda: gen(depth - 1, rnd)
    if k == 0:
        return "%s %s %s" % (g(), rnd.choice(BINOPS), g())
    if k == 1:
        return "(%s) %s (%s)" % (g(), rnd.choice(BINOPS), g())
    if k == 2:
        return "%s(%s)" % (rnd.choice(UNOPS), g())
    if k == 3:
        return "%s %s %s" % (g(), rnd.choice(CMPOPS), g())
    if k == 4:
        return "%s %s %s %s %s" % (g(), rnd.choice(CMPOPS), g(), rnd.choice(CMPOPS), g())
    if k == 5:
        return "%s %s %s" % (g(), rnd.choice(["and", "or"]), g())
    if k == 6:
        return "(%s if %s else %s)" % (g(), g(), g())
    if k == 7:
        return "f(%s, k=%s, *%s, **%s)" % (g(), g(), g(), g())
    if k == 8:
        return "a.attr.b"
    if k == 9:
        return "a[%s]" % g()
    if k == 10:
        return rnd.choice(["a[%s:%s]", "a[%s:%s:2]", "a[::%s] + a[%s:]", "a[%s, %s]", "a[1:2, ::%s][%s]"]) % (g(), g())
    if k == 11:
        return "[%s, %s]" % (g(), g())
    if k == 12:
        return "(%s, %s)" % (g(), g())
    if k == 13:
        return "(%s,)" % g()
    if k == 14:
        return "{%s: %s, %s: %s}" % (g(), g(), g(), g())
    if k == 15:
        return "{%s, %s}" % (g(), g())
    if k == 16:
        return "(lambda x, y=%s, *r, z, **kw: %s)" % (g(), g())
    if k == 17:
        return rnd.choice(["[%s for i in %s]", "[%s for i in %s if i]", "{i: %s for i in %s}", "{%s for i in %s}", "list(%s for i in %s)",
                           "[%s for i in %s for j in i]"]) % (g(), g())
    if k == 18:
        return rnd.choice(["f'{a}'", "f'x{a!r:>5}y'", "f'{a + 1}{b}'", "f'{{literal}}{a}'"])
    if k == 19:
        return "[*%s, %s]" % (g(), g())
    if k == 20:
        return "{**%s, 'k': %s}" % (g(), g())
    return "(y := %s)" % g()


def norm(tree):
    return ast.dump(tree, annotate_fields=True, include_attributes=False)


def reemit_case(args):
    warnings.filterwarnings("ignore", category=SyntaxWarning)
    warnings.filterwarnings("ignore", category=DeprecationWarning)
    seed, depth = args
    from mako import pyparser, _ast_util
    rnd = random.Random(seed)
    out = []
    for _ in range(40):
        src = gen(depth, rnd)
        try:
            want = ast.parse(src, mode="eval")
        except SyntaxError:
            continue
        try:
            got_src = pyparser.ExpressionGenerator(want.body).value()
        except Exception as e:
            out.append({"expression": src, "problem": "re-emission raised %s: %s" % (type(e).__name__, str(e)[:80])})
            continue
        if not isinstance(got_src, str):
            out.append({"expression": src, "problem": "re-emission produced %r" % (got_src,)})
            continue
        try:
            got = ast.parse(got_src.strip(), mode="eval")
        except SyntaxError as e:
            out.append({"expression": src, "reemitted": got_src, "problem": "re-emitted text does not parse: %s" % e})
            continue
        if norm(got) != norm(want):
            out.append({"expression": src, "reemitted": got_src, "problem": "re-emitted text means something else"})
    return out


def template_position_case(args):
    warnings.filterwarnings("ignore", category=SyntaxWarning)
    warnings.filterwarnings("ignore", category=DeprecationWarning)
    """the same through the template: as an argument default and as a filter argument"""
    seed, depth = args
    from mako.template import Template
    rnd = random.Random(seed)
    out = []
    env = {"a": [1, 2, 3, 4], "b": 3, "f": lambda *x, **k: 7}
    for _ in range(12):
        src = gen(depth, rnd)
        if "\n" in src or '"' in src or ":=" in src or "lambda" in src:
            continue
        try:
            want = repr(eval(src, dict(env)))
        except Exception:
            continue
        try:
            got = Template('<%%!\na = [1, 2, 3, 4]\nb = 3\nf = lambda *x, **k: 7\n%%><%%def name="d(v=%s)">${repr(v)}</%%def>${d()}' % src).render_unicode()
        except Exception as e:
            got = "%s: %s" % (type(e).__name__, str(e)[:80])
        if got != want:
            out.append({"expression": src, "position": "argument default", "expected": want, "got": got})
        # as the default of a def nested in a def, its names coming from the context: the lookups have to be in place
        # before the inner def is defined, whether its name sorts before or after theirs
        for inner in ("A0", "zz"):
            try:
                got3 = Template('<%%def name="outer()"><%%def name="%s(v=%s)">${repr(v)}</%%def>${%s()}</%%def>${outer()}'
                                % (inner, src, inner)).render_unicode(**env)
            except Exception as e:
                got3 = "%s: %s" % (type(e).__name__, str(e)[:80])
            if got3 != want:
                out.append({"expression": src, "position": "default of a nested def named %s, names from the context" % inner, "expected": want, "got": got3})
        # ... and under the name of the parameter itself (the `x=x` idiom: the default is read in the enclosing scope)
        if "a" in src.replace("lambda", ""):
            try:
                got5 = Template('<%%def name="outer()"><%%def name="zz(a=%s)">${repr(a)}</%%def>${zz()}</%%def>${outer()}' % src).render_unicode(**env)
            except Exception as e:
                got5 = "%s: %s" % (type(e).__name__, str(e)[:80])
            if got5 != want:
                out.append({"expression": src, "position": "default of a nested def's parameter a that reads the outer a", "expected": want, "got": got5})
        # ... and as the default of a keyword-only parameter of a nested def
        try:
            got4 = Template('<%%def name="outer()"><%%def name="zz(*rest, v=%s)">${repr(v)}</%%def>${zz()}</%%def>${outer()}' % src).render_unicode(**env)
        except Exception as e:
            got4 = "%s: %s" % (type(e).__name__, str(e)[:80])
        if got4 != want:
            out.append({"expression": src, "position": "keyword-only default of a nested def, names from the context", "expected": want, "got": got4})
        try:
            got2 = Template("${'x' | wrap(%s)}" % src).render_unicode(wrap=lambda v: (lambda s: repr(v)), **env)
        except Exception as e:
            got2 = "%s: %s" % (type(e).__name__, str(e)[:80])
        if got2 != want:
            out.append({"expression": src, "position": "filter argument", "expected": want, "got": got2})
    return out


STMTS = [
    "x = a + 1", "x += a", "for i in seq:\n    t = i + k", "while c:\n    c = c - 1", "if p:\n    q = 1\nelse:\n    q = r",
    "try:\n    u = v\nexcept ValueError as e:\n    w = e\nfinally:\n    z = 1", "with cm as h:\n    g = h", "import os", "import os.path as op", "from os import path as pp, sep",
    "def fn(p1, p2=d1, *va, k1, k2=d2, **kw):\n    loc = p1 + fr\n    return loc",
    "def fn2(p1, /, p2, *va, k1, **kw):\n    return (p1, p2, va, k1, kw, outer2)", "lam2 = lambda *va, k1=dk, **kw: (va, k1, kw, fl2)",
    "def fn3():\n    return [e + o3 for e in s3 if e > o4]", "def fn4():\n    return {k: v4 for k in s4}", "lam3 = lambda: (g + o5 for g in s5)",
    "def fn5(x=d5, *, y=d6):\n    pass", "lam = lambda m, n=dn: m + n + fl", "lc = [e1 + o1 for e1 in src1 if e1 > o2]",
    "dc = {k1: v1 for k1, v1 in items}", "gen = (g1 for g1 in (g2 for g2 in src2))", "sc = {s1 for s1 in src3}", "x = [y for y in [z for z in zz]]",
    "global gg\ngg = 1", "a, (b, *c) = val", "x = y = yy", "print(x1)\nx1 = 5",
    "async def co():\n    await aw", "lambda: (yield)", "nested = lambda: [q for q in qq if (lambda w: w + ww)(q)]", "f'{fs!r}'", "assert cond, msg",
    "with open(fname) as f1, open(f2n) as f2:\n    pass", "for i, (j, k) in pairs:\n    pass", "try:\n    pass\nexcept (A, B):\n    pass", "x = [i for i in range(3)]\ny = i",
    "def outer():\n    def inner():\n        return free1\n    return inner", "ret = (lambda: defarg)()", "def g(x=dflt):\n    pass", "match_ = 1",
]


STMTS += [
    "def scaled(seq):\n    double = lambda n: n * 2\n    return [double(s) + n for s in seq]",
    "def outer1(a1):\n    def inner1(b1):\n        return b1\n    return inner1(a1) + b1",
    "def outer2():\n    f2 = lambda p2: p2\n    g2 = lambda: p2\n    return f2, g2",
    "def outer3():\n    def in3(q3=1):\n        loc3 = q3\n        return loc3\n    return loc3, q3",
    "lam4 = lambda u4: (lambda v4: v4)(u4) + v4",
    "def outer5():\n    r5 = [c5 for c5 in src5]\n    return c5",
]


# every statement field that holds a block: names read or bound only in an else / elif / finally / handler clause
STMTS += [
    "for i6 in seq6:\n    pass\nelse:\n    fe6 = ge6",
    "while c7:\n    c7 = 0\nelse:\n    we7 = ge7",
    "try:\n    pass\nexcept E8:\n    h8 = g8\nelse:\n    te8 = ge8\nfinally:\n    tf8 = gf8",
    "if p9:\n    pass\nelif q9:\n    ie9 = ge9\nelse:\n    ie9b = ge9b",
    "for a10 in s10:\n    for b10 in a10:\n        pass\n    else:\n        n10 = g10\nelse:\n    m10 = h10",
    "with w11 as v11:\n    pass\nelse_free = g11",
]


# a comprehension whose loop variable is also read by its own (or an earlier generator's) iterable, inside a
# function or lambda: the iterable is evaluated before the variable is bound, so the name is read from outside
STMTS += [
    "def fn12():\n    return [it12 for it12 in it12]",
    "lam12 = lambda: [x12 * 2 for x12 in x12]",
    "def fn13():\n    return [c13 for c13 in c13.kids for c13 in c13.kids]",
    "def fn14():\n    return {k14: 1 for k14 in k14}",
    "def fn15():\n    return list(g15 for g15 in g15)",
    "def fn16():\n    return {s16 for s16 in s16 if s16}",
    "lc18 = [e18 for e18 in e18]",
]


def gen_scope_program(rnd):
    """small nested-scope programs over a tiny name pool, so that inner bindings collide with outer reads"""
    names = ["n1", "n2", "n3", "n4"]
    cvars = ["cv1", "cv2", "cv3"]
    def expr(depth):
        k = rnd.randrange(6)
        if depth <= 0 or k == 0:
            return rnd.choice(names)
        if k == 1:
            return "%s + %s" % (expr(depth - 1), expr(depth - 1))
        if k == 2:
            p = rnd.choice(names)
            return "(lambda %s: %s)(%s)" % (p, expr(depth - 1), expr(depth - 1))
        if k == 3:
            v = rnd.choice(cvars)        # comprehension variables from their own pool: CPython 3.12's inlining
            return "[%s + %s for %s in %s if %s]" % (v, expr(depth - 1), v, expr(depth - 1), expr(depth - 1))   # mis-scopes some sibling collisions
        if k == 4:
            p = rnd.choice(names)
            return "(lambda *a, %s=%s, **k: %s)()" % (p, expr(depth - 1), expr(depth - 1))
        v = rnd.choice(cvars)
        return "{%s: %s for %s in %s}" % (v, expr(depth - 1), v, expr(depth - 1))
    lines = []
    for i in range(rnd.randrange(1, 3)):
        p = rnd.choice(names)
        body = ["    t%d = %s" % (i, expr(2))]
        if rnd.random() < 0.6:
            q = rnd.choice(names)
            body.append("    def g%d(%s, *va, kw_%s=%s):" % (i, q, q, expr(1)))
            body.append("        return %s" % expr(2))
        body.append("    return %s" % expr(2))
        lines.append("def f%d(%s):" % (i, p))
        lines += body
    lines.append("res = %s" % expr(2))
    return "\n".join(lines)


def scope_random_case(seed):
    import random as _r
    rnd = _r.Random(seed)
    out = []
    for _ in range(25):
        r = identifiers_case(gen_scope_program(rnd))
        if r:
            out.append(r)
    return out


def free_names_oracle(code):
    """names the code reads without binding them (function-body scoping): what CPython's compiler resolves
    through the global namespace when the code is the body of a function - read off the bytecode, which unlike
    symtable keeps an inlined comprehension's variable apart from a free use of the same name"""
    import dis
    src = "def __mako_body():\n" + textwrap.indent(code, "    ") + "\n"
    top = compile(src, "<c19>", "exec")
    body = next(c for c in top.co_consts if hasattr(c, "co_code") and c.co_name == "__mako_body")
    free = set()

    def walk(co):
        for ins in dis.get_instructions(co):
            if ins.opname in ("LOAD_GLOBAL", "LOAD_NAME"):
                free.add(ins.argval)
        for c in co.co_consts:
            if hasattr(c, "co_code"):
                walk(c)
    walk(body)
    return free


def identifiers_case(code):
    warnings.filterwarnings("ignore", category=SyntaxWarning)
    warnings.filterwarnings("ignore", category=DeprecationWarning)
    from mako import ast as mast
    import builtins
    try:
        pc = mast.PythonCode(code, source="", lineno=1, pos=1, filename=None)
    except Exception as e:
        return {"code": code, "problem": "analysis raised %s: %s" % (type(e).__name__, str(e)[:100])}
    got = set(pc.undeclared_identifiers)
    want = free_names_oracle(code) - {"print", "True", "False", "None"}          # names Mako reserves (resolved as builtins at run time)
    # names bound at the block's own level are the block's (mako keeps read-before-assignment names in both sets)
    got_eff = got - set(pc.declared_identifiers)
    want_eff = want - set(pc.declared_identifiers)
    miss = want_eff - got_eff
    extra = got_eff - want_eff
    if miss or extra:
        return {"code": code, "problem": ("names read from outside but not demanded from the context: %s; " % sorted(miss) if miss else "")
                + ("names the code binds itself but demanded from the context: %s" % sorted(extra) if extra else "")}
    return None


BLOCKS = [
    "s = '''multi\n   line\n string'''\nr = len(s)",
    "t = 'a' \\\n    'b'\nr = t",
    "if True:\n    r = 'x # not a comment'\nelse:\n    r = 0",
    "def f():\n    return '''in\n  def'''\nr = f()",
    "r = [1,\n     2,\n  3]",
    "r = \"\"\"dq\n\ttabbed\n\"\"\"",
    "for i in range(2):\n    if i:\n        r = i\n    # comment at inner margin\n# comment at margin\n",
    "r = 'backslash \\\\ and quote \\' end'",
    "x = 1\n\n\ny = 2\nr = x + y",
    "r = '''\n'''",
    "class K:\n    v = '''k\n  v'''\nr = K.v",
    "r = (1 +\n2)",
    'r = """first\n   has \'\'\' inside\n      third line\n"""',
    "r = \'\'\'first\n   has \"\"\" inside\n      third\n\'\'\'\nz = 1",
    'if True:\n    r = """a\n  \'\'\'\n    b"""\nelse:\n    r = 0',
    'r = """one \'\'\' two \'\'\' three\n   next"""',
]


def margin_case(args):
    warnings.filterwarnings("ignore", category=SyntaxWarning)
    warnings.filterwarnings("ignore", category=DeprecationWarning)
    bi, margin = args
    from mako.template import Template
    code = BLOCKS[bi]
    ind = "\n".join((margin + l) if l.strip() else l for l in code.split("\n"))
    # what Python means by this text: the body of a compound statement written at that indentation
    # (continuation lines inside a string literal keep every character, margin included)
    ns = {}
    exec(("if True:\n" + ind) if margin else ind, ns)
    want = ns["r"]
    try:
        t = Template("<%\n" + ind + "\n%>${repr(r)}")
        got = t.render_unicode().strip()
    except Exception as e:
        got = "%s: %s" % (type(e).__name__, str(e)[:100])
    if got != repr(want):
        return {"block": code, "margin": margin, "expected": repr(want), "got": got}
    return None
