"""Bounded stand-in for C18: codecs x declaration style x construction path x output encoding."""
from __future__ import annotations

import codecs
import os
import shutil
import tempfile

SAMPLES = {
    "ascii": "abc~", "utf-8": "é€日本ü", "latin-1": "éüñ", "cp1251": "Привет", "cp1252": "€éœ", "koi8-r": "Привет мир",
    "shift_jis": "日本語ｶﾅソ", "euc-jp": "日本語かな", "gb2312": "中文简体", "iso-8859-15": "€éŠ",
}
OTHER = {"ascii": "latin-1", "utf-8": "latin-1", "latin-1": "cp1251", "cp1251": "koi8-r", "cp1252": "latin-1", "koi8-r": "cp1251",
         "shift_jis": "euc-jp", "euc-jp": "shift_jis", "gb2312": "latin-1", "iso-8859-15": "cp1251"}


def body(sample):
    return ("text @S@\n"
            "${'@S@' + x}\n"
            "<% y = '@S@!' %>${y}\n"
            "<%def name=\"d(z='@S@')\">${z}</%def>${d()}\n"
            "## comment @S@\n"
            "<%text>@S@ ${raw}</%text>\n").replace("@S@", sample)


def cases():
    for codec, sample in SAMPLES.items():
        for decl in ("comment", "input_encoding", "both-agree", "both-conflict", "none", "bom", "bom+comment", "bom+comment-UTF-8", "bom+comment-utf8", "bom+conflicting-comment", "undecodable"):
            if decl == "none" and codec not in ("ascii", "utf-8"):
                continue
            if decl.startswith("bom") and codec != "utf-8":
                continue
            for path in ("bytes", "file", "moddir", "reloaded"):
                yield codec, decl, path
                if decl in ("comment", "input_encoding", "bom"):
                    yield codec, decl, path, True          # the same with CRLF line ends


def run_case(args):
    from mako.template import Template
    from mako import exceptions
    codec, decl, path = args[:3]
    crlf = len(args) > 3 and args[3]
    sample = SAMPLES[codec]
    text = body(sample)
    comment = "## -*- coding: %s -*-\n" % codec
    if crlf:
        # the same template with CRLF line ends: what Template.source returns is the decoded text, line ends included
        text = text.replace("\n", "\r\n")
        comment = comment.replace("\n", "\r\n")
    kw = {}
    expect_error = False
    if decl == "comment":
        raw = (comment + text).encode(codec)
    elif decl == "input_encoding":
        raw = text.encode(codec)
        kw["input_encoding"] = codec
    elif decl == "both-agree":
        raw = (comment + text).encode(codec)
        kw["input_encoding"] = codec
    elif decl == "both-conflict":
        raw = (comment + text).encode(codec)
        kw["input_encoding"] = OTHER[codec]          # the comment takes precedence
    elif decl == "none":
        raw = text.encode(codec)
    elif decl == "bom":
        raw = codecs.BOM_UTF8 + text.encode("utf-8")
    elif decl == "bom+comment":
        raw = codecs.BOM_UTF8 + (comment + text).encode("utf-8")
    elif decl in ("bom+comment-UTF-8", "bom+comment-utf8"):
        # the same codec under another of its registered names does not contradict the BOM
        raw = codecs.BOM_UTF8 + ("## -*- coding: %s -*-\n" % {"bom+comment-UTF-8": "UTF-8", "bom+comment-utf8": "utf8"}[decl] + text).encode("utf-8")
    elif decl == "bom+conflicting-comment":
        raw = codecs.BOM_UTF8 + ("## -*- coding: latin-1 -*-\n" + text).encode("utf-8")
        expect_error = True
    elif decl == "undecodable":
        bad = {"ascii": b"\xff", "utf-8": b"\xff\xfe", "shift_jis": b"\x81", "euc-jp": b"\x8e", "gb2312": b"\xa1", "cp1251": b"\x98", "cp1252": b"\x81",
               }.get(codec)
        if bad is None:
            return None                     # every byte sequence decodes in this codec
        raw = (comment + text).encode(codec) + bad + b"\n"
        expect_error = True
    reference = Template(text).render_unicode(x="X")             # the decoded text compiled directly
    root = tempfile.mkdtemp(prefix="c18_")
    try:
        def make():
            if path == "bytes":
                return Template(raw, **kw)
            fn = os.path.join(root, "t.html")
            with open(fn, "wb") as f:
                f.write(raw)
            if path == "file":
                return Template(filename=fn, **kw)
            md = os.path.join(root, "mods")
            t = Template(filename=fn, module_directory=md, **kw)
            if path == "reloaded":
                t = Template(filename=fn, module_directory=md, **kw)
            return t
        try:
            t = make()
        except exceptions.CompileException as e:
            if expect_error:
                return None
            return {"codec": codec, "declaration": decl, "path": path, "problem": "CompileException: %s" % str(e)[:150]}
        except Exception as e:
            return {"codec": codec, "declaration": decl, "path": path, "problem": "%s: %s" % (type(e).__name__, str(e)[:150])}
        if expect_error:
            return {"codec": codec, "declaration": decl, "path": path, "problem": "compiled although the input is %s" % decl}
        out = t.render_unicode(x="X")
        if out != reference:
            return {"codec": codec, "declaration": decl, "path": path, "problem": "renders %r, the decoded text renders %r" % (out[:80], reference[:80])}
        # Template.source: the template's own decoded text (a leading U+FEFF of BOM input is left aside)
        eff = "utf-8" if decl.startswith("bom") else (codec if decl != "none" or codec in ("ascii", "utf-8") else None)
        if eff is not None:
            want_src = raw.decode(eff).lstrip("\ufeff")
            got_src = t.source.lstrip("\ufeff")
            if got_src != want_src:
                return {"codec": codec, "declaration": decl, "path": path, "crlf": bool(crlf),
                        "problem": "Template.source is not the decoded text: %r ... expected %r ..." % (got_src[:60], want_src[:60])}
        return None
    finally:
        shutil.rmtree(root, ignore_errors=True)


def output_cases():
    for codec, sample in SAMPLES.items():
        for errors in ("strict", "replace", "xmlcharrefreplace", "ignore", "htmlentityreplace"):
            for out_enc in (None, codec, "ascii", "utf-8"):
                yield codec, errors, out_enc
    # output codecs whose encoder is not a per-character map: a byte-order mark or shift state belongs to the whole
    # document (encoding the pieces one by one and joining them gives something else)
    for codec in ("utf-8", "latin-1", "shift_jis"):
        for errors in ("strict", "replace"):
            for out_enc in ("utf-16", "utf-32", "utf-8-sig", "iso2022_jp", "utf-7"):
                yield codec, errors, out_enc


def run_output(args):
    from mako.template import Template
    codec, errors, out_enc = args
    text = body(SAMPLES[codec])
    kw = {"encoding_errors": errors}
    if out_enc:
        kw["output_encoding"] = out_enc
    t = Template(text, **kw)
    u = t.render_unicode(x="X")
    ref = Template(text).render_unicode(x="X")
    if u != ref or not isinstance(u, str):
        return {"output_encoding": out_enc, "encoding_errors": errors, "problem": "render_unicode() depends on output_encoding"}
    try:
        exp = u.encode(out_enc, errors) if out_enc else u
        exp_exc = None
    except Exception as e:
        exp, exp_exc = None, type(e)
    try:
        r = t.render(x="X")
        got_exc = None
    except Exception as e:
        r, got_exc = None, type(e)
    if exp_exc or got_exc:
        if exp_exc is not got_exc:
            return {"output_encoding": out_enc, "encoding_errors": errors, "problem": "render() raised %s, encode raised %s" % (got_exc, exp_exc)}
        return None
    if r != exp or type(r) is not type(exp):
        return {"output_encoding": out_enc, "encoding_errors": errors, "codec": codec, "problem": "render() returned %r, expected %r" % (r[:60], exp[:60])}
    return None
