"""./vcheck check <ID> [--tier quick|thorough]   |   ./vcheck replay <path>"""
from __future__ import annotations

import argparse
import importlib
import json
import os
import sys
import traceback

from .core import Report, VERIF, REPO


def load_contracts():
    d = os.path.join(VERIF, "contracts")
    for f in sorted(os.listdir(d)):
        if f.endswith(".py") and f != "__init__.py":
            importlib.import_module("contracts." + f[:-3])


def main(argv=None):
    ap = argparse.ArgumentParser()
    sub = ap.add_subparsers(dest="cmd", required=True)
    c = sub.add_parser("check")
    c.add_argument("prop")
    c.add_argument("--tier", default=os.environ.get("VERIF_TIER", "quick"))
    b = sub.add_parser("baseline")
    b.add_argument("prop")
    r = sub.add_parser("replay")
    r.add_argument("path")
    a = ap.parse_args(argv)
    if a.cmd == "check":
        seed = int(os.environ.get("VERIF_SEED", "0") or 0)
        tier = a.tier if a.tier in ("quick", "thorough") else "quick"
        try:
            load_contracts()
            mod = importlib.import_module("props." + a.prop)
            rep = Report(a.prop, tier, seed, level=(getattr(mod, "META", None) or {}).get("level") or getattr(mod, "LEVEL", "proof"))
            mod.run(rep, tier)
            code = rep.finish()
        except Exception:
            traceback.print_exc()
            print("CHECKER-FAILURE property=%s (crash in the checker, not a verdict)" % a.prop)
            code = 3
        sys.exit(code)
    if a.cmd == "baseline":
        # development command: record which obligations are discharged on the (unchanged) tree
        load_contracts()
        mod = importlib.import_module("props." + a.prop)
        rep = Report(a.prop, "thorough", 0, level=(getattr(mod, "META", None) or {}).get("level") or getattr(mod, "LEVEL", "proof"))
        mod.run(rep, "thorough")
        rep.finish()
        ids = sorted(r.oid for r in rep.results if r.status == "discharged" and r.klass in ("P", "L"))
        os.makedirs(os.path.join(VERIF, "baseline"), exist_ok=True)
        with open(os.path.join(VERIF, "baseline", a.prop + ".json"), "w") as f:
            json.dump({"property": a.prop, "discharged": ids}, f, indent=0)
        print("baseline written: %d obligations" % len(ids))
        sys.exit(0)
    if a.cmd == "replay":
        from .replay import replay_file
        sys.exit(replay_file(a.path))


if __name__ == "__main__":
    main()
