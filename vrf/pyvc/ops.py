"""Primitive operations on symbolic values shared by the code executor and the
spec evaluator: truthiness, equality, arithmetic, sequences, strings."""
from __future__ import annotations

import z3

from .types import (Ty, V, INT, BOOL, REAL, STR, BYTES, ANY, NONE, SEQ, sort_of,
                    vint, vbool, vstr, vnone, vtuple, vopt, vreal, fresh)
from .state import (State, Unsupported, box, coerce, is_listlike, is_dictlike,
                    elem_ty, dict_tys)
from . import spec as S

_ufs = {}


def UF(name, *sorts):
    f = _ufs.get(name)
    if f is None:
        f = z3.Function(name, *sorts)
        _ufs[name] = f
    return f


def any_truthy(t):
    return UF("truthy_any", z3.IntSort(), z3.BoolSort())(t)


def as_seq(st: State, v: V) -> V:
    """Sequence value of a list reference / tuple / sequence."""
    if v.ty.kind == "seq":
        return v
    if is_listlike(v.ty):
        return st.list_get(v)
    if v.ty.kind == "tuple":
        if not v.items:
            return V(SEQ(NONE), None)
        et = v.items[0].ty
        items = [coerce(i, et) for i in v.items]
        t = z3.Unit(items[0].t)
        for i in items[1:]:
            t = z3.Concat(t, z3.Unit(i.t))
        return V(SEQ(et), t)
    raise Unsupported("not a sequence: %s" % v.ty)


def seq_term(v: V, elem: Ty):
    if v.t is None:
        return z3.Empty(z3.SeqSort(sort_of(elem)))
    return v.t


def truthy(st: State, v: V):
    k = v.ty.kind
    if k == "bool":
        return v.t
    if k == "int":
        return v.t != 0
    if k == "real":
        return v.t != 0
    if k in ("str", "bytes"):
        return z3.Length(v.t) > 0
    if k == "none":
        return z3.BoolVal(False)
    if k == "seq":
        return z3.BoolVal(False) if v.t is None else z3.Length(v.t) > 0
    if k == "tuple":
        return z3.BoolVal(len(v.items) > 0)
    if k == "opt":
        return z3.And(z3.Not(v.isnone), truthy(st, v.val))
    if k == "list":
        return z3.Length(st.list_get(v).t) > 0
    if k == "dict":
        # non-emptiness of a dict is not derivable from the characteristic array alone
        kq = z3.Const("k!ne", sort_of(dict_tys(v.ty)[0]))
        return z3.And(v.t != 0, z3.Exists([kq], z3.Select(st.dict_get(v)[0], kq)))
    if k in ("set", "setv"):
        x = z3.Const("x!ne", sort_of(v.ty.args[0]))
        return z3.Exists([x], z3.Select(set_parts(st, v), x))
    if k == "obj":
        cs = S.CLASSES.get(v.ty.name)
        if cs and cs.listlike and "__bool__" not in cs.properties:
            return z3.Length(st.list_get(v).t) > 0
        if cs and "__bool__" in cs.properties:
            raise Unsupported("truthiness of %s goes through __bool__ (call it explicitly)" % v.ty)
        return v.t != 0
    if k in ("fun", "writer"):
        return v.t != 0
    if k == "any":
        return z3.And(v.t != 0, any_truthy(v.t))
    if k in ("class", "static", "module", "closure"):
        return z3.BoolVal(True)
    raise Unsupported("truthiness of %s" % v.ty)


def is_none(v: V):
    k = v.ty.kind
    if k == "none":
        return z3.BoolVal(True)
    if k == "opt":
        return v.isnone
    if v.ty.is_ref:
        return v.t == 0
    return z3.BoolVal(False)


def eq(st: State, a: V, b: V, spec=False):
    """Python == (spec=True: lists/dicts compare by content, as Python does;
    in code mode we also compare by content for lists since that is Python's ==)."""
    ka, kb = a.ty.kind, b.ty.kind
    if ka == "none" or kb == "none":
        other = b if ka == "none" else a
        return is_none(other)
    if ka == "opt" or kb == "opt":
        if ka != "opt":
            a = coerce(a, b.ty)
        if kb != "opt":
            b = coerce(b, a.ty)
        return z3.Or(z3.And(a.isnone, b.isnone),
                     z3.And(z3.Not(a.isnone), z3.Not(b.isnone), eq(st, a.val, b.val, spec)))
    if ka == "tuple" and kb == "tuple":
        if len(a.items) != len(b.items):
            return z3.BoolVal(False)
        return z3.And([eq(st, x, y, spec) for x, y in zip(a.items, b.items)] or [z3.BoolVal(True)])
    seqlike = lambda v: v.ty.kind in ("seq", "tuple") or is_listlike(v.ty)
    if seqlike(a) and seqlike(b):
        sa, sb = as_seq(st, a), as_seq(st, b)
        if sa.t is None and sb.t is None:
            return z3.BoolVal(True)
        et = sa.ty.args[0] if sa.t is not None else sb.ty.args[0]
        if sa.t is not None and sb.t is not None and sa.ty != sb.ty:
            raise Unsupported("comparing %s with %s" % (sa.ty, sb.ty))
        return seq_term(sa, et) == seq_term(sb, et)
    if is_dictlike(a.ty) and is_dictlike(b.ty):
        da, va = st.dict_get(a)
        db, vb = st.dict_get(b)
        return dictv_eq(da, va, db, vb, dict_tys(a.ty)[0])
    if ka == "dictv" or kb == "dictv":
        (da, va), kt = dict_parts(st, a)
        (db, vb), _ = dict_parts(st, b)
        return dictv_eq(da, va, db, vb, kt)
    if ka == "setv" or kb == "setv" or ka == "set" or kb == "set":
        return set_parts(st, a) == set_parts(st, b)
    if a.ty.is_ref and b.ty.is_ref:
        return a.t == b.t
    if a.ty.is_ref != b.ty.is_ref:
        if a.ty.kind == "any":
            return a.t == box(b).t
        if b.ty.kind == "any":
            return box(a).t == b.t
        return z3.BoolVal(False)
    if ka in ("int", "bool", "real") and kb in ("int", "bool", "real"):
        x, y = num_pair(a, b)
        return x == y
    if ka == kb:
        return a.t == b.t
    return z3.BoolVal(False)


def dictv_eq(da, va, db, vb, kt):
    k = z3.Const("k!eq", sort_of(kt))
    return z3.And(da == db, z3.ForAll([k], z3.Implies(z3.Select(da, k), z3.Select(va, k) == z3.Select(vb, k))))


def dict_parts(st, v: V):
    if v.ty.kind == "dictv":
        return (v.items[0], v.items[1]), v.ty.args[0]
    if is_dictlike(v.ty):
        return st.dict_get(v), dict_tys(v.ty)[0]
    raise Unsupported("not a dict: %s" % v.ty)


def set_parts(st, v: V):
    if v.ty.kind == "setv":
        return v.t
    if v.ty.kind == "set":
        return st.set_get(v)
    raise Unsupported("not a set: %s" % v.ty)


def dict_merge(dom, val, d2, v2, kt, vt):
    """dict.update as array combinators (no quantifiers, no lambdas)."""
    or_ = z3.Or(z3.Bool("a"), z3.Bool("b")).decl()
    x = z3.Const("x", sort_of(vt))
    ite_ = z3.If(z3.Bool("c"), x, x).decl()
    return z3.Map(or_, dom, d2), z3.Map(ite_, d2, v2, val)


def mk_dictv(kt, vt, dom, val):
    return V(Ty("dictv", (kt, vt)), items=(dom, val))


def mk_setv(et, dom):
    return V(Ty("setv", (et,)), dom)


def num_pair(a: V, b: V):
    def conv(v, to_real):
        t = v.t
        if v.ty.kind == "bool":
            t = z3.If(t, 1, 0)
        if to_real and v.ty.kind != "real":
            t = z3.ToReal(t)
        return t
    to_real = a.ty.kind == "real" or b.ty.kind == "real"
    return conv(a, to_real), conv(b, to_real)


def py_mod(x, y):
    # Python's % has the sign of the divisor; z3's mod is Euclidean (non-negative).
    m = x % y
    return z3.If(y > 0, m, z3.If(m == 0, 0, m + y))


def py_floordiv(x, y):
    q = x / y   # z3 integer division: x = y*q + r with 0 <= r < |y|
    return z3.If(y > 0, q, z3.If(x % y == 0, q, q - 1))


def binop(st: State, op: str, a: V, b: V, spec=False, alloc=None) -> V:
    ka, kb = a.ty.kind, b.ty.kind
    num = ("int", "bool", "real")
    if ka in num and kb in num:
        x, y = num_pair(a, b)
        ty = REAL if (ka == "real" or kb == "real") else INT
        if op == "+":
            return V(ty, x + y)
        if op == "-":
            return V(ty, x - y)
        if op == "*":
            return V(ty, x * y)
        if op == "//" and ty == INT:
            return V(INT, py_floordiv(x, y))
        if op == "%" and ty == INT:
            return V(INT, py_mod(x, y))
        if op == "/":
            x, y = (z3.ToReal(x) if ty == INT else x), (z3.ToReal(y) if ty == INT else y)
            return V(REAL, x / y)
        raise Unsupported("numeric op %s" % op)
    if ka in ("str", "bytes") and ka == kb and op == "+":
        r = z3.Concat(a.t, b.t)
        if st is not None and ka == "str" and not spec:
            # newline accounting: count(a + b, NL) = count(a, NL) + count(b, NL) (NL is one character); literal sides counted outright
            from .speceval import count_fn
            nl = z3.StringVal("\n")
            def cnt(t):
                ts = z3.simplify(t)
                if z3.is_string_value(ts):
                    import re as _re
                    raw = _re.sub(r"\\u\{([0-9a-fA-F]+)\}", lambda m: chr(int(m.group(1), 16)), ts.as_string())
                    return z3.IntVal(raw.count("\n"))
                return count_fn()(t, nl)
            if z3.is_string_value(z3.simplify(a.t)) or z3.is_string_value(z3.simplify(b.t)):
                st.assume(count_fn()(r, nl) == cnt(a.t) + cnt(b.t))
        return V(a.ty, r)
    if ka == "str" and op == "%" and kb == "tuple" and all(i.ty.kind == "str" for i in b.items):
        # %-formatting with a tuple of strings: an opaque function of the template and each operand
        f = UF("fmt_strs%d" % len(b.items), *([z3.StringSort()] * (len(b.items) + 2)))
        return V(STR, f(a.t, *[i.t for i in b.items]))
    if ka == "str" and op == "%" and kb == "str" and z3.is_string_value(z3.simplify(a.t)):
        tmpl = z3.simplify(a.t).as_string()
        if tmpl.count("%") == 1 and tmpl.count("%s") == 1:
            # 'lit%slit' % <str>: exactly the concatenation (operand is a str, so %s inserts it unchanged)
            pre, post = tmpl.split("%s")
            return V(STR, z3.Concat(z3.StringVal(pre), b.t, z3.StringVal(post)))
    if ka == "str" and op == "%":
        # %-formatting: value is an opaque function of the operands
        return V(STR, UF("fmt_%s" % b.ty.kind, z3.StringSort(), z3.IntSort(), z3.StringSort())(a.t, box(b).t))
    if ka == "str" and kb == "int" and op == "*":
        r = UF("str_repeat", z3.StringSort(), z3.IntSort(), z3.StringSort())(a.t, b.t)
        if st is not None and z3.is_string_value(z3.simplify(a.t)) and len(z3.simplify(a.t).as_string()) == 1:
            # c * n for a one-character literal: n copies (none for n <= 0)
            from .speceval import count_fn
            n = z3.If(b.t < 0, 0, b.t)
            st.assume(z3.Length(r) == n)
            st.assume(count_fn()(r, a.t) == n)
        return V(STR, r)
    seqlike = lambda v: v.ty.kind in ("seq", "tuple") or is_listlike(v.ty)
    if seqlike(a) and seqlike(b) and op == "+":
        sa, sb = as_seq(st, a), as_seq(st, b)
        if sa.t is None:
            r = sb
        elif sb.t is None:
            r = sa
        else:
            if sa.ty != sb.ty:
                if sa.ty.args[0].kind == "any":
                    raise Unsupported("concat %s + %s" % (sa.ty, sb.ty))
                raise Unsupported("concat %s + %s" % (sa.ty, sb.ty))
            r = V(sa.ty, z3.Concat(sa.t, sb.t))
        if spec or alloc is None:
            return r
        return alloc(r)
    raise Unsupported("binop %s on %s, %s" % (op, a.ty, b.ty))


def compare(st: State, op: str, a: V, b: V, spec=False):
    if op == "==":
        return eq(st, a, b, spec)
    if op == "!=":
        return z3.Not(eq(st, a, b, spec))
    if op in ("is", "is not"):
        if a.ty.kind == "none" or b.ty.kind == "none":
            r = is_none(b if a.ty.kind == "none" else a)
        elif a.ty.is_ref and b.ty.is_ref:
            r = a.t == b.t
        elif a.ty.kind == "opt" or b.ty.kind == "opt":
            r = eq(st, a, b, spec)
        elif a.ty.kind == b.ty.kind == "bool":
            r = a.t == b.t
        elif a.ty.is_ref and b.ty.kind == "bool":
            # `x is True` on an opaque value: identity with the boxed singleton
            r = a.t == box(b).t
        else:
            raise Unsupported("identity of %s and %s" % (a.ty, b.ty))
        return r if op == "is" else z3.Not(r)
    if op in ("<", "<=", ">", ">="):
        if a.ty.kind in ("int", "bool", "real") and b.ty.kind in ("int", "bool", "real"):
            x, y = num_pair(a, b)
            return {"<": x < y, "<=": x <= y, ">": x > y, ">=": x >= y}[op]
        raise Unsupported("ordering of %s and %s" % (a.ty, b.ty))
    if op in ("in", "not in"):
        r = contains(st, b, a)
        return r if op == "in" else z3.Not(r)
    raise Unsupported("compare op %s" % op)


def contains(st: State, container: V, item: V):
    k = container.ty.kind
    if is_dictlike(container.ty) or k == "dictv":
        (dom, _), kt = dict_parts(st, container)
        return z3.Select(dom, coerce(item, kt).t)
    if k in ("set", "setv"):
        return z3.Select(set_parts(st, container), coerce(item, container.ty.args[0]).t)
    if k == "tuple":
        return z3.Or([eq(st, i, item) for i in container.items] or [z3.BoolVal(False)])
    if k == "seq" or is_listlike(container.ty):
        s = as_seq(st, container)
        if s.t is None:
            return z3.BoolVal(False)
        it = coerce(item, s.ty.args[0])
        return z3.Contains(s.t, z3.Unit(it.t))
    if k == "str":
        return z3.Contains(container.t, item.t)
    raise Unsupported("membership in %s" % container.ty)


def seq_index(s: V, i, n=None):
    """s[i] for a z3 int i that is already known to be in range (non-negative)."""
    return V(s.ty.args[0], s.t[i])


def norm_index(length, i):
    return z3.If(i < 0, length + i, i)


def clamp_slice(length, lo, hi):
    """Python slice bound normalisation for step 1."""
    def cl(x):
        x = z3.If(x < 0, x + length, x)
        return z3.If(x < 0, 0, z3.If(x > length, length, x))
    lo2 = z3.IntVal(0) if lo is None else cl(lo)
    hi2 = length if hi is None else cl(hi)
    return lo2, hi2


def slice_seq(t, lo, hi):
    length = z3.Length(t)
    lo2, hi2 = clamp_slice(length, lo, hi)
    return z3.SubSeq(t, lo2, z3.If(hi2 - lo2 < 0, 0, hi2 - lo2))


def card(dom):
    """number of keys of a dict domain (uninterpreted; facts are emitted at the mutation sites: CARD rule)"""
    return UF("card_%s" % dom.sort().domain(), dom.sort(), z3.IntSort())(dom)


def card_store_facts(st, dom, k, flag):
    """facts relating card before/after  dom[k] := flag"""
    new = z3.Store(dom, k, z3.BoolVal(flag))
    c0, c1 = card(dom), card(new)
    if flag:
        st.assume(c1 == c0 + z3.If(z3.Select(dom, k), 0, 1))
    else:
        st.assume(c1 == c0 - z3.If(z3.Select(dom, k), 1, 0))
    st.assume(c0 >= 0)
    st.assume(c1 >= 0)
    st.assume(z3.Implies(z3.Select(dom, k), c0 >= 1))
    return new
