"""Native side of the contracts: evaluate the same clauses on real Python
objects, build real objects from SMT counter-models (replay) and from
small-scope enumeration (bounded stand-in / contract sanity)."""
from __future__ import annotations

import ast
import copy
import importlib
import itertools
import re

import z3

from . import spec as S
from .types import Ty, parse_ty
from .speceval import parse_expr


class NativeUnsupported(Exception):
    pass


NATIVE_FUNS = {}      # funspec name -> list of factories(envdict) -> python callable/iterable
NATIVE_SPEC = {}      # spec function name -> python implementation(ne, *args)


def native_fun(name):
    def deco(f):
        NATIVE_FUNS.setdefault(name, []).append(f)
        return f
    return deco


def native_spec(name):
    def deco(f):
        NATIVE_SPEC[name] = f
        return f
    return deco


class Opaque:
    """A stand-in for an arbitrary Python object ('Any')."""

    def __init__(self, n, truthy=True):
        self.n = n
        self.truthy = truthy

    def __bool__(self):
        return self.truthy

    def __repr__(self):
        return "<opaque#%s%s>" % (self.n, "" if self.truthy else " falsy")

    def __deepcopy__(self, memo):
        c = Opaque(self.n, self.truthy)
        memo[id(self)] = c
        return c


PRIMS = (int, float, str, bytes, bool, type(None))


def snap_copy(x, memo):
    """Structural deep copy that never calls user hooks (__getattr__, __deepcopy__, __reduce__)."""
    import collections
    import types as _t
    if isinstance(x, PRIMS):
        return x
    if id(x) in memo:
        return memo[id(x)]
    memo.setdefault("__alive__", []).append(x)     # keep originals alive: ids must stay unique
    if isinstance(x, Opaque):
        c = Opaque(x.n, x.truthy)
        memo[id(x)] = c
        return c
    if isinstance(x, (_t.FunctionType, _t.GeneratorType, type, _t.ModuleType)):
        return x
    if isinstance(x, (_t.BuiltinMethodType, _t.MethodType)) and getattr(x, "__self__", None) is not None \
            and not isinstance(x.__self__, _t.ModuleType):
        owner = snap_copy(x.__self__, memo)
        try:
            return getattr(owner, x.__name__)
        except Exception:
            return x
    if type(x) is tuple:
        return tuple(snap_copy(i, memo) for i in x)
    if type(x) is collections.deque:
        c = collections.deque()
        memo[id(x)] = c
        c.extend(snap_copy(i, memo) for i in x)
        return c
    if type(x) in (set, frozenset):
        return type(x)(snap_copy(i, memo) for i in x)
    cls = type(x)
    try:
        c = cls.__new__(cls)
    except Exception:
        return x
    memo[id(x)] = c
    if isinstance(x, list):
        list.extend(c, [snap_copy(i, memo) for i in list.__iter__(x)])
    if isinstance(x, dict):
        for k, v in dict.items(x):
            dict.__setitem__(c, snap_copy(k, memo), snap_copy(v, memo))
    try:
        d = object.__getattribute__(x, "__dict__")
    except AttributeError:
        d = None
    if d:
        cd = object.__getattribute__(c, "__dict__")
        for k, v in d.items():
            cd[k] = snap_copy(v, memo)
    return c


class Snapshot:
    """Deep copy of the arguments with a two-way identity map."""

    def __init__(self, env):
        self.memo = {}
        self.old_env = snap_copy(env, self.memo)
        self.keep = env          # keep originals alive so ids stay unique
        self.back = {}
        for k, v in list(self.memo.items()):
            if isinstance(k, int) and not isinstance(v, PRIMS):
                self.back[id(v)] = k          # id(copy) -> id(original)
        self.orig_ids = {k for k in self.memo if isinstance(k, int)}

    def norm(self, x):
        """identity token of an object, mapping pre-state copies to their originals."""
        return self.back.get(id(x), id(x))


class NativeEval:
    def __init__(self, env, snap: Snapshot = None, in_old=False):
        self.env = env
        self.snap = snap
        self.in_old = in_old

    def truth(self, src):
        return bool(self.ev(parse_expr(src)))

    def ev(self, n):
        m = getattr(self, "ev_" + type(n).__name__, None)
        if m is None:
            raise NativeUnsupported(type(n).__name__)
        return m(n)

    def ev_Constant(self, n):
        return n.value

    def ev_Name(self, n):
        if n.id in self.env:
            return self.env[n.id]
        if n.id in ("True", "False"):
            return n.id == "True"
        raise NativeUnsupported("name %s" % n.id)

    def ev_Attribute(self, n):
        return getattr(self.ev(n.value), n.attr)

    def ev_Tuple(self, n):
        return tuple(self.ev(e) for e in n.elts)

    def ev_List(self, n):
        return [self.ev(e) for e in n.elts]

    def ev_UnaryOp(self, n):
        v = self.ev(n.operand)
        if isinstance(n.op, ast.Not):
            return not v
        if isinstance(n.op, ast.USub):
            return -v
        raise NativeUnsupported("unary")

    def ev_BoolOp(self, n):
        if isinstance(n.op, ast.And):
            return all(bool(self.ev(v)) for v in n.values)
        return any(bool(self.ev(v)) for v in n.values)

    def ev_IfExp(self, n):
        return self.ev(n.body) if self.ev(n.test) else self.ev(n.orelse)

    def ev_BinOp(self, n):
        a, b = self.ev(n.left), self.ev(n.right)
        op = type(n.op)
        if op is ast.Add:
            if isinstance(a, (list, tuple)) or isinstance(b, (list, tuple)):
                return list(a) + list(b)
            return a + b
        if op is ast.Sub:
            return a - b
        if op is ast.Mult:
            return a * b
        if op is ast.FloorDiv:
            return a // b
        if op is ast.Mod:
            return a % b
        if op is ast.Div:
            return a / b
        raise NativeUnsupported("binop")

    def string_universe(self, lam):
        """Finite universe for a Str-quantified variable: every string that occurs as a key or
        element anywhere in the pre/post arguments, the constants of the clause, and one fresh."""
        out = {"\x00fresh"}
        for node in ast.walk(lam):
            if isinstance(node, ast.Constant) and isinstance(node.value, str):
                out.add(node.value)
        seen = set()

        def walk(v, d=0):
            if d > 4 or id(v) in seen:
                return
            seen.add(id(v))
            if isinstance(v, str):
                out.add(v)
            elif isinstance(v, dict):
                for k, x in dict.items(v):
                    walk(k, d + 1)
                    walk(x, d + 1)
            elif isinstance(v, (list, tuple, set, frozenset)):
                for x in list(v):
                    walk(x, d + 1)
            elif callable(v) and hasattr(v, "__code__"):
                out.update(v.__code__.co_varnames[:v.__code__.co_argcount + 3])
            else:
                try:
                    dd = object.__getattribute__(v, "__dict__")
                except Exception:
                    dd = None
                if isinstance(dd, dict):
                    for x in dd.values():
                        walk(x, d + 1)
        for v in self.env.values():
            walk(v)
        if self.snap is not None:
            for v in self.snap.old_env.values():
                walk(v)
        return out

    def deep_eq(self, a, b):
        if isinstance(a, PRIMS) or isinstance(b, PRIMS):
            if isinstance(a, PRIMS) and isinstance(b, PRIMS):
                return a == b
            return False
        if isinstance(a, (list, tuple)) and isinstance(b, (list, tuple)) or \
                (hasattr(a, "__iter__") and hasattr(b, "__iter__") and not isinstance(a, dict) and not isinstance(b, dict)
                 and isinstance(a, (list, tuple, __import__("collections").deque)) and isinstance(b, (list, tuple, __import__("collections").deque))):
            a, b = list(a), list(b)
            return len(a) == len(b) and all(self.deep_eq(x, y) for x, y in zip(a, b))
        if isinstance(a, dict) and isinstance(b, dict):
            return set(a) == set(b) and all(self.deep_eq(a[k], b[k]) for k in a)
        if isinstance(a, (set, frozenset)) and isinstance(b, (set, frozenset)):
            return a == b
        return self.same(a, b)

    def same(self, a, b):
        # a bound list/deque .append stands for the container it appends to (the Writer model)
        import types as _t
        if isinstance(a, (_t.BuiltinMethodType, _t.MethodType)) and a.__name__ == "append":
            a = a.__self__
        if isinstance(b, (_t.BuiltinMethodType, _t.MethodType)) and b.__name__ == "append":
            b = b.__self__
        if a is None or b is None:
            return a is b
        if isinstance(a, PRIMS) and isinstance(b, PRIMS):
            return a == b and type(a) is type(b)
        if self.snap is None:
            return a is b
        return self.snap.norm(a) == self.snap.norm(b)

    def ev_Compare(self, n):
        left = self.ev(n.left)
        for op, right in zip(n.ops, n.comparators):
            r = self.ev(right)
            t = type(op)
            if t is ast.Eq:
                ok = self.deep_eq(left, r)
            elif t is ast.NotEq:
                ok = not self.deep_eq(left, r)
            elif t is ast.Is:
                ok = self.same(left, r)
            elif t is ast.IsNot:
                ok = not self.same(left, r)
            elif t is ast.Lt:
                ok = left < r
            elif t is ast.LtE:
                ok = left <= r
            elif t is ast.Gt:
                ok = left > r
            elif t is ast.GtE:
                ok = left >= r
            elif t is ast.In:
                ok = any(self.deep_eq(left, x) for x in r) if not isinstance(r, (dict, str, set)) else left in r
            elif t is ast.NotIn:
                ok = not (any(self.deep_eq(left, x) for x in r) if not isinstance(r, (dict, str, set)) else left in r)
            else:
                raise NativeUnsupported("cmp")
            if not ok:
                return False
            left = r
        return True

    def ev_Subscript(self, n):
        base = self.ev(n.value)
        if isinstance(n.slice, ast.Slice):
            lo = self.ev(n.slice.lower) if n.slice.lower else None
            hi = self.ev(n.slice.upper) if n.slice.upper else None
            if not isinstance(base, (str, bytes, tuple)):
                base = list(base)
            return base[lo:hi]
        idx = self.ev(n.slice)
        if not isinstance(base, (dict, str, bytes, list, tuple)):
            base = list(base)
        return base[idx]

    def ev_Call(self, n):
        if isinstance(n.func, ast.Name):
            name = n.func.id
            if name == "old":
                if self.snap is None:
                    raise NativeUnsupported("old without snapshot")
                return NativeEval(dict(self.snap.old_env, **{k: v for k, v in self.env.items() if k not in self.snap.old_env and k != "result"}), self.snap, True).ev(n.args[0])
            if name in ("forall", "exists"):
                lam = n.args[0]
                names = [a.arg for a in lam.args.args]
                if len(n.args) < 3:
                    kws = {k.arg: k.value for k in n.keywords}
                    if "ty" in kws and kws["ty"].value == "Str":
                        rng = sorted(self.string_universe(lam))
                    else:
                        raise NativeUnsupported("unbounded quantifier")
                else:
                    lo, hi = self.ev(n.args[1]), self.ev(n.args[2])
                    rng = range(lo, hi)

                def body(vals):
                    env2 = dict(self.env)
                    env2.update(zip(names, vals))
                    return bool(NativeEval(env2, self.snap, self.in_old).ev(lam.body))
                it = (body(v) for v in itertools.product(rng, repeat=len(names)))
                return all(it) if name == "forall" else any(it)
            if name == "len":
                v = self.ev(n.args[0])
                return len(v)
            if name in NATIVE_SPEC:
                return NATIVE_SPEC[name](self, *[self.ev(a) for a in n.args])
            raise NativeUnsupported("spec function %s" % name)
        if isinstance(n.func, ast.Attribute):
            recv = self.ev(n.func.value)
            args = [self.ev(a) for a in n.args]
            if isinstance(recv, (str, dict)) and n.func.attr in ("startswith", "endswith", "find", "rfind", "count", "get", "strip", "lstrip", "rstrip"):
                return getattr(recv, n.func.attr)(*args)
        raise NativeUnsupported("call")


@native_spec("implies")
def _n_implies(ne, a, b):
    return (not a) or bool(b)


# implies must not evaluate its consequent when the antecedent is false (partiality):
def _lazy_implies(self, n):
    a = self.ev(n.args[0])
    if not a:
        return True
    return bool(self.ev(n.args[1]))


_orig_call = NativeEval.ev_Call


def _ev_Call(self, n):
    if isinstance(n.func, ast.Name) and n.func.id == "implies":
        return _lazy_implies(self, n)
    if isinstance(n.func, ast.Name) and n.func.id == "ite":
        return self.ev(n.args[1]) if self.ev(n.args[0]) else self.ev(n.args[2])
    return _orig_call(self, n)


NativeEval.ev_Call = _ev_Call


@native_spec("iff")
def _n_iff(ne, a, b):
    return bool(a) == bool(b)


@native_spec("same")
def _n_same(ne, a, b):
    return ne.same(a, b)


@native_spec("truthy")
def _n_truthy(ne, a):
    return bool(a)


@native_spec("isnone")
def _n_isnone(ne, a):
    return a is None


@native_spec("fresh")
def _n_fresh(ne, a):
    if ne.snap is None:
        raise NativeUnsupported("fresh")
    return a is not None and id(a) not in ne.snap.orig_ids


@native_spec("allocated")
def _n_allocated(ne, a):
    return True


@native_spec("distinct_elems")
def _n_distinct(ne, a):
    ids = [id(x) for x in a]
    return len(ids) == len(set(ids))


@native_spec("content")
def _n_content(ne, a):
    return a


@native_spec("box")
def _n_box(ne, a):
    return a


@native_spec("int_of")
def _n_int_of(ne, a):
    return int(a)


@native_spec("count")
def _n_count(ne, s, ch):
    return s.count(ch)


@native_spec("is_callable")
def _n_is_callable(ne, a):
    return callable(a)


@native_spec("str_join")
def _n_str_join(ne, d, seq):
    return d.join(seq)


@native_spec("str_encode")
def _n_str_encode(ne, s, enc, err):
    return s.encode(enc, err)


@native_spec("prefix_of")
def _n_prefix_of(ne, a, b):
    a, b = list(a), list(b)
    return b[:len(a)] == a


@native_spec("is_sized")
def _n_is_sized(ne, a):
    return hasattr(a, "__len__")


@native_spec("len_of")
def _n_len_of(ne, a):
    return len(a)


@native_spec("dict_set")
def _n_dict_set(ne, d, k, v):
    r = dict(d)
    r[k] = v
    return r


@native_spec("dict_del")
def _n_dict_del(ne, d, k):
    r = dict(d)
    r.pop(k, None)
    return r


@native_spec("dict_update")
def _n_dict_update(ne, d, e):
    r = dict(d)
    r.update(e)
    return r


# ---------------------------------------------------------------------------
# resolving the real callable

def real_callable(key, captures=None):
    modname, qual = key.split(":")
    obj = importlib.import_module(modname)
    parts = qual.split(".")
    owner = None
    for i, p in enumerate(parts):
        nxt = obj.__dict__.get(p) if isinstance(obj, type) else getattr(obj, p, None)
        if nxt is None and callable(obj) and not isinstance(obj, type):
            # nested function: call the outer with the captured values to obtain the closure
            inner = obj(**(captures or {}))
            if getattr(inner, "__name__", None) != p:
                raise NativeUnsupported("cannot reach nested function %s" % qual)
            return inner
        owner, obj = obj, nxt
    if isinstance(obj, property):
        return obj.fget
    if hasattr(obj, "fget") and callable(getattr(obj, "fget")):
        fg = obj.fget
        if obj.__class__.__name__ == "memoized_instancemethod":
            return fg
        return fg
    if isinstance(obj, (staticmethod, classmethod)):
        return obj.__func__
    return obj


# ---------------------------------------------------------------------------
# small-scope value generation by type

def gen_values(ty: Ty, depth=2, ctx=None):
    """A small list of native values of a contract type."""
    ctx = ctx if ctx is not None else {"n": 0}
    k = ty.kind
    if k == "int":
        return [0, 1, 2, 3, -1]
    if k == "bool":
        return [False, True]
    if k == "real":
        return [0.0, 1.5, 10.0]
    if k == "str":
        return ["a", "context", "", "b\n"]
    if k == "bytes":
        return [b"", b"a"]
    if k == "none":
        return [None]
    if k == "any":
        ctx["n"] += 2
        return [None, Opaque(ctx["n"]), Opaque(ctx["n"] + 1, truthy=False)]
    if k == "opt":
        return [None] + gen_values(ty.args[0], depth, ctx)
    if k == "star":
        return ["<star>"]
    if k == "tuple":
        parts = [gen_values(a, depth - 1, ctx)[:2] for a in ty.args]
        return [tuple(p) for p in itertools.islice(itertools.product(*parts), 4)]
    if k in ("list", "seq"):
        el = lambda: gen_values(ty.args[0], depth - 1, ctx)
        if depth <= 0:
            return [[]]
        out = [[], el()[-1:], el()[:2][::-1] + el()[-1:]]
        return [list(x) for x in out] if k == "list" else [tuple(x) for x in out]
    if k == "dict":
        ks = gen_values(ty.args[0], 0, ctx)
        vs = gen_values(ty.args[1], depth - 1, ctx)
        ks = [x for x in ks if x is not None]
        return [{}, {ks[0]: vs[-1]}, {ks[i % len(ks)]: vs[i % len(vs)] for i in range(min(3, len(ks)))}]
    if k == "set":
        vs = [v for v in gen_values(ty.args[0], 0, ctx) if v is not None]
        return [set(), set(vs[:1]), set(vs[:2])]
    if k == "writer":
        lst = []
        return [lst.append]
    if k == "fun":
        facs = NATIVE_FUNS.get(ty.name)
        if not facs:
            raise NativeUnsupported("no native stand-ins for Fun[%s]" % ty.name)
        return [("__factory__", f) for f in facs]
    if k == "obj":
        out = [] if not ty.nullable else [None]
        for variant in range(3 if depth > 0 else 1):
            o = build_object(ty.name, depth - 1, ctx, variant)
            if o is not None:
                out.append(o)
        if not out:
            raise NativeUnsupported("cannot build %s" % ty.name)
        return out
    raise NativeUnsupported("gen for %s" % ty)


def all_fields(cname):
    out = {}
    cs = S.CLASSES.get(cname)
    if cs is None:
        return out
    for b in cs.bases:
        out.update(all_fields(b))
    out.update(cs.fields)
    return out


def build_object(cname, depth, ctx, variant=0):
    cs = S.CLASSES.get(cname)
    if cs is None:
        return Opaque("obj:%s" % cname)
    modname, qual = cs.qual.split(":")
    try:
        cls = getattr(importlib.import_module(modname), qual)
    except Exception:
        return Opaque("obj:%s" % cname)
    try:
        o = cls.__new__(cls)
    except Exception:
        return None
    for f, fty in all_fields(cname).items():
        if f.startswith("?") or f.startswith("__attrs__"):
            continue
        try:
            vals = gen_values(fty, depth, ctx)
        except NativeUnsupported:
            vals = [None]
        v = vals[variant % len(vals)]
        if isinstance(v, tuple) and len(v) == 2 and v[0] == "__factory__":
            v = v[1]({})
        try:
            object.__setattr__(o, f, v)
        except Exception:
            pass
    if cs.listlike is not None:
        vals = gen_values(parse_ty("List[%s]" % cs.listlike), max(depth, 1), ctx)
        list.extend(o, vals[variant % len(vals)])
    # class invariants that are simple aliasing facts (e.g. buffer.write is data.append)
    fixer = OBJECT_FIXERS.get(cname)
    if fixer:
        fixer(o)
    return o


OBJECT_FIXERS = {}


def fix_buffer(o):
    import collections
    o.data = collections.deque(o.data if isinstance(o.data, (list, tuple)) else [])
    o.write = o.data.append


OBJECT_FIXERS["FastEncodingBuffer"] = fix_buffer


# ---------------------------------------------------------------------------
# running the real function against its contract on concrete inputs

class NativeOutcome:
    def __init__(self):
        self.failed = []       # (label, expr)
        self.skipped = []
        self.checked = 0
        self.exception = None
        self.pre_ok = True
        self.note = ""


def run_native(c: S.Contract, env: dict, captures: dict = None) -> NativeOutcome:
    """Call the real function with `env` (param -> value) and evaluate the contract."""
    out = NativeOutcome()
    fn = real_callable(c.key, captures)
    # precondition
    ne0 = NativeEval(dict(env, **(captures or {})), None)
    for cl in c.requires:
        try:
            if not ne0.truth(cl.expr):
                out.pre_ok = False
                return out
        except NativeUnsupported:
            pass
        except Exception:
            out.pre_ok = False
            return out
    snap = Snapshot(dict(env, **(captures or {})))
    args, kwargs = [], {}
    for p, ty in c.params.items():
        nm = p.lstrip("*")
        if p.startswith("**"):
            if isinstance(env.get(nm), dict):
                kwargs.update(env[nm])
            continue
        if p.startswith("*"):
            if isinstance(env.get(nm), (list, tuple)):
                args.extend(env[nm])
            continue
        args.append(env[nm])
    result, exc = None, None
    try:
        result = fn(*args, **kwargs)
        import types as _t
        if isinstance(result, _t.GeneratorType):
            result = drain_generator(c, result, env, snap, out)
    except BaseException as e:     # noqa: we evaluate the exceptional postcondition
        exc = e
    out.exception = exc
    env2 = dict(env, **(captures or {}))
    if exc is None:
        env2["result"] = result
        clauses = list(c.ensures)
    else:
        spec = None
        for ename, sp in c.raises.items():
            if ename == "*":
                spec = spec or sp
                continue
            cls = exc_class(ename)
            if isinstance(exc, cls):
                spec = sp
                break
        if spec is None:
            out.failed.append(("no-raise:%s" % type(exc).__name__, "exception %r escaped; contract allows %s" % (exc, list(c.raises))))
            return out
        if spec.get("when"):
            try:
                if not NativeEval(snap.old_env, None).truth(spec["when"]):
                    out.failed.append(("raise-when:%s" % type(exc).__name__, spec["when"]))
            except NativeUnsupported:
                out.skipped.append("raise-when")
        clauses = list(spec["ensures"]) + list(c.ensures_exc)
    ne = NativeEval(env2, snap)
    for cl in clauses:
        try:
            ok = ne.truth(cl.expr)
            out.checked += 1
            if not ok:
                out.failed.append((("post:" if exc is None else "exc-post:%s:" % exc_name(c, exc)) + cl.label, cl.expr))
        except NativeUnsupported as e:
            out.skipped.append("%s (%s)" % (cl.label, e))
        except Exception as e:
            out.failed.append((("post:" if exc is None else "exc-post:%s:" % exc_name(c, exc)) + cl.label,
                               "%s  [evaluation raised %r]" % (cl.expr, e)))
    return out


def exc_name(c, exc):
    for ename in c.raises:
        if ename != "*" and isinstance(exc, exc_class(ename)):
            return ename
    return "*"


def drain_generator(c, gen, env, snap, out):
    k = 0
    ne_env = dict(env)
    for item in gen:
        e2 = dict(ne_env, _i0=k, yielded=item, yields=k)
        ne = NativeEval(e2, snap)
        for cl in c.at_yield:
            try:
                out.checked += 1
                if not ne.truth(cl.expr):
                    out.failed.append(("yield:" + cl.label, cl.expr))
            except NativeUnsupported:
                out.skipped.append(cl.label)
        k += 1
        if k > 50:
            break
    return None


def exc_class(name):
    import builtins
    if hasattr(builtins, name):
        return getattr(builtins, name)
    m = importlib.import_module("mako.exceptions")
    if hasattr(m, name):
        return getattr(m, name)
    mod, nm = name.rsplit(".", 1)
    return getattr(importlib.import_module(mod), nm)


def enumerate_inputs(c: S.Contract, limit=400, seed=0):
    """Small-scope product of parameter values (bounded)."""
    names, pools = [], []
    ctx = {"n": 0}
    for p, ty in list(c.params.items()) + [(k, v) for k, v in c.captures.items()]:
        nm = p.lstrip("*")
        if p.startswith("**") and ty.kind == "star":
            continue
        names.append(nm)
        pools.append(gen_values(ty, 2, ctx))
    count = 0
    for combo in itertools.product(*pools):
        env = {}
        for nm, v in zip(names, combo):
            env[nm] = snap_copy(v, {}) if not (isinstance(v, tuple) and v and v[0] == "__factory__") else v
        # instantiate callable factories with access to the other arguments
        for nm, v in list(env.items()):
            if isinstance(v, tuple) and len(v) == 2 and v[0] == "__factory__":
                env[nm] = v[1](env)
        yield env
        count += 1
        if count >= limit:
            return


def bounded_check(c: S.Contract, limit=300):
    """Run the real function on enumerated inputs; returns (evaluations, failures, skipped)."""
    evals, fails, skipped = 0, [], set()
    caps = list(c.captures)
    for env in enumerate_inputs(c, limit):
        captures = {k: env.pop(k) for k in caps}
        try:
            o = run_native(c, env, captures)
        except NativeUnsupported as e:
            skipped.add(str(e))
            continue
        if not o.pre_ok:
            continue
        evals += 1
        skipped.update(o.skipped)
        for lab, expr in o.failed:
            fails.append({"clause": lab, "expr": expr, "input": summarize(env), "exception": repr(o.exception)})
            if len(fails) > 5:
                return evals, fails, skipped
    return evals, fails, skipped


def summarize(env):
    def s(v, d=0):
        if isinstance(v, PRIMS):
            return v
        if isinstance(v, (list, tuple)):
            return [s(x, d + 1) for x in v][:6]
        if isinstance(v, dict):
            return {str(k): s(x, d + 1) for k, x in list(v.items())[:6]}
        if isinstance(v, Opaque):
            return repr(v)
        if d > 2:
            return type(v).__name__
        flds = {}
        for k, x in list(getattr(v, "__dict__", {}).items())[:8]:
            flds[k] = s(x, d + 1)
        if isinstance(v, list):
            flds["<list>"] = [s(x, d + 1) for x in list.__iter__(v)]
        return {type(v).__name__: flds}
    return {k: s(v) for k, v in env.items()}


@native_spec("builtins_dict")
def _n_builtins_dict(ne):
    import builtins
    return builtins.__dict__


@native_spec("dict_nonempty")
def _n_dict_nonempty(ne, d):
    return len(d) > 0


@native_spec("spec_args")
def _n_spec_args(ne, f):
    from mako import compat
    return compat.inspect_getargspec(f)[0]


@native_spec("spec_varargs")
def _n_spec_varargs(ne, f):
    from mako import compat
    return compat.inspect_getargspec(f)[1]


@native_spec("spec_varkw")
def _n_spec_varkw(ne, f):
    from mako import compat
    return compat.inspect_getargspec(f)[2]


@native_spec("is_boxed_str")
def _n_is_boxed_str(ne, a):
    return isinstance(a, str)


@native_spec("is_boxed_bytes")
def _n_is_boxed_bytes(ne, a):
    return isinstance(a, bytes)


@native_spec("dyn_is_def_template")
def _n_dyn_is_def_template(ne, a):
    from mako.template import DefTemplate
    return isinstance(a, DefTemplate)
