"""Static types of the verified Python subset and their SMT sorts.

Every Python object that has identity (instances, lists, dicts, sets, opaque
'Any' values, callables) is a *reference*: a mathematical integer, 0 being
None.  Immutable scalars are SMT values.  Tuples and Opt[scalar] are
structural (Python-level tuples of symbolic values).
"""
from __future__ import annotations

import re
from dataclasses import dataclass, field, replace

import z3


@dataclass(frozen=True)
class Ty:
    kind: str            # int bool real str bytes any obj list dict set seq tuple opt fun writer none star
    args: tuple = ()
    name: str = ""
    nullable: bool = field(default=False, compare=False)   # only meaningful on parameters

    def __str__(self):
        if self.kind == "obj":
            return self.name
        if self.kind == "fun":
            return "Fun[%s]" % self.name
        if self.args:
            return "%s[%s]" % (self.kind.capitalize(), ",".join(str(a) for a in self.args))
        return self.kind.capitalize()

    @property
    def is_ref(self):
        return self.kind in ("any", "obj", "list", "dict", "set", "fun", "writer")


INT = Ty("int")
BOOL = Ty("bool")
REAL = Ty("real")
STR = Ty("str")
BYTES = Ty("bytes")
ANY = Ty("any")
NONE = Ty("none")
WRITER = Ty("writer")
STAR = Ty("star")        # opaque *args / **kwargs bundle


def OBJ(name):
    return Ty("obj", (), name)


def LIST(e):
    return Ty("list", (e,))


def DICT(k, v):
    return Ty("dict", (k, v))


def SET(e):
    return Ty("set", (e,))


def SEQ(e):
    return Ty("seq", (e,))


def TUPLE(*ts):
    return Ty("tuple", tuple(ts))


def OPT(t):
    return Ty("opt", (t,))


def FUN(name):
    return Ty("fun", (), name)


_SCALARS = {"Int": INT, "Bool": BOOL, "Real": REAL, "Str": STR, "Bytes": BYTES,
            "Any": ANY, "None": NONE, "Writer": WRITER, "Star": STAR}


def parse_ty(s) -> Ty:
    if isinstance(s, Ty):
        return s
    s = s.strip()
    if s in _SCALARS:
        return _SCALARS[s]
    m = re.match(r"^(\w+)\[(.*)\]$", s)
    if not m:
        return OBJ(s)
    head, inner = m.group(1), m.group(2)
    parts, depth, cur = [], 0, ""
    for ch in inner:
        if ch == "[":
            depth += 1
        elif ch == "]":
            depth -= 1
        if ch == "," and depth == 0:
            parts.append(cur)
            cur = ""
        else:
            cur += ch
    parts.append(cur)
    if head == "Obj":
        return OBJ(parts[0].strip())
    if head == "Fun":
        return FUN(parts[0].strip())
    sub = [parse_ty(p) for p in parts]
    if head == "List":
        return LIST(sub[0])
    if head == "Dict":
        return DICT(sub[0], sub[1])
    if head == "Set":
        return SET(sub[0])
    if head == "Seq":
        return SEQ(sub[0])
    if head == "Tuple":
        return TUPLE(*sub)
    if head == "Opt":
        if sub[0].is_ref:
            return replace(sub[0], nullable=True)   # references can hold None (ref 0)
        return OPT(sub[0])
    raise ValueError("unknown type %r" % s)


def sort_of(ty: Ty):
    k = ty.kind
    if k == "int" or ty.is_ref:
        return z3.IntSort()
    if k == "bool":
        return z3.BoolSort()
    if k == "real":
        return z3.RealSort()
    if k in ("str", "bytes"):
        return z3.StringSort()
    if k == "seq":
        return z3.SeqSort(sort_of(ty.args[0]))
    raise TypeError("no single SMT sort for %s" % ty)


class V:
    """A symbolic Python value."""
    def __init__(self, ty, t=None, items=None, isnone=None, val=None, py=None):
        self.ty = ty
        self.t = t
        self.items = items      # tuple
        self.isnone = isnone    # opt
        self.val = val          # opt
        self.py = py            # python-level constant payload (e.g. star bundles, class objects)

    def __repr__(self):
        if self.ty.kind == "tuple":
            return "V(%s)" % (", ".join(map(repr, self.items)))
        if self.ty.kind == "opt":
            return "V(opt none=%s %r)" % (self.isnone, self.val)
        return "V(%s:%s)" % (self.ty, self.t)


def vint(x):
    return V(INT, z3.IntVal(x) if isinstance(x, int) else x)


def vbool(x):
    return V(BOOL, z3.BoolVal(x) if isinstance(x, bool) else x)


def vstr(x):
    return V(STR, z3.StringVal(x) if isinstance(x, str) else x)


def vreal(x):
    return V(REAL, z3.RealVal(x) if isinstance(x, (int, float)) else x)


def vnone():
    return V(NONE)


def vtuple(items):
    items = tuple(items)
    return V(TUPLE(*[i.ty for i in items]), items=items)


def vopt(inner_ty, isnone, val):
    return V(OPT(inner_ty), isnone=isnone, val=val)


_fresh_n = [0]


def fresh(ty: Ty, hint="v") -> V:
    _fresh_n[0] += 1
    n = "%s!%d" % (hint, _fresh_n[0])
    if ty.kind == "tuple":
        return vtuple([fresh(a, hint) for a in ty.args])
    if ty.kind == "opt":
        return vopt(ty.args[0], z3.Bool(n + "?none"), fresh(ty.args[0], hint))
    if ty.kind == "none":
        return vnone()
    if ty.kind == "star":
        return V(STAR, py=n)
    return V(ty, z3.Const(n, sort_of(ty)))
