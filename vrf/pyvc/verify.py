"""Function-level verification: build the initial state from the contract,
execute the real body symbolically, emit one obligation per (path, clause),
discharge with z3 (cvc5 on unknown), aggregate per clause."""
from __future__ import annotations

import ast
import subprocess
import tempfile
import time
import os

import z3

from ..core import Result, DISCHARGED, VIOLATED, UNDECIDED, ERROR
from .types import (Ty, V, INT, BOOL, STR, ANY, SEQ, sort_of, vint, vbool, vnone, vtuple, fresh, parse_ty)
from .state import State, Exc, Raised, Unsupported, coerce, is_listlike, is_dictlike, elem_ty, dict_tys
from . import spec as S
from . import ops
from .speceval import SpecEval
from .engine import Engine, Obl

Z3_TIMEOUT_MS = 6000
LONG_Z3_MS = 12000
UNDECIDED_BUDGET_S = 45.0     # per function: beyond it, further undecided obligations get the short budget
CVC5_TIMEOUT_S = 10


def initial_state(E: Engine):
    c = E.contract
    st = State()
    env = {}
    for p, ty in c.params.items():
        nm = p.lstrip("*")
        if ty.kind == "star":
            env[nm] = V(ty, py="param:" + nm)
            continue
        v = fresh(ty, "p_" + nm)
        if ty.is_ref:
            v = V(ty, z3.Int("p_" + nm))
            st.assume(v.t < st.alloc)
            st.assume(v.t >= 0 if (ty.nullable or ty.kind == "any") else v.t > 0)
        elif ty.kind not in ("tuple", "opt", "none"):
            v = V(ty, z3.Const("p_" + nm, sort_of(ty)))
        env[nm] = v
    st.assume(st.alloc > 0)
    for p, ty in c.captures.items():
        v = fresh(ty, "cap_" + p)
        if ty.is_ref:
            st.assume(v.t < st.alloc)
            st.assume(v.t >= 0 if ty.nullable else v.t > 0)
        env[p] = v
    st.env = dict(env)
    if "." in E.qual and E.cls is None or E.qual.count(".") >= 2:
        # a nested function refers to itself by its local name: modular recursion through its own contract
        from .engine import STATIC
        st.env[E.fn.name] = V(STATIC, py=E.key)
    for g, gty in S.GHOSTS.items():
        st.ghost[g] = fresh(gty, "G0_" + g)
    return st, env


def check(pc, goal, timeout_ms=None, quick=False):
    """Is pc => goal valid?  returns (status, model|None, backend, seconds, text, candidate_model).

    1. hypotheses without quantifiers (a subset of pc): unsat is already a proof, and a model is a
       *candidate* counterexample;  2. the full query;  3. cvc5 on unknown.
    A candidate model never decides anything by itself: the caller replays it on the real code."""
    from .engine import has_quantifier
    from .state import HEAP_AXIOMS
    from .speceval import GLOBAL_AXIOMS
    from .state import BOX_AXIOMS
    pc = list(pc) + list(GLOBAL_AXIOMS.values()) + list(BOX_AXIOMS.values())
    timeout_ms = timeout_ms or Z3_TIMEOUT_MS
    t0 = time.time()
    qf = [p for p in pc if not has_quantifier(p)]
    pc = list(pc) + [a for a in HEAP_AXIOMS.values() if a is not None]
    cand = None
    if True:
        s0 = z3.Solver()
        s0.set("timeout", 1200)
        s0.add(*qf)
        s0.add(z3.Not(goal))
        r0 = s0.check()
        if r0 == z3.unsat:
            return DISCHARGED, None, "z3", time.time() - t0, "unsat (quantifier-free hypotheses suffice)", None
        if r0 == z3.sat:
            cand = s0.model()
    first_ms = min(timeout_ms, 2000)
    s = z3.Solver()
    s.set("timeout", first_ms)
    s.add(*pc)
    s.add(z3.Not(goal))
    r = s.check()
    dt = time.time() - t0
    if r == z3.unsat:
        return DISCHARGED, None, "z3", dt, "unsat", None
    if r == z3.sat:
        return VIOLATED, s.model(), "z3", dt, "sat", None
    reason = s.reason_unknown()
    # pure E-matching (no model-based instantiation): much faster on VCs with many irrelevant
    # quantified hypotheses; only its `unsat` is used
    s1 = z3.Solver()
    s1.set("smt.mbqi", False)
    s1.set("timeout", first_ms)
    s1.add(*pc)
    s1.add(z3.Not(goal))
    if s1.check() == z3.unsat:
        return DISCHARGED, None, "z3", time.time() - t0, "unsat (e-matching only)", None
    if quick:
        return UNDECIDED, None, "z3", time.time() - t0, "z3 unknown (%s); short budget" % reason, cand
    # second opinion first (cvc5 decides many sequence + quantifier queries that z3 times out on)
    st2, txt, dt2 = cvc5_check(s)
    if st2 == "unsat":
        return DISCHARGED, None, "cvc5", time.time() - t0, "z3 unknown (%s) in %d ms; cvc5 unsat" % (reason, first_ms), None
    if st2 == "sat":
        return VIOLATED, None, "cvc5", time.time() - t0, "z3 unknown (%s); cvc5 sat\n%s" % (reason, txt[:2000]), cand
    # model search with bounded-quantifier validation (sound: the returned model is checked
    # against every hypothesis that was left out of the query)
    try:
        m2, rounds = bounded_mbqi(pc, goal)
    except Exception:
        m2, rounds = None, 0
    if m2 is not None:
        return VIOLATED, m2, "z3", time.time() - t0, \
            "sat (z3 %s on the full query; model found without the sequence-indexed quantified hypotheses and " \
            "validated against each of them by exhaustive instantiation over their bounded ranges, %d refinement round(s))" % (reason, rounds), None
    # a longer z3 attempt (only reached when nothing else decided)
    if timeout_ms > first_ms:
        s3 = z3.Solver()
        s3.set("timeout", LONG_Z3_MS)
        s3.add(*pc)
        s3.add(z3.Not(goal))
        r3 = s3.check()
        if r3 == z3.unsat:
            return DISCHARGED, None, "z3", time.time() - t0, "unsat (long budget)", None
        if r3 == z3.sat:
            return VIOLATED, s3.model(), "z3", time.time() - t0, "sat", None
        reason = s3.reason_unknown()
    return UNDECIDED, None, "z3+cvc5", time.time() - t0, "z3 unknown (%s); cvc5 %s" % (reason, st2), cand


def _has_seq_op(e):
    todo, seen = [e], set()
    while todo:
        x = todo.pop()
        if x.get_id() in seen:
            continue
        seen.add(x.get_id())
        if z3.is_app(x) and x.decl().kind() in (z3.Z3_OP_SEQ_LENGTH, z3.Z3_OP_SEQ_NTH, z3.Z3_OP_SEQ_AT,
                                                z3.Z3_OP_SEQ_EXTRACT, z3.Z3_OP_SEQ_PREFIX, z3.Z3_OP_SEQ_CONTAINS):
            return True
        if z3.is_quantifier(x):
            todo.append(x.body())
        else:
            todo.extend(x.children())
    return False


def _split_bounded(q):
    """ForAll(vars, Implies(And(bounds...), body)) with integer vars -> (names, sorts, guard list, body) or None."""
    if not (z3.is_quantifier(q) and q.is_forall()):
        return None
    n = q.num_vars()
    sorts = [q.var_sort(i) for i in range(n)]
    if any(srt != z3.IntSort() for srt in sorts):
        return None
    body = q.body()
    if not (z3.is_app(body) and body.decl().kind() == z3.Z3_OP_IMPLIES):
        return None
    guard, concl = body.arg(0), body.arg(1)
    return n, guard, concl


def _validate_forall(model, q, limit=4096):
    """True / False(+instance) / None(unknown): does `model` satisfy the bounded quantifier q?"""
    sp = _split_bounded(q)
    if sp is None:
        return None, None
    n, guard, concl = sp
    # de Bruijn: var index i refers to the (n-1-i)-th bound variable
    fresh_vars = [z3.Int("v!val%d" % i) for i in range(n)]
    subst = list(reversed(fresh_vars))
    g = z3.substitute_vars(guard, *subst)
    c = z3.substitute_vars(concl, *subst)
    # find numeric bounds for each var from the guard under the model
    conj = g.children() if z3.is_and(g) else [g]
    lo = {v.get_id(): None for v in fresh_vars}
    hi = {v.get_id(): None for v in fresh_vars}
    for cj in conj:
        if not z3.is_app(cj) or cj.num_args() != 2:
            continue
        k = cj.decl().kind()
        a, b = cj.arg(0), cj.arg(1)
        for v in fresh_vars:
            def val(t):
                r = model.eval(t, model_completion=True)
                return r.as_long() if z3.is_int_value(r) else None
            if a.get_id() == v.get_id():
                bv = val(b)
                if bv is None:
                    continue
                if k == z3.Z3_OP_LT:
                    hi[v.get_id()] = bv - 1 if hi[v.get_id()] is None else min(hi[v.get_id()], bv - 1)
                elif k == z3.Z3_OP_LE:
                    hi[v.get_id()] = bv if hi[v.get_id()] is None else min(hi[v.get_id()], bv)
                elif k == z3.Z3_OP_GT:
                    lo[v.get_id()] = bv + 1 if lo[v.get_id()] is None else max(lo[v.get_id()], bv + 1)
                elif k == z3.Z3_OP_GE:
                    lo[v.get_id()] = bv if lo[v.get_id()] is None else max(lo[v.get_id()], bv)
            elif b.get_id() == v.get_id():
                av = val(a)
                if av is None:
                    continue
                if k == z3.Z3_OP_LT:
                    lo[v.get_id()] = av + 1 if lo[v.get_id()] is None else max(lo[v.get_id()], av + 1)
                elif k == z3.Z3_OP_LE:
                    lo[v.get_id()] = av if lo[v.get_id()] is None else max(lo[v.get_id()], av)
                elif k == z3.Z3_OP_GT:
                    hi[v.get_id()] = av - 1 if hi[v.get_id()] is None else min(hi[v.get_id()], av - 1)
                elif k == z3.Z3_OP_GE:
                    hi[v.get_id()] = av if hi[v.get_id()] is None else min(hi[v.get_id()], av)
    ranges = []
    total = 1
    for v in fresh_vars:
        l, h = lo[v.get_id()], hi[v.get_id()]
        if l is None or h is None:
            return None, None
        ranges.append(range(l, h + 1))
        total *= max(0, h - l + 1)
        if total > limit:
            return None, None
    import itertools as _it
    for combo in _it.product(*ranges):
        sub = [(v, z3.IntVal(x)) for v, x in zip(fresh_vars, combo)]
        gi = model.eval(z3.substitute(g, *sub), model_completion=True)
        if z3.is_false(gi):
            continue
        ci = model.eval(z3.substitute(c, *sub), model_completion=True)
        if z3.is_true(ci):
            continue
        inst = z3.Implies(z3.substitute(g, *sub), z3.substitute(c, *sub))
        if z3.is_false(ci) and z3.is_true(gi):
            return False, inst
        return None, inst
    return True, None


def bounded_mbqi(pc, goal, rounds=6):
    """Counter-model search: leave out the quantified hypotheses that involve sequence terms, solve,
    then validate the model against each of them exhaustively (bounded ranges); refine with the
    violated instances.  Returns (model, rounds) only when *every* hypothesis is satisfied."""
    from .engine import has_quantifier
    hard = [p for p in pc if has_quantifier(p) and _has_seq_op(p)]
    if not hard:
        return None, 0
    easy = [p for p in pc if not (has_quantifier(p) and _has_seq_op(p))]
    lemmas = []
    for r in range(rounds):
        s = z3.Solver()
        s.set("timeout", 4000)
        s.add(*easy)
        s.add(*lemmas)
        s.add(z3.Not(goal))
        if s.check() != z3.sat:
            return None, r
        m = s.model()
        ok = True
        for q in hard:
            # conjunctions of quantifiers: validate each conjunct
            parts = q.children() if z3.is_and(q) else [q]
            for part in parts:
                if not has_quantifier(part):
                    v = m.eval(part, model_completion=True)
                    if not z3.is_true(v):
                        lemmas.append(part)
                        ok = False
                    continue
                verdict, inst = _validate_forall(m, part)
                if verdict is True:
                    continue
                ok = False
                if inst is not None:
                    lemmas.append(inst)
                else:
                    return None, r      # cannot validate this hypothesis: no verdict
        if ok:
            return m, r + 1
    return None, rounds


def cvc5_check(solver):
    t0 = time.time()
    try:
        smt = "(set-logic ALL)\n" + solver.to_smt2()
        # z3-internal names for total/partial nth; cvc5 knows only seq.nth
        smt = smt.replace("seq.nth_u", "seq.nth").replace("seq.nth_i", "seq.nth")
        with tempfile.NamedTemporaryFile("w", suffix=".smt2", delete=False) as f:
            f.write(smt)
            path = f.name
        try:
            p = subprocess.run(["/usr/bin/cvc5", "--strings-exp", "--tlimit=%d" % (CVC5_TIMEOUT_S * 1000), path],
                               capture_output=True, text=True, timeout=CVC5_TIMEOUT_S + 5)
            out = (p.stdout + p.stderr).strip()
        finally:
            os.unlink(path)
        first = out.splitlines()[0] if out else "no-output"
        if first in ("sat", "unsat"):
            return first, out, time.time() - t0
        return "unknown:" + first[:80], out, time.time() - t0
    except Exception as e:   # cvc5 missing or crashed: stays undecided
        return "error:%s" % e, "", time.time() - t0


def model_json(E: Engine, model, env):
    """Values of the parameters and the initial heap in the counter-model."""
    if model is None:
        return None
    out = {"params": {}, "heap": {}}
    for p, v in env.items():
        try:
            if v.t is not None:
                out["params"][p] = str(model.eval(v.t, model_completion=True))
            elif v.ty.kind == "tuple":
                out["params"][p] = [str(model.eval(i.t, model_completion=True)) for i in v.items if i.t is not None]
            elif v.ty.kind == "opt":
                out["params"][p] = {"isnone": str(model.eval(v.isnone, model_completion=True)),
                                    "val": str(model.eval(v.val.t, model_completion=True)) if v.val.t is not None else None}
        except Exception as e:
            out["params"][p] = "?%s" % e
    for d in model.decls():
        n = d.name()
        if n.startswith("H0_") or n == "alloc0":
            out["heap"][n] = str(model[d])[:600]
    return out


def parallel_precheck(obls, nproc):
    """discharge obligations in forked children (the ASTs are inherited by fork); returns {index: (status, backend, dt, txt)}
    for those a child *discharged*; everything else is decided again, sequentially, by the parent (models, budgets)"""
    import pickle
    if nproc <= 1 or len(obls) < 4:
        return {}
    nproc = min(nproc, len(obls))
    kids = []
    for w in range(nproc):
        r_fd, w_fd = os.pipe()
        pid = os.fork()
        if pid == 0:
            os.close(r_fd)
            out = []
            spent = 0.0          # time this child has put into obligations it could not decide
            try:
                for i in range(w, len(obls), nproc):
                    o = obls[i]
                    if spent >= 25.0:
                        break          # the parent decides the rest under its own per-function budget
                    try:
                        status, model, backend, dt, txt, cand = check(o.pc, o.goal)
                        if status == DISCHARGED:
                            out.append((i, status, backend, dt, txt))
                        else:
                            spent += dt
                    except Exception:
                        pass
                data = pickle.dumps(out)
                with os.fdopen(w_fd, "wb") as f:
                    f.write(data)
            finally:
                os._exit(0)
        os.close(w_fd)
        kids.append((pid, r_fd))
    done = {}
    for pid, r_fd in kids:
        with os.fdopen(r_fd, "rb") as f:
            data = f.read()
        os.waitpid(pid, 0)
        try:
            for i, status, backend, dt, txt in pickle.loads(data):
                done[i] = (status, backend, dt, txt)
        except Exception:
            pass
    return done


def verify_function(key, prop_prefix="", replayer=None, only_labels=None, engine_cls=None, _variant=None) -> list[Result]:
    """Verify one repo function against its sidecar contract."""
    c = S.CONTRACTS[key]
    variants = getattr(c, "variants", None)
    if variants and _variant is None:
        # a parameter of a union type: the function is verified once per alternative
        import copy
        from .types import parse_ty
        allres, lastE = [], None
        for var in variants:
            tag = ",".join("%s:%s" % kv for kv in var.items())
            c2 = copy.copy(c)
            c2.params = dict(c.params)
            for pn, pt in var.items():
                c2.params[pn] = parse_ty(pt)
            c2.variants = None
            S.CONTRACTS[key] = c2
            try:
                res, lastE = verify_function(key, prop_prefix, replayer, only_labels, engine_cls, _variant=tag)
            finally:
                S.CONTRACTS[key] = c
            for r in res:
                r.oid = "%s[%s]" % (r.oid, tag)
            allres.extend(res)
        return allres, lastE
    short = key.split(":")[1]
    results = []
    t_start = time.time()
    from .state import HEAP_AXIOMS
    HEAP_AXIOMS.clear()
    try:
        E = (engine_cls or Engine)(key, c)
    except Unsupported as e:
        return [Result("%s%s" % (prop_prefix, short), UNDECIDED, function=key, output="unsupported: %s" % e,
                       detail="function lookup / setup")], None
    except Exception as e:
        return [Result("%s%s" % (prop_prefix, short), ERROR, function=key, output="cannot read the source of %s: %r" % (key, e),
                       detail="function lookup / setup")], None
    try:
        st, env = initial_state(E)
        E.penv0 = env
        se = SpecEval(st, env, None, None, E)
        se.assume_wf = True
        for cl in c.requires:
            st.assume(se.bool_of(cl.expr))
        if E.cls and E.cls in S.CLASSES and "self" in env:
            for inv in S.CLASSES[E.cls].invariant:
                st.assume(se.bool_of(inv))
        E.old0 = st.fork()
        # vacuity: the precondition must be satisfiable
        if not E.feasible(st):
            return [Result("%s%s.requires-sat" % (prop_prefix, short), ERROR, function=key,
                           output="precondition of %s is unsatisfiable (vacuous contract)" % key)], E
        exits = []
        for kind, st2, payload in E.ex(E.fn.body, st):
            exits.append((kind, st2, payload))
        E.npaths = len(exits)
        for kind, st2, payload in exits:
            exit_obligations(E, c, env, kind, st2, payload)
    except Unsupported as e:
        return [Result("%s%s" % (prop_prefix, short), UNDECIDED, function=key, backend="pyvc",
                       output="outside the verified subset: %s" % e,
                       detail="symbolic execution of %s" % key, time_s=time.time() - t_start)], E
    except Exception:
        import traceback
        return [Result("%s%s" % (prop_prefix, short), ERROR, function=key, backend="pyvc",
                       output="engine crash:\n" + traceback.format_exc()[-1500:],
                       detail="symbolic execution of %s" % key, time_s=time.time() - t_start)], E
    if not exits:
        return [Result("%s%s.paths" % (prop_prefix, short), ERROR, function=key,
                       output="no feasible path through %s" % key)], E
    # discharge, aggregate per clause label
    groups = {}
    for o in E.obls:
        if only_labels and not (o.label in only_labels if not callable(only_labels) else only_labels(o.label)):
            continue
        groups.setdefault((o.label, o.klass), []).append(o)
    undecided_time = [0.0]
    flat = [o for obs in groups.values() for o in obs]
    pre = parallel_precheck(flat, int(os.environ.get("VERIF_INNER_PAR", "1")))
    pre_by_id = {id(flat[i]): v for i, v in pre.items()}
    for (label, klass), obs in groups.items():
        agg_status, agg_time, backends, outs = DISCHARGED, 0.0, set(), []
        witness, wit_obl, wmodel = None, None, None
        cand_model, cand_obl = None, None
        slow_left = 2 if undecided_time[0] < UNDECIDED_BUDGET_S else 0   # full-budget attempts per clause
        for o in obs:
            if id(o) in pre_by_id:
                status, backend, dt, txt = pre_by_id[id(o)]
                model = cand = None
            else:
                status, model, backend, dt, txt, cand = check(o.pc, o.goal, timeout_ms=None if slow_left > 0 else 1500,
                                                              quick=slow_left <= 0)
            if status == UNDECIDED:
                slow_left -= 1
                undecided_time[0] += dt
                if undecided_time[0] >= UNDECIDED_BUDGET_S and cand is not None:
                    # verdict for this clause cannot improve to "discharged"; stop spending on it
                    agg_time += dt
                    backends.add(backend)
                    agg_status = UNDECIDED
                    outs.append("%s: %s  [remaining paths of this clause not attempted: time budget]" % (txt, o.info))
                    if cand_model is None:
                        cand_model, cand_obl = cand, o
                    break
            agg_time += dt
            backends.add(backend)
            if status == VIOLATED:
                agg_status = VIOLATED
                wmodel = model if model is not None else cand
                witness = model_json(E, wmodel, env) if wmodel is not None else None
                wit_obl = o
                outs.append("%s on path %s: %s" % (txt, "/".join(o.path[-6:]), o.info))
                break
            if status == UNDECIDED:
                if agg_status == DISCHARGED:
                    agg_status = UNDECIDED
                outs.append("%s: %s" % (txt, o.info))
                if cand is not None and cand_model is None:
                    cand_model, cand_obl = cand, o
        r = Result("%s%s.%s" % (prop_prefix, short, label), agg_status, klass=klass,
                   backend="+".join(sorted(backends)), time_s=agg_time, function=key,
                   detail="%s [%d path(s)] %s" % (label, len(obs), obs[0].info), witness=witness,
                   output="\n".join(outs))
        r.cand = cand_model is not None
        if agg_status == UNDECIDED and cand_model is not None and witness is None:
            r.witness = model_json(E, cand_model, env)
        if agg_status == VIOLATED and replayer is not None:
            try:
                rep = replayer(E, c, wmodel, env, wit_obl)
                if rep is not None:
                    r.replayed, r.replay = rep
            except Exception as e:   # replay trouble never changes the verdict
                r.replay = {"replay_error": repr(e)}
        elif agg_status == UNDECIDED and replayer is not None:
            # solver gave no verdict: a candidate model (or the directed search) that reproduces
            # natively on the real code is a violation; otherwise the obligation stays undecided
            try:
                rep = replayer(E, c, cand_model, env, cand_obl)
                if rep is not None and rep[0]:
                    r.status, r.replayed, r.replay = VIOLATED, True, rep[1]
                    r.witness = model_json(E, cand_model, env) if cand_model is not None else None
                    r.output += "\nundecided by the solvers; candidate/directed witness reproduced natively"
            except Exception as e:
                r.replay = {"replay_error": repr(e)}
        results.append(r)
    # vacuity: no explored exit path may have a refutable path condition once the quantified
    # facts (callee postconditions, heap well-formedness) are added -- otherwise every
    # obligation on it would be discharged for the wrong reason
    vac = []
    sample = exits if len(exits) <= 8 else [exits[(i * (len(exits) - 1)) // 7] for i in range(8)]
    for kind, st2, payload in sample:
        stt, _, _, _, txt, _ = check(st2.pc, z3.BoolVal(False), timeout_ms=1000, quick=True)
        if stt == DISCHARGED:
            vac.append("/".join(st2.trace[-6:]) or "<straight-line>")
    if vac and len(vac) == len(sample):
        results.append(Result("%s%s.vacuity" % (prop_prefix, short), ERROR, klass="L", backend="z3", function=key,
                              output="the path condition of every exit path is refutable (inconsistent contracts or axioms): %s" % (vac[:4],)))
    dead_note = ""
    if vac:
        dead_note = "; %d path(s) are dead once quantified facts are used: %s" % (len(vac), vac[:3])
    results.append(Result("%s%s.reachable" % (prop_prefix, short), DISCHARGED, klass="L", backend="z3",
                          function=key, detail="canary: %d feasible exit path(s), %d pruned; postcondition False would be refuted%s"
                          % (len(exits) - len(vac), E.pruned, dead_note)))
    return results, E


def frame_allowed(E: Engine, c: S.Contract, env):
    """(allowed: heap key prefix -> list of index terms or '*', ghosts: set) from the modifies clause,
    evaluated in the pre-state."""
    import ast as _ast
    from .speceval import parse_expr
    old = E.old0
    allowed, ghosts = {}, set()

    def add(key, idx):
        allowed.setdefault(key, []).append(idx)

    def container_keys(v):
        if is_listlike(v.ty):
            add("list:%s" % elem_ty(v.ty), v.t)
        elif is_dictlike(v.ty):
            kt, vt = dict_tys(v.ty)
            add("ddom:%s~%s" % (kt, vt), v.t)
            add("dval:%s~%s" % (kt, vt), v.t)
        elif v.ty.kind == "set":
            add("set:%s" % v.ty.args[0], v.t)
        else:
            raise Unsupported("modifies: %s is not a container" % v.ty)

    se = SpecEval(old, env, None, None, E)
    for loc in c.modifies:
        n = parse_expr(loc)
        if isinstance(n, _ast.Attribute) and isinstance(n.value, _ast.Name) and n.value.id == "G":
            ghosts.add(n.attr)
            continue
        if isinstance(n, _ast.Call) and isinstance(n.func, _ast.Name) and n.func.id == "heap":
            add(n.args[0].value, "*")
            continue
        if isinstance(n, _ast.Call) and isinstance(n.func, _ast.Name) and n.func.id == "fresh_heap":
            continue       # only objects allocated during the call: never constrained by the frame check
        pointer = False
        if isinstance(n, _ast.Call) and isinstance(n.func, _ast.Name) and n.func.id == "ptr":
            pointer, n = True, n.args[0]
        if isinstance(n, _ast.Attribute):
            base = se.ev(n.value)
            fty, owner = S.find_field(base.ty.name, n.attr)
            if pointer or not (is_listlike(fty) or is_dictlike(fty) or fty.kind == "set"):
                add("f:%s.%s" % (owner, n.attr), base.t)
            else:
                container_keys(old.get_field(base, n.attr))
            continue
        container_keys(se.ev(n))
    return allowed, ghosts


def frame_obligations(E: Engine, c: S.Contract, env, st: State, tag):
    """Everything outside the modifies clause is unchanged for every object that existed on entry."""
    from .state import ALLOC0
    allowed, ghosts = frame_allowed(E, c, env)
    x = z3.Int("x!frame")
    for key, final in st.heap.items():
        init = z3.Const("H0_" + key, final.sort())
        if final.eq(init):
            continue
        idxs = []
        whole = False
        for pk, lst in allowed.items():
            star = any(isinstance(i, str) for i in lst)
            if key == pk or key.startswith(pk + "?") or key.startswith(pk + "!") or key.startswith(pk + "#") or \
                    (star and key.startswith(pk)):
                if star:
                    whole = True
                idxs.extend(i for i in lst if not isinstance(i, str))
        if whole:
            continue
        cond = [x > 0, x < ALLOC0] + [x != i for i in idxs]
        goal = z3.ForAll([x], z3.Implies(z3.And(cond), z3.Select(final, x) == z3.Select(init, x)))
        E.oblige(st, goal, "frame:%s" % key, "P", "frame",
                 "%s: heap location family %s changes only where `modifies` allows" % (tag, key))
    for g, v in st.ghost.items():
        if g.startswith("_") or g in ghosts or g not in S.GHOSTS:
            continue
        v0 = E.old0.ghost.get(g)
        if v0 is None or v.t is None or v0.t is None:
            continue
        if not v.t.eq(v0.t):
            E.oblige(st, v.t == v0.t, "frame:G.%s" % g, "P", "frame", "%s: ghost G.%s not in `modifies`" % (tag, g))


def exit_obligations(E: Engine, c: S.Contract, env, kind, st: State, payload):
    old, penv = E.old0, env
    if kind in ("next", "return", "raise"):
        frame_obligations(E, c, env, st, "normal exit" if kind != "raise" else "exceptional exit")
    if kind in ("break", "continue"):
        raise Unsupported("break/continue outside loop")
    if kind in ("next", "return"):
        res = payload if kind == "return" else vnone()
        e2 = dict(penv)
        if c.returns is not None:
            if res.ty.kind == "opt" and c.returns.kind not in ("opt", "any") and not c.returns.nullable:
                E.oblige(st, z3.Not(res.isnone), "return-not-none", "P", "post",
                         "returns None where the contract promises %s" % c.returns)
                res = res.val
            if res.ty.kind == "any" and c.returns.kind in ("str", "bytes", "int", "bool"):
                tagname = {"str": "str", "bytes": "bytes", "int": "int", "bool": "bool"}[c.returns.kind]
                tag = ops.UF("any_isinstance_" + tagname, z3.IntSort(), z3.BoolSort())
                E.oblige(st, z3.And(res.t != 0, tag(res.t)), "return-is-" + tagname, "P", "post",
                         "the returned object is a %s (established by an isinstance test on the path)" % tagname)
                res = V(c.returns, ops.UF("unbox_" + c.returns.kind, z3.IntSort(), sort_of(c.returns))(res.t))
            try:
                res = coerce(res, c.returns)
            except Unsupported as ex:
                E.oblige(st, z3.BoolVal(False), "return-type", "P", "post",
                         "returns %s where the contract says %s" % (res.ty, c.returns))
                return
        e2["result"] = res
        if E.is_generator:
            e2["yields"] = st.ghost.get("_yields", vint(0))
        se = SpecEval(st, e2, old, penv, E)
        for cl in c.ensures:
            E.oblige(st, se.bool_of(cl.expr), "post:" + cl.label, cl.klass, "post",
                     "ensures %s" % cl.expr)
        for i, dbg in enumerate(filter(None, os.environ.get("PYVC_DEBUG_GOALS", "").split(";;"))):
            E.oblige(st, se.bool_of(dbg), "debug:%d" % i, "L", "post", "debug goal %s" % dbg)
        return
    # exceptional exit
    exc: Exc = payload
    xenv = dict(penv)
    if exc.rid is not None:
        xenv["raised"] = exc.rid
    elif exc.ref is not None:
        xenv["raised"] = exc.ref
    else:
        xenv["raised"] = fresh(ANY, "raised")
    se = SpecEval(st, xenv, old, penv, E)
    allowed = None
    for ename, spec in c.raises.items():
        if ename == "*":
            allowed = allowed or spec
            continue
        cls = E.exc_class(ename)
        if exc.cls is not None and issubclass(exc.cls, cls):
            allowed = spec
            break
    if allowed is None:
        E.oblige(st, z3.BoolVal(False), "no-raise:%s" % exc.name(), "P", "exc",
                 "an exception %s (%s) can escape but the contract allows %s"
                 % (exc.name(), exc.origin, list(c.raises) or "none"))
        return
    if allowed.get("when"):
        w = SpecEval(old, penv, None, None, E).bool_of(allowed["when"])
        E.oblige(st, w, "raise-when:%s" % exc.name(), "P", "exc",
                 "%s raised (%s) only when %s" % (exc.name(), exc.origin, allowed["when"]))
    for cl in allowed["ensures"] + c.ensures_exc:
        E.oblige(st, se.bool_of(cl.expr), "exc-post:%s:%s" % (exc.name(), cl.label), cl.klass, "exc",
                 "on %s: %s" % (exc.name(), cl.expr))
