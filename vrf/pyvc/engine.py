"""pyvc: forward symbolic execution of a Python subset over the *real* source
of a function read from /repo, producing one SMT query per path and per
contract clause.  Callees are used through their contracts only."""
from __future__ import annotations

import ast
import builtins as _bi
import importlib
import os
import time

import z3

from ..core import REPO
from .types import (Ty, V, INT, BOOL, REAL, STR, BYTES, ANY, NONE, SEQ, LIST, DICT, WRITER, STAR, OBJ,
                    TUPLE, sort_of, vint, vbool, vstr, vnone, vtuple, vopt, vreal, fresh, parse_ty)
from .state import (State, Exc, Raised, Unsupported, box, coerce, is_listlike, is_dictlike,
                    elem_ty, dict_tys)
from . import ops
from . import spec as S
from .speceval import SpecEval, parse_expr, str_method, ite

CLASSV = Ty("class")
STATIC = Ty("static")
MODULE = Ty("module")
CLOSURE = Ty("closure")
BOUND = Ty("bound")       # bound method of a repo object / builtin container


class ModCtx:
    """AST and import table of one repo module."""
    _cache = {}

    def __init__(self, modname, source=None):
        self.name = modname
        if source is None:
            rel = modname.replace(".", "/") + ".py"
            self.path = os.path.join(REPO, rel)
            with open(self.path, encoding="utf-8") as f:
                self.source = f.read()
        else:
            self.path = "<generated %s>" % modname
            self.source = source
        self.tree = ast.parse(self.source)
        self.imports = {}
        self.toplevel = {}
        for n in self.tree.body:
            self._scan(n)

    def _scan(self, n):
        if isinstance(n, ast.Import):
            for a in n.names:
                if a.asname:
                    self.imports[a.asname] = ("mod", a.name)
                else:
                    self.imports[a.name.split(".")[0]] = ("mod", a.name.split(".")[0])
        elif isinstance(n, ast.ImportFrom):
            base = n.module or ""
            if n.level:
                pk = self.name.rsplit(".", n.level)[0]
                base = pk + ("." + base if base else "")
            for a in n.names:
                self.imports[a.asname or a.name] = ("from", base, a.name)
        elif isinstance(n, (ast.FunctionDef, ast.ClassDef)):
            self.toplevel[n.name] = n
        elif isinstance(n, ast.Assign):
            for t in n.targets:
                if isinstance(t, ast.Name):
                    self.toplevel[t.id] = n
        elif isinstance(n, (ast.Try, ast.If)):
            for b in n.body:
                self._scan(b)

    @classmethod
    def get(cls, modname):
        m = cls._cache.get(modname)
        if m is None:
            m = cls._cache[modname] = ModCtx(modname)
        return m

    @classmethod
    def register_generated(cls, modname, source):
        m = cls._cache[modname] = ModCtx(modname, source)
        return m

    def find_def(self, qualname):
        """AST of Class.method / function / function.inner ..."""
        parts = qualname.split(".")
        body = self.tree.body
        node = None
        for p in parts:
            node = None
            for n in walk_defs(body):
                if isinstance(n, (ast.FunctionDef, ast.ClassDef)) and n.name == p:
                    node = n
                    break
            if node is None:
                return None
            body = node.body
        return node


def walk_defs(body):
    """Definitions reachable in a body without entering nested defs/classes."""
    for n in body:
        if isinstance(n, (ast.FunctionDef, ast.ClassDef)):
            yield n
        else:
            for f in ("body", "orelse", "finalbody", "handlers"):
                sub = getattr(n, f, None)
                if isinstance(sub, list):
                    yield from walk_defs([x for x in sub if isinstance(x, ast.AST)])


def is_module(name):
    try:
        importlib.import_module(name)
        return True
    except Exception:
        return False


class Obl:
    def __init__(self, label, klass, pc, goal, kind, path, info=""):
        self.label, self.klass, self.pc, self.goal = label, klass, pc, goal
        self.kind, self.path, self.info = kind, path, info


class Engine:
    def __init__(self, key, contract: S.Contract = None):
        self.key = key
        S.CURRENT_CALLER = key
        self.contract = contract or S.CONTRACTS[key]
        modname, qual = key.split(":")
        self.mod = ModCtx.get(modname)
        self.qual = qual
        self.fn = self.mod.find_def(qual)
        if self.fn is None:
            raise Unsupported("function %s not found in %s" % (qual, self.mod.path))
        self.stmt_hook = None
        self.cls = None
        parts = qual.split(".")
        if len(parts) >= 2 and isinstance(self.mod.find_def(parts[0]), ast.ClassDef):
            self.cls = parts[0]
        self.obls: list[Obl] = []
        self._pending_nonnull = []
        self._pending_false = []
        self.loop_ord = {}
        self.npaths = 0
        self.pruned = 0
        self.solver_time = 0.0
        self.used_contracts = set()
        self.used_assumed = set()
        self.is_generator = any(isinstance(x, (ast.Yield, ast.YieldFrom)) for x in own_nodes(self.fn))
        self.old0 = None
        self.penv0 = None
        # number loops in source order
        loops = [n for n in own_nodes(self.fn) if isinstance(n, (ast.For, ast.While))]
        for k, n in enumerate(sorted(loops, key=lambda n: (n.lineno, n.col_offset))):
            self.loop_ord[id(n)] = k

    def source_segment(self):
        return ast.get_source_segment(self.mod.source, self.fn) or ""

    # ------------------------------------------------------------------
    # feasibility
    def feasible(self, st: State, extra=None):
        # quantified conjuncts are left out: a weaker path condition can only make the
        # check answer "feasible" more often, which is the safe direction for pruning
        s = z3.Solver()
        s.set("timeout", 1500)
        s.add(*[p for p in st.pc if not has_quantifier(p)])
        if extra is not None:
            s.add(extra)
        t0 = time.time()
        r = s.check()
        self.solver_time += time.time() - t0
        return r != z3.unsat

    def branch(self, st: State, cond):
        """Fork on a boolean term; yields (state, taken) for feasible sides."""
        cond = z3.simplify(cond)
        if z3.is_true(cond):
            yield st, True
            return
        if z3.is_false(cond):
            yield st, False
            return
        for val in (True, False):
            c = cond if val else z3.Not(cond)
            if self.feasible(st, c):
                s2 = st.fork()
                s2.assume(c)
                yield s2, val
            else:
                self.pruned += 1

    def oblige(self, st: State, goal, label, klass="P", kind="assert", info=""):
        self.obls.append(Obl(label, klass, list(st.pc), goal, kind, list(st.trace), info))

    # ------------------------------------------------------------------
    # static name resolution
    def global_value(self, name):
        g = S.GLOBALS.get("%s:%s" % (self.mod.name, name))
        if g is not None:
            return self._global_const("%s:%s" % (self.mod.name, name), g)
        return None

    def _global_const(self, q, g):
        if g[0] == "StrDictLiteral":
            # a module-level dict of string constants, read from the real source on every run
            # (assumption listed with the contract: nothing mutates it at run time)
            modname, nm = q.split(":")
            tree = ModCtx.get(modname).tree
            lit = None
            for node in tree.body:
                if isinstance(node, ast.Assign) and len(node.targets) == 1 and getattr(node.targets[0], "id", None) == nm:
                    lit = node.value
            if not isinstance(lit, ast.Dict) or not all(isinstance(x, ast.Constant) and isinstance(x.value, str) for x in lit.keys + lit.values):
                raise Unsupported("%s is not a dict literal of string constants" % q)
            dom = z3.K(z3.StringSort(), z3.BoolVal(False))
            val = z3.K(z3.StringSort(), z3.StringVal(""))
            for kx, vx in zip(lit.keys, lit.values):
                dom = z3.Store(dom, z3.StringVal(kx.value), True)
                val = z3.Store(val, z3.StringVal(kx.value), z3.StringVal(vx.value))
            dv = ops.mk_dictv(STR, STR, dom, val)
            dv._lit = [(kx.value, vx.value) for kx, vx in zip(lit.keys, lit.values)]
            return dv
        ty = parse_ty(g[0])
        if ty.kind in ("opt", "tuple"):
            raise Unsupported("global of type %s" % ty)
        return V(ty, z3.Const("G_" + q, sort_of(ty)))

    def resolve_static(self, node, st: State):
        if isinstance(node, ast.Name):
            nm = node.id
            if nm in st.env:
                return None
            for fr in reversed(st.frames):
                if nm in fr:
                    return None
            imp = self.mod.imports.get(nm)
            if imp:
                if imp[0] == "mod":
                    return ("mod", imp[1])
                full = imp[1] + "." + imp[2] if imp[1] else imp[2]
                if is_module(full):
                    return ("mod", full)
                return ("sym", "%s:%s" % (imp[1], imp[2]))
            if nm in self.mod.toplevel:
                return ("sym", "%s:%s" % (self.mod.name, nm))
            if hasattr(_bi, nm):
                return ("sym", "builtins:%s" % nm)
            return None
        if isinstance(node, ast.Attribute):
            base = self.resolve_static(node.value, st)
            if base is None:
                return None
            if base[0] == "mod":
                full = base[1] + "." + node.attr
                if is_module(full) and not hasattr(importlib.import_module(base[1]), "__path__") is False:
                    pass
                try:
                    modobj = importlib.import_module(base[1])
                    attr = getattr(modobj, node.attr, None)
                    import types as _t
                    if isinstance(attr, _t.ModuleType):
                        return ("mod", attr.__name__)
                except Exception:
                    pass
                return ("sym", "%s:%s" % (base[1], node.attr))
            if base[1] in S.GLOBALS:
                return None          # attribute of a global *value*: evaluated dynamically
            return ("sym", base[1] + "." + node.attr)
        return None

    def sym_value(self, q: str) -> V:
        if q in S.GLOBALS:
            return self._global_const(q, S.GLOBALS[q])
        if S.class_by_qual(q) is not None:
            return V(CLASSV, py=q)
        return V(STATIC, py=q)

    def real_object(self, q):
        mod, name = q.split(":")
        try:
            o = importlib.import_module(mod)
            for p in name.split("."):
                o = getattr(o, p)
            return o
        except Exception:
            return None

    # ------------------------------------------------------------------
    # expressions (code mode): generators of (state, V | Raised)
    def ev(self, n, st: State):
        m = getattr(self, "ev_" + type(n).__name__, None)
        if m is None:
            raise Unsupported("expression %s at line %d" % (type(n).__name__, getattr(n, "lineno", 0)))
        yield from m(n, st)

    def ev_Constant(self, n, st):
        c = n.value
        if c is None:
            yield st, vnone()
        elif isinstance(c, bool):
            yield st, vbool(c)
        elif isinstance(c, int):
            yield st, vint(c)
        elif isinstance(c, float):
            yield st, vreal(c)
        elif isinstance(c, str):
            yield st, vstr(c)
        elif isinstance(c, bytes):
            yield st, V(BYTES, z3.StringVal(c.decode("latin-1")))
        else:
            raise Unsupported("constant %r" % (c,))

    def ev_JoinedStr(self, n, st):
        # f-string: an opaque string (used for messages only)
        yield st, fresh(STR, "fstr")

    def lookup(self, name, st):
        if name in st.env:
            return st.env[name]
        for fr in reversed(st.frames):
            if name in fr:
                return fr[name]
        return None

    def ev_Name(self, n, st):
        v = self.lookup(n.id, st)
        if v is not None:
            yield st, v
            return
        r = self.resolve_static(n, st)
        if r is None:
            raise Unsupported("unbound name %r at line %d" % (n.id, n.lineno))
        if r[0] == "mod":
            yield st, V(MODULE, py=r[1])
        else:
            yield st, self.sym_value(r[1])

    def ev_Tuple(self, n, st):
        for st2, items in self.ev_list(n.elts, st):
            if isinstance(items, Raised):
                yield st2, items
            else:
                yield st2, vtuple(items)

    def ev_list(self, nodes, st):
        """Evaluate expressions left to right; yields (state, [V...] | Raised)."""
        if not nodes:
            yield st, []
            return
        for st1, v in self.ev(nodes[0], st):
            if isinstance(v, Raised):
                yield st1, v
                continue
            for st2, rest in self.ev_list(nodes[1:], st1):
                if isinstance(rest, Raised):
                    yield st2, rest
                else:
                    yield st2, [v] + rest

    def alloc_list(self, st, seqv: V, elem: Ty = None) -> V:
        elem = elem or (seqv.ty.args[0] if seqv.t is not None else ANY)
        r = st.new_ref(LIST(elem))
        st.list_set(r, ops.seq_term(seqv, elem))
        return r

    def ev_List(self, n, st):
        if any(isinstance(e, ast.Starred) for e in n.elts):
            raise Unsupported("starred list literal")
        for st2, items in self.ev_list(n.elts, st):
            if isinstance(items, Raised):
                yield st2, items
                continue
            hint = getattr(n, "_elem_hint", None)
            if not items:
                et = hint or ANY
                r = st2.new_ref(LIST(et))
                st2.list_set(r, z3.Empty(z3.SeqSort(sort_of(et))))
                yield st2, r
                continue
            et = hint or items[0].ty
            if any(i.ty != et for i in items):
                et = hint or ANY
            if et.kind in ("none", "opt", "tuple", "closure", "static", "class", "bound", "module", "star"):
                et = ANY
            t = None
            for i in items:
                u = z3.Unit(coerce(i, et).t)
                t = u if t is None else z3.Concat(t, u)
            r = st2.new_ref(LIST(et))
            st2.list_set(r, t)
            yield st2, r

    def ev_Dict(self, n, st):
        hint = getattr(n, "_dict_hint", None)
        kt, vt = hint if hint else (STR, ANY)
        # {**a, k: v, **b}: entries in document order, later ones override (a None key marks an unpacked dict)
        exprs = [v if k is None else k for k, v in zip(n.keys, n.values)] + [v for k, v in zip(n.keys, n.values) if k is not None]
        for st2, items in self.ev_list(exprs, st):
            if isinstance(items, Raised):
                yield st2, items
                continue
            firsts = items[:len(n.keys)]
            rest = iter(items[len(n.keys):])
            d = st2.new_ref(DICT(kt, vt))
            dom = z3.K(sort_of(kt), z3.BoolVal(False))
            val = z3.Const("dval0!%d" % id(n), z3.ArraySort(sort_of(kt), sort_of(vt)))
            empty = True
            for k_ast, first in zip(n.keys, firsts):
                if k_ast is None:
                    if not is_dictlike(first.ty):
                        raise Unsupported("** of %s in a dict literal" % first.ty)
                    if dict_tys(first.ty) != (kt, vt):
                        raise Unsupported("** of a %s into a dict literal of %s" % (first.ty, DICT(kt, vt)))
                    d2, v2 = st2.dict_get(first)
                    if empty:
                        dom, val = d2, v2          # {**a, ...}: starts as a copy of a
                    else:
                        dom, val = ops.dict_merge(dom, val, d2, v2, kt, vt)
                    empty = False
                else:
                    v = next(rest)
                    dom = z3.Store(dom, coerce(first, kt).t, True)
                    val = z3.Store(val, coerce(first, kt).t, coerce(v, vt).t)
                    empty = False
            st2.dict_set(d, dom, val)
            yield st2, d

    def ev_UnaryOp(self, n, st):
        for st2, v in self.ev(n.operand, st):
            if isinstance(v, Raised):
                yield st2, v
            elif isinstance(n.op, ast.Not):
                for st3, b in self.truthy(st2, v):
                    yield st3, (b if isinstance(b, Raised) else vbool(z3.Not(b)))
            elif isinstance(n.op, ast.USub):
                yield st2, V(v.ty, -v.t)
            else:
                raise Unsupported("unary operator")

    def truthy(self, st, v: V):
        """yields (state, z3 bool | Raised); objects with __bool__ go through its contract."""
        if v.ty.kind == "obj":
            cs = S.CLASSES.get(v.ty.name)
            key = S.find_method(v.ty.name, "__bool__") if cs else None
            if key:
                for st2, r in self.apply_contract(key, [v], {}, st, "bool()"):
                    if isinstance(r, Raised):
                        yield st2, r
                    else:
                        yield st2, ops.truthy(st2, r)
                return
        yield st, ops.truthy(st, v)

    def ev_BoolOp(self, n, st):
        isand = isinstance(n.op, ast.And)

        def go(i, st):
            for st1, v in self.ev(n.values[i], st):
                if isinstance(v, Raised) or i == len(n.values) - 1:
                    yield st1, v
                    continue
                for st1b, t in self.truthy(st1, v):
                    if isinstance(t, Raised):
                        yield st1b, t
                        continue
                    for st2, taken in self.branch(st1b, t):
                        st2.trace.append("L%d:%s[%d]=%s" % (n.lineno, "and" if isand else "or", i, taken))
                        self.narrow(n.values[i], taken, st2)
                        if taken == isand:
                            yield from go(i + 1, st2)
                        else:
                            yield st2, v
        yield from go(0, st)

    def ev_IfExp(self, n, st):
        for st1, c in self.ev(n.test, st):
            if isinstance(c, Raised):
                yield st1, c
                continue
            for st1b, t in self.truthy(st1, c):
                if isinstance(t, Raised):
                    yield st1b, t
                    continue
                for st2, taken in self.branch(st1b, t):
                    st2.trace.append("L%d:ifexp=%s" % (n.lineno, taken))
                    yield from self.ev(n.body if taken else n.orelse, st2)

    def ev_BinOp(self, n, st):
        op = SpecEval._binops.get(type(n.op))
        if op is None and isinstance(n.op, (ast.BitOr, ast.BitAnd)):
            for st2, ab in self.ev_list([n.left, n.right], st):
                if isinstance(ab, Raised):
                    yield st2, ab
                elif ab[0].ty.kind == "int" and ab[1].ty.kind == "int":
                    f = ops.UF("bit" + type(n.op).__name__.lower(), z3.IntSort(), z3.IntSort(), z3.IntSort())
                    yield st2, V(INT, f(ab[0].t, ab[1].t))
                else:
                    raise Unsupported("bit operator on %s, %s" % (ab[0].ty, ab[1].ty))
            return
        if op is None:
            raise Unsupported("binary operator %s" % type(n.op).__name__)
        for st2, ab in self.ev_list([n.left, n.right], st):
            if isinstance(ab, Raised):
                yield st2, ab
                continue
            a, b = ab
            if op in ("//", "%", "/") and a.ty.kind in ("int", "real", "bool") and b.ty.kind in ("int", "real", "bool"):
                x, y = ops.num_pair(a, b)
                for st3, zero in self.branch(st2, y == 0):
                    if zero:
                        yield st3, Raised(Exc(ZeroDivisionError, origin="line %d" % n.lineno))
                    else:
                        yield st3, ops.binop(st3, op, a, b)
                continue
            if op == "%" and a.ty.kind == "str" and b.ty.kind == "opt" and b.ty.args[0].kind == "str":
                # 'fmt' % <Opt[str]>: None is formatted as the text 'None', a string as itself
                for st3, isn in self.branch(st2, b.isnone):
                    yield st3, ops.binop(st3, op, a, vstr("None") if isn else b.val, alloc=lambda s, _st=st3: self.alloc_list(_st, s))
                continue
            if op in ("+", "-") and {a.ty.kind, b.ty.kind} <= {"any", "int"} and "any" in (a.ty.kind, b.ty.kind) \
                    and not getattr(self.contract, "opaque_attrs", False):
                # arithmetic on a dynamically typed operand: proved to be an int (obligation), then exact
                unb = ops.UF("unbox_int", z3.IntSort(), z3.IntSort())
                def as_int(v):
                    if v.ty.kind == "int":
                        return v.t
                    self.oblige(st2, box(V(INT, unb(v.t))).t == v.t, "operand-is-int:L%d" % n.lineno, "P", "type",
                                "the dynamically typed operand of %s at line %d is an int" % (op, n.lineno))
                    return unb(v.t)
                x, y = as_int(a), as_int(b)
                yield st2, box(V(INT, x + y if op == "+" else x - y))
                continue
            if (a.ty.kind == "any" or b.ty.kind == "any") and getattr(self.contract, "opaque_attrs", False):
                # operator on an arbitrary object: __add__/__radd__ ... may return anything or raise
                yield st2.fork(), Raised(Exc(None, origin="operator %s on an arbitrary object line %d" % (op, n.lineno)))
                yield st2, V(ANY, ops.UF("any_binop_" + type(n.op).__name__, z3.IntSort(), z3.IntSort(), z3.IntSort())(box(a).t, box(b).t))
                continue
            yield st2, ops.binop(st2, op, a, b, alloc=lambda s, _st=st2: self.alloc_list(_st, s))

    def ev_Compare(self, n, st):
        if len(n.ops) != 1:
            # a < b < c: evaluate all operands then conjoin (operands here are pure)
            for st2, vals in self.ev_list([n.left] + list(n.comparators), st):
                if isinstance(vals, Raised):
                    yield st2, vals
                    continue
                conj = [ops.compare(st2, SpecEval._cmpops[type(o)], vals[i], vals[i + 1])
                        for i, o in enumerate(n.ops)]
                yield st2, vbool(z3.And(conj))
            return
        for st2, ab in self.ev_list([n.left, n.comparators[0]], st):
            if isinstance(ab, Raised):
                yield st2, ab
                continue
            yield st2, vbool(ops.compare(st2, SpecEval._cmpops[type(n.ops[0])], ab[0], ab[1]))

    def ev_Attribute(self, n, st):
        r = self.resolve_static(n, st)
        if r is not None:
            if r[0] == "mod":
                yield st, V(MODULE, py=r[1])
            else:
                yield st, self.sym_value(r[1])
            return
        for st2, base in self.ev(n.value, st):
            if isinstance(base, Raised):
                yield st2, base
                continue
            yield from self.getattr_(st2, base, n.attr, n)

    def getattr_(self, st, base: V, attr: str, n=None):
        k = base.ty.kind
        line = getattr(n, "lineno", 0)
        if k == "obj":
            pk = S.find_property(base.ty.name, attr)
            if pk:
                yield from self.null_guard(st, base, attr, line,
                                           lambda s: self.apply_contract(pk, [base], {}, s, "property %s" % attr))
                return
            fty, owner = S.find_field(base.ty.name, attr)
            if fty is not None:
                yield from self.null_guard(st, base, attr, line, lambda s: iter([(s, self.wf(s, s.get_field(base, attr)))]))
                return
            mk = S.find_method(base.ty.name, attr)
            cs0 = S.CLASSES.get(base.ty.name)
            if not mk and cs0 is not None and any(c.qual == cs0.qual + "." + attr for c in S.CLASSES.values()):
                yield st, self.sym_value(cs0.qual + "." + attr)       # a class nested in the receiver's class
                return
            if mk or (is_listlike(base.ty) or is_dictlike(base.ty)):
                yield st, V(BOUND, py=(base, attr))
                return
            raise Unsupported("attribute %s.%s has no schema (line %d)" % (base.ty.name, attr, line))
        if k in ("list", "dict", "set", "str", "bytes", "seq", "dictv"):
            yield st, V(BOUND, py=(base, attr))
            return
        if k == "none":
            yield st, Raised(Exc(AttributeError, origin="None.%s line %d" % (attr, line)))
            return
        if k == "opt":
            # Opt[scalar]: None has no attributes; otherwise the attribute of the value
            for st2, isn in self.branch(st, base.isnone):
                if isn:
                    yield st2, Raised(Exc(AttributeError, origin="None.%s line %d" % (attr, line)))
                else:
                    yield from self.getattr_(st2, base.val, attr, n)
            return
        if k in ("module", "static", "class"):
            yield st, self.sym_value(base.py + ("." if ":" in base.py else ":") + attr)
            return
        if k == "closure":
            raise Unsupported("attribute %s of a closure" % attr)
        if k == "any" and getattr(self.contract, "opaque_attrs", False):
            # attribute of an arbitrary object: some value, or AttributeError / whatever __getattr__ raises
            yield st.fork(), Raised(Exc(None, origin="getattr(<object>, %r) line %d" % (attr, line)))
            yield st, V(ANY, ops.UF("any_getattr", z3.IntSort(), z3.StringSort(), z3.IntSort())(base.t, z3.StringVal(attr)))
            return
        raise Unsupported("attribute %s of %s (line %d)" % (attr, base.ty, line))

    def wf(self, st, v: V) -> V:
        """Heap well-formedness (R7): every reference stored in the heap is None or allocated."""
        if v.ty.is_ref and v.t is not None and not z3.is_int_value(v.t):
            st.assume(z3.And(v.t >= 0, v.t < st.alloc))
        elif v.ty.kind == "tuple":
            for i in v.items:
                self.wf(st, i)
        return v

    def null_guard(self, st, base, attr, line, cont):
        if base.ty.nullable or getattr(base, "_maybe_none", False):
            for st2, isn in self.branch(st, base.t == 0):
                if isn:
                    yield st2, Raised(Exc(AttributeError, origin="None.%s line %d" % (attr, line)))
                else:
                    yield from cont(st2)
        else:
            yield from cont(st)

    def ev_Subscript(self, n, st):
        for st2, base in self.ev(n.value, st):
            if isinstance(base, Raised):
                yield st2, base
                continue
            if isinstance(n.slice, ast.Slice):
                parts = [p for p in (n.slice.lower, n.slice.upper) if p is not None]
                if n.slice.step is not None:
                    raise Unsupported("slice step")
                for st3, vs in self.ev_list(parts, st2):
                    if isinstance(vs, Raised):
                        yield st3, vs
                        continue
                    it = iter(vs)
                    lo = next(it).t if n.slice.lower is not None else None
                    hi = next(it).t if n.slice.upper is not None else None
                    yield st3, self.slice_(st3, base, lo, hi, n)
                continue
            for st3, idx in self.ev(n.slice, st2):
                if isinstance(idx, Raised):
                    yield st3, idx
                    continue
                yield from self.index_(st3, base, idx, n)

    def slice_(self, st, base: V, lo, hi, n):
        if base.ty.kind in ("str", "bytes"):
            return V(base.ty, ops.slice_seq(base.t, lo, hi))
        if base.ty.kind == "tuple":
            if all(x is None or z3.is_int_value(z3.simplify(x)) for x in (lo, hi)):
                l = None if lo is None else z3.simplify(lo).as_long()
                h = None if hi is None else z3.simplify(hi).as_long()
                return vtuple(base.items[l:h])
            raise Unsupported("symbolic tuple slice")
        s = ops.as_seq(st, base)
        r = V(s.ty, ops.slice_seq(s.t, lo, hi))
        if is_listlike(base.ty):
            return self.alloc_list(st, r)
        return r

    def index_(self, st, base: V, idx: V, n):
        line = n.lineno
        if base.ty.kind == "tuple":
            i = z3.simplify(idx.t)
            if z3.is_int_value(i):
                yield st, base.items[i.as_long()]
                return
            raise Unsupported("symbolic tuple index")
        if is_dictlike(base.ty):
            kt, vt = dict_tys(base.ty)
            gk = S.find_method(base.ty.name, "__getitem__") if base.ty.kind == "obj" else None
            if gk:
                yield from self.apply_contract(gk, [base, idx], {}, st, "__getitem__")
                return
            dom, val = st.dict_get(base)
            k = coerce(idx, kt)
            for st2, present in self.branch(st, z3.Select(dom, k.t)):
                if present:
                    yield st2, self.wf(st2, V(vt, z3.Select(val, k.t)))
                else:
                    yield st2, Raised(Exc(KeyError, origin="line %d" % line))
            return
        if base.ty.kind in ("str", "bytes"):
            ln = z3.Length(base.t)
            i = ops.norm_index(ln, idx.t)
            for st2, ok in self.branch(st, z3.And(i >= 0, i < ln)):
                if ok:
                    yield st2, V(base.ty, z3.SubString(base.t, i, 1))
                else:
                    yield st2, Raised(Exc(IndexError, origin="line %d" % line))
            return
        if base.ty.kind == "any":
            raise Unsupported("subscript of an opaque value (line %d)" % line)
        if base.ty.kind == "obj" and not is_listlike(base.ty):
            gk = S.find_method(base.ty.name, "__getitem__")
            if gk:
                yield from self.apply_contract(gk, [base, idx], {}, st, "%s[...] line %d" % (base.ty.name, line))
                return
        s = ops.as_seq(st, base)
        if s.t is None:
            yield st, Raised(Exc(IndexError, origin="line %d" % line))
            return
        ln = z3.Length(s.t)
        i = ops.norm_index(ln, idx.t)
        for st2, ok in self.branch(st, z3.And(i >= 0, i < ln)):
            if ok:
                yield st2, self.wf(st2, V(s.ty.args[0], s.t[i]))
            else:
                yield st2, Raised(Exc(IndexError, origin="line %d" % line))

    def ev_Lambda(self, n, st):
        yield st, V(CLOSURE, py=(n, dict(st.env), list(st.frames)))

    def ev_ListComp(self, n, st):
        # supported: one generator over a structural tuple (statically unrolled)
        if len(n.generators) != 1:
            raise Unsupported("nested comprehension")
        g = n.generators[0]
        for st1, it in self.ev(g.iter, st):
            if isinstance(it, Raised):
                yield st1, it
                continue
            if it.ty.kind != "tuple" and isinstance(g.target, ast.Name) and not g.ifs:
                # [f(x) for x in <list / dict values>] with a pure, single-path element expression: a sequence of
                # the same length whose i-th element is f(source[i])  (MAP rule)
                yield from self.map_comprehension(n, g, st1, it)
                continue
            if it.ty.kind != "tuple" or not isinstance(g.target, ast.Name):
                raise Unsupported("list comprehension over %s (line %d)" % (it.ty, n.lineno))

            def go(i, st, acc):
                if i == len(it.items):
                    et = acc[0].ty if acc else STR
                    hint = getattr(n, "_elem_hint", None)
                    if hint:
                        et = hint
                    if et.kind in ("opt",):
                        et = et.args[0]
                    t = z3.Empty(z3.SeqSort(sort_of(et)))
                    for a in acc:
                        a2 = a.val if a.ty.kind == "opt" else a
                        t = z3.Concat(t, z3.Unit(coerce(a2, et).t))
                    yield st, self.alloc_list(st, V(SEQ(et), t), et)
                    return
                st.env[g.target.id] = it.items[i]
                conds = g.ifs

                def filt(j, st):
                    if j == len(conds):
                        for st3, v in self.ev(n.elt, st):
                            if isinstance(v, Raised):
                                yield st3, v
                            else:
                                yield from go(i + 1, st3, acc + [v])
                        return
                    for st2, c in self.ev(conds[j], st):
                        if isinstance(c, Raised):
                            yield st2, c
                            continue
                        for st3, taken in self.branch(st2, ops.truthy(st2, c)):
                            st3.trace.append("L%d:comp[%d]if=%s" % (n.lineno, i, taken))
                            if taken:
                                yield from filt(j + 1, st3)
                            else:
                                yield from go(i + 1, st3, acc)
                yield from filt(0, st)
            yield from go(0, st1, [])

    def ev_DictComp(self, n, st):
        """{key(x): value(x) for x in <set / list>} with pure single-path key and value expressions: a new dict d with
             (a) every element's key is a key of d;
             (b) every key k of d comes from some element w(k) of the source: key(w(k)) == k and d[k] == value(w(k))
           (which element wins when two share a key is left open - sound for 'the last one wins')"""
        if len(n.generators) != 1 or not isinstance(n.generators[0].target, ast.Name):
            raise Unsupported("dict comprehension shape (line %d)" % n.lineno)
        g = n.generators[0]
        for st1, it in self.ev(g.iter, st):
            if isinstance(it, Raised):
                yield st1, it
                continue
            if it.ty.kind == "set":
                et = it.ty.args[0]
                sdom = st1.set_get(it)
                member = lambda x: z3.Select(sdom, x)
            elif is_listlike(it.ty) or it.ty.kind == "seq":
                sq = ops.as_seq(st1, it)
                et = sq.ty.args[0]
                member = lambda x: z3.Contains(sq.t, z3.Unit(x))
            else:
                raise Unsupported("dict comprehension over %s (line %d)" % (it.ty, n.lineno))
            e = fresh(et, "dcomp_elem")
            probe = st1.fork()
            if et.is_ref:
                probe.assume(z3.And(e.t > 0, e.t < probe.alloc))
            probe.env[g.target.id] = e
            # the conditions first: each a pure single-path expression, taken by its truth value
            conds = []
            for cnd in g.ifs:
                pf = probe.fork()
                npc0 = len(pf.pc)
                co = list(self.ev(cnd, pf))
                if not co or any(isinstance(v_, Raised) for _, v_ in co):
                    raise Unsupported("dict comprehension condition may raise (line %d)" % n.lineno)
                # and / or split the evaluation into paths: the condition holds when some path is taken and its value is true
                conds.append(z3.Or([z3.And(list(s_.pc[npc0:]) + [ops.truthy(s_, v_)]) for s_, v_ in co]))
            cond_e = z3.And(conds) if conds else z3.BoolVal(True)
            probe2 = probe.fork()
            if conds:
                probe2.assume(cond_e)
            outs = list(self.ev_list([n.key, n.value], probe2))
            if len(outs) != 1 or isinstance(outs[0][1], Raised):
                raise Unsupported("dict comprehension key/value is not a single pure path (line %d)" % n.lineno)
            kv, vv = outs[0][1]
            if kv.t is None or vv.t is None or kv.ty.kind in ("opt", "tuple") or vv.ty.kind in ("opt", "tuple"):
                raise Unsupported("dict comprehension entry types %s: %s (line %d)" % (kv.ty, vv.ty, n.lineno))
            kt, vt = kv.ty, vv.ty
            d = st1.new_ref(DICT(kt, vt))
            tag = fresh(INT).t.hash()
            D = z3.Const("dcdom!%d" % tag, z3.ArraySort(sort_of(kt), z3.BoolSort()))
            Vv = z3.Const("dcval!%d" % tag, z3.ArraySort(sort_of(kt), sort_of(vt)))
            w = z3.Function("dcwit!%d" % tag, sort_of(kt), sort_of(et))
            x = z3.Const("x!dc%d" % tag, sort_of(et))
            k = z3.Const("k!dc%d" % tag, sort_of(kt))
            okx = z3.And(x > 0, x < st1.alloc) if et.is_ref else z3.BoolVal(True)
            st1.assume(z3.ForAll([x], z3.Implies(z3.And(okx, member(x), z3.substitute(cond_e, (e.t, x))), z3.Select(D, z3.substitute(kv.t, (e.t, x)))),
                                 patterns=[member(x)]))
            wk = w(k)
            okw = z3.And(wk > 0, wk < st1.alloc) if et.is_ref else z3.BoolVal(True)
            st1.assume(z3.ForAll([k], z3.Implies(z3.Select(D, k),
                                                 z3.And(okw, member(wk), z3.substitute(cond_e, (e.t, wk)), z3.substitute(kv.t, (e.t, wk)) == k,
                                                        z3.Select(Vv, k) == z3.substitute(vv.t, (e.t, wk)))),
                                 patterns=[z3.Select(D, k)]))
            st1.dict_set(d, D, Vv)
            yield st1, d

    def map_comprehension(self, n, g, st, it):
        if getattr(it, "_values_of", None) is not None:
            d = it._values_of
            kt, vt = dict_tys(d.ty)
            ks = self.dict_key_seq(st, d)
            _, val = st.dict_get(d)
            src = fresh(SEQ(vt), "dvals")
            j = z3.Int("j!dv")
            st.assume(z3.Length(src.t) == z3.Length(ks.t))
            st.assume(z3.ForAll([j], z3.Implies(z3.And(0 <= j, j < z3.Length(ks.t)), src.t[j] == z3.Select(val, ks.t[j]))))
            if vt.kind == "obj":
                st.assume(z3.ForAll([j], z3.Implies(z3.And(0 <= j, j < z3.Length(src.t)), z3.And(src.t[j] > 0, src.t[j] < st.alloc))))
        elif it.ty.kind == "set":
            src = self.set_elem_seq(st, it)
        else:
            src = ops.as_seq(st, it)
        if src.t is None:
            yield st, self.alloc_list(st, V(SEQ(STR), z3.Empty(z3.SeqSort(z3.StringSort()))), STR)
            return
        et_src = src.ty.args[0]
        e = fresh(et_src, "comp_elem")
        if et_src.kind == "obj":
            e = V(Ty("obj", et_src.args, et_src.name), e.t) if hasattr(et_src, "name") else e
        probe = st.fork()
        if et_src.is_ref:
            probe.assume(z3.And(e.t > 0, e.t < probe.alloc))
        probe.env[g.target.id] = e
        npc = len(probe.pc)
        outs = list(self.ev(n.elt, probe))
        normal = [o for o in outs if not isinstance(o[1], Raised)]
        raising = [o for o in outs if isinstance(o[1], Raised)]
        if len(normal) != 1:
            raise Unsupported("comprehension element expression is not a single pure path (line %d)" % n.lineno)
        st_o, tv = normal[0]
        for so, _ in outs:
            if so.alloc is not probe.alloc and not z3.eq(z3.simplify(so.alloc), z3.simplify(probe.alloc)) \
                    or any(so.heap.get(hk) is not hv and not z3.eq(so.heap.get(hk), hv) for hk, hv in probe.heap.items()):
                raise Unsupported("comprehension element expression has effects (line %d)" % n.lineno)
        if tv.ty.kind in ("opt", "tuple") or tv.t is None:
            raise Unsupported("comprehension element of type %s (line %d)" % (tv.ty, n.lineno))
        skip = npc + (1 if et_src.is_ref else 0)
        # an element expression that may raise: the comprehension raises when it does for some element (whatever came
        # before), and yields the mapped list when it does for none
        for so, rv in raising:
            stx = st.fork()
            j = fresh(INT, "comp_bad").t
            stx.assume(z3.And(0 <= j, j < z3.Length(src.t)))
            for c in so.pc[skip:]:
                stx.assume(z3.substitute(c, (e.t, src.t[j])))
            stx.trace.append("L%d:comp-raises" % n.lineno)
            yield stx, rv
        r = fresh(SEQ(tv.ty), "comp")
        i = z3.Int("i!comp")
        st.assume(z3.Length(r.t) == z3.Length(src.t))
        extra = [z3.substitute(c, (e.t, src.t[i])) for c in st_o.pc[skip:]]
        st.assume(z3.ForAll([i], z3.Implies(z3.And(0 <= i, i < z3.Length(src.t)),
                                             z3.And([r.t[i] == z3.substitute(tv.t, (e.t, src.t[i]))] + extra))))
        yield st, self.alloc_list(st, r, tv.ty)

    # ------------------------------------------------------------------
    # calls
    def ev_Call(self, n, st):
        # argument evaluation order: func, positional, keywords
        star, dstar = None, None
        pos_nodes = []
        for a in n.args:
            if isinstance(a, ast.Starred):
                star = a.value
            else:
                pos_nodes.append(a)
        kw_nodes = []
        for k in n.keywords:
            if k.arg is None:
                dstar = k.value
            else:
                kw_nodes.append(k)
        if isinstance(n.func, ast.Name) and n.func.id == "__M_dict_builtin" and len(n.args) == 1 \
                and isinstance(n.args[0], ast.ListComp):
            # the generated "__M_locals.update(dict([(k, stored[k]) for k in [...] if k in stored]))" idiom:
            # a new dict holding some of the listed names (content irrelevant to the render state)
            d = st.new_ref(DICT(STR, ANY))
            st.dict_set(d, z3.Const("lcd!%d" % fresh(INT).t.hash(), z3.ArraySort(z3.StringSort(), z3.BoolSort())),
                        z3.Const("lcv!%d" % fresh(INT).t.hash(), z3.ArraySort(z3.StringSort(), z3.IntSort())))
            yield st, d
            return
        for st1, f in self.ev(n.func, st):
            if isinstance(f, Raised):
                yield st1, f
                continue
            extra = [x for x in (star, dstar) if x is not None]
            for st2, vals in self.ev_list(pos_nodes + [k.value for k in kw_nodes] + extra, st1):
                if isinstance(vals, Raised):
                    yield st2, vals
                    continue
                args = vals[:len(pos_nodes)]
                kwargs = {k.arg: v for k, v in zip(kw_nodes, vals[len(pos_nodes):len(pos_nodes) + len(kw_nodes)])}
                ex = vals[len(pos_nodes) + len(kw_nodes):]
                starv = ex.pop(0) if star is not None else None
                dstarv = ex.pop(0) if dstar is not None else None
                yield from self.call(st2, f, args, kwargs, starv, dstarv, n)

    def call(self, st, f: V, args, kwargs, starv, dstarv, n):
        line = n.lineno
        k = f.ty.kind
        if dstarv is not None and is_dictlike(dstarv.ty):
            kwargs = dict(kwargs)
            kwargs["**"] = dstarv
            dstarv = None
        if starv is not None and starv.ty.kind == "tuple":
            args = list(args) + list(starv.items)
            starv = None
        if k == "writer":
            # bound list.append: append to the list it is bound to
            lst = V(LIST(ANY if not args else args[0].ty if args[0].ty.kind in ("str",) else ANY), f.t)
            lst = V(LIST(getattr(f, "_elem", None) or STR), f.t)
            cur = st.list_get(lst)
            item = coerce(args[0], lst.ty.args[0]) if args[0].ty.kind != "any" else V(STR, ops.UF("unbox_str", z3.IntSort(), z3.StringSort())(args[0].t))
            st.list_set(lst, z3.Concat(cur.t, z3.Unit(item.t)))
            yield st, vnone()
            return
        lcr = getattr(self.contract, "local_call_requires", None)
        if lcr and isinstance(n.func, ast.Name) and n.func.id in lcr:
            se = SpecEval(st, self.spec_env(st), self.old0, self.penv0, self)
            for cl in lcr[n.func.id]:
                self.oblige(st, se.bool_of(cl.expr), "at-call:%s:%s" % (n.func.id.rstrip("0123456789"), cl.label), cl.klass, "call-pre",
                            "at the call of %s (line %d): %s" % (n.func.id, line, cl.expr))
        if k == "fun":
            if f.ty.name not in S.FUNSPECS:
                raise Unsupported("callable spec %r missing" % f.ty.name)
            fs = S.FUNSPECS[f.ty.name]
            yield from self.null_guard_call(st, f, line, lambda s: self.apply_spec(fs, args, kwargs, s, "call of %s at line %d" % (f.ty.name, line), starv, dstarv, fval=f))
            return
        if k == "closure":
            ckey = getattr(f, "_key", None)
            if ckey in S.CONTRACTS:
                # a nested def that has its own contract: modular call, captured variables read from
                # the environment the closure was created in
                node, cenv, cframes = f.py
                cc = S.CONTRACTS[ckey]
                extra = {}
                for nm in cc.captures:
                    v = cenv.get(nm)
                    if v is None:
                        for fr in reversed(cframes):
                            if nm in fr:
                                v = fr[nm]
                                break
                    if v is None:
                        raise Unsupported("captured variable %s of %s is unbound at the call (line %d)" % (nm, ckey, line))
                    extra[nm] = coerce(v, cc.captures[nm])
                self.used_contracts.add(ckey)
                yield from self.apply_spec(cc, args, kwargs, st, "%s line %d" % (ckey, line), starv, dstarv, extra_env=extra)
                return
            yield from self.inline_closure(st, f, args, kwargs, n)
            return
        if k == "bound":
            recv, name = f.py
            yield from self.call_method(st, recv, name, args, kwargs, n, starv, dstarv)
            return
        if k == "class":
            yield from self.construct(st, f.py, args, kwargs, n, starv, dstarv)
            return
        if k == "static":
            yield from self.call_static(st, f.py, args, kwargs, n, starv, dstarv)
            return
        if k == "any":
            spec = getattr(self.contract, "opaque_call_spec", None)
            if spec:
                fs = S.FUNSPECS[spec]
                f2 = V(Ty("fun", (), spec), f.t)
                for st2, isn in self.branch(st, f.t == 0):
                    if isn:
                        yield st2, Raised(Exc(TypeError, origin="None() line %d" % line))
                    else:
                        yield from self.apply_spec(fs, args, kwargs, st2, "call of an arbitrary object (spec %s) line %d" % (spec, line), starv, dstarv, fval=f2)
                return
            raise Unsupported("call of an opaque value at line %d (give the parameter a Fun[...] type)" % line)
        raise Unsupported("call of %s at line %d" % (f.ty, line))

    def null_guard_call(self, st, f, line, cont):
        if f.ty.nullable:
            for st2, isn in self.branch(st, f.t == 0):
                if isn:
                    yield st2, Raised(Exc(TypeError, origin="None() line %d" % line))
                else:
                    yield from cont(st2)
        else:
            yield from cont(st)

    def inline_closure(self, st, f: V, args, kwargs, n):
        node, cenv, cframes = f.py
        params = node.args
        st2 = st
        saved_env, saved_frames = st2.env, st2.frames
        new_env = {}
        names = [a.arg for a in params.args]
        for nm, v in zip(names, args):
            new_env[nm] = v
        for nm, v in kwargs.items():
            new_env[nm] = v
        if params.vararg:
            new_env[params.vararg.arg] = vtuple(args[len(names):])
        st2.env = new_env
        st2.frames = cframes + [cenv]
        if isinstance(node, ast.Lambda):
            for st3, v in self.ev(node.body, st2):
                st3.env, st3.frames = dict(saved_env), list(saved_frames)
                yield st3, v
        else:
            for kind, st3, payload in self.ex(node.body, st2):
                st3.env, st3.frames = dict(saved_env), list(saved_frames)
                if kind == "raise":
                    yield st3, Raised(payload)
                elif kind == "return":
                    yield st3, payload
                elif kind == "next":
                    yield st3, vnone()
                else:
                    raise Unsupported("break/continue escaping a nested function")

    def construct(self, st, q, args, kwargs, n, starv=None, dstarv=None):
        cs = S.class_by_qual(q)
        cname = cs.name
        obj = st.new_ref(OBJ(cname))
        if cs.listlike:
            st.list_set(obj, z3.Empty(z3.SeqSort(sort_of(cs.listlike))))
        elif not cs.dictlike and "__bool__" not in cs.properties and S.find_method(cname, "__bool__") is None \
                and S.find_method(cname, "__len__") is None:
            st.assume(ops.any_truthy(obj.t))       # instances of a class without __bool__/__len__ are truthy
        key = S.find_method(cname, "__init__")
        real = self.real_object(q)
        if key is None:
            if args or kwargs:
                raise Unsupported("constructor %s needs an __init__ contract" % q)
            yield st, obj
            return
        for st2, r in self.apply_contract(key, [obj] + list(args), kwargs, st, "%s() line %d" % (cname, n.lineno), starv, dstarv):
            if isinstance(r, Raised):
                yield st2, r
            else:
                yield st2, obj

    def call_static(self, st, q, args, kwargs, n, starv, dstarv):
        line = n.lineno
        # aliases the generated modules define for builtins
        if q.endswith(":__M_dict_builtin"):
            q = "builtins:dict"
        elif q.endswith(":__M_locals_builtin"):
            q = "builtins:locals"
        if q in S.CONTRACTS or q in S.VIEWS or (q + "@" + self.key) in S.CONTRACTS:
            yield from self.apply_contract(q, args, kwargs, st, "%s line %d" % (q, line), starv, dstarv)
            return
        from . import builtins_model as BM
        h = BM.STATIC.get(q)
        if h is not None:
            yield from h(self, st, args, kwargs, n)
            return
        if q.endswith(".__new__") and args and args[0].ty.kind == "class":
            cname = args[0].py.split(":")[1]
            obj = st.new_ref(OBJ(cname))
            cs = S.CLASSES[cname]
            if cs.listlike:
                st.list_set(obj, z3.Empty(z3.SeqSort(sort_of(cs.listlike))))
            yield st, obj
            return
        real = self.real_object(q)
        if isinstance(real, type) and issubclass(real, BaseException):
            # exception class without schema: opaque exception object
            e = st.new_ref(OBJ("<exc>"))
            e.py = real
            yield st, e
            return
        raise Unsupported("call of %s at line %d needs a contract" % (q, line))

    def call_method(self, st, recv: V, name, args, kwargs, n, starv=None, dstarv=None):
        line = n.lineno
        if recv.ty.kind == "obj":
            key = S.find_method(recv.ty.name, name)
            if key:
                yield from self.null_guard(st, recv, name, line,
                                           lambda s: self.apply_contract(key, [recv] + list(args), kwargs, s,
                                                                         "%s.%s line %d" % (recv.ty.name, name, line), starv, dstarv))
                return
        from . import builtins_model as BM
        yield from BM.method(self, st, recv, name, args, kwargs, n)

    # ------------------------------------------------------------------
    # contract application (modular call rule)
    def bind(self, c: S.Contract, args, kwargs, what, starv=None, dstarv=None):
        names = list(c.params)
        env = {}
        args = list(args)
        star_name = next((p for p in names if p.startswith("*") and not p.startswith("**")), None)
        dstar_name = next((p for p in names if p.startswith("**")), None)
        plain = [p for p in names if not p.startswith("*")]
        for p, v in zip(plain, args):
            env[p] = v
        extra_pos = args[len(plain):]
        if extra_pos and not star_name:
            raise Unsupported("too many positional arguments for %s (%s)" % (c.key, what))
        if star_name:
            sty = c.params[star_name]
            if starv is not None:
                env[star_name.lstrip("*")] = starv
            elif sty.kind == "seq":
                env[star_name.lstrip("*")] = vtuple(extra_pos)      # converted (with None checks) below
            else:
                env[star_name.lstrip("*")] = vtuple(extra_pos)
        elif starv is not None:
            raise Unsupported("*args passed to %s which declares none" % c.key)
        extra_kw = {}
        for k, v in kwargs.items():
            if k in plain:
                env[k] = v
            else:
                extra_kw[k] = v
        if dstar_name:
            if dstarv is not None and not extra_kw:
                env[dstar_name.lstrip("*")] = dstarv
            elif c.params[dstar_name].kind == "dict":
                raise Unsupported("keyword arguments into a Dict-typed **%s need a source dict (%s)" % (dstar_name, what))
            else:
                env[dstar_name.lstrip("*")] = V(STAR, py=("kwargs", extra_kw, dstarv))
        elif extra_kw or dstarv is not None:
            raise Unsupported("unexpected keyword arguments %s for %s" % (list(extra_kw), c.key))
        for p in plain:
            if p not in env:
                d = self.default_of(c, p)
                if d is None:
                    raise Unsupported("missing argument %s for %s (%s)" % (p, c.key, what))
                env[p] = d
        # coerce to declared parameter types
        for p in names:
            if p.startswith("*") and c.params[p].kind == "seq":
                v = env.get(p.lstrip("*"))
                if v is not None and v.ty.kind == "tuple":
                    items = []
                    for x in v.items:
                        if x.ty.kind == "opt" and c.params[p].args[0].kind not in ("opt", "any"):
                            self._pending_nonnull.append((x.isnone, p))
                            x = x.val
                        items.append(x)
                    t = z3.Empty(sort_of(c.params[p]))
                    for x in items:
                        t = z3.Concat(t, z3.Unit(coerce(x, c.params[p].args[0]).t))
                    env[p.lstrip("*")] = V(c.params[p], z3.simplify(t))
        for p in plain:
            ty = c.params[p]
            try:
                if env[p].ty.kind == "opt" and ty.kind not in ("opt", "any") and not ty.is_ref:
                    self._pending_nonnull.append((env[p].isnone, p))
                    env[p] = env[p].val
                v = coerce(env[p], ty)
                if ty.nullable and not v.ty.nullable:
                    v = V(ty, v.t)
                env[p] = v
            except Unsupported as e:
                if env[p].ty.kind in ("str", "bytes", "int", "bool", "real") and ty.kind in ("str", "bytes", "int", "bool", "real"):
                    # a value of the wrong scalar type is passed: a failed obligation, not an engine limit
                    self._pending_false.append("%s: argument %s is %s where %s is required (%s)" % (c.key, p, env[p].ty, ty, what))
                    env[p] = fresh(ty, "badarg")
                    continue
                raise Unsupported("%s: argument %s: %s" % (c.key, p, e))
        return env

    def default_of(self, c: S.Contract, p):
        fn = None
        if ":" in c.key and not c.key.startswith("fun:"):
            modname, qual = c.key.split("@")[0].split(":")
            try:
                fn = ModCtx.get(modname).find_def(qual)
            except Exception:
                fn = None
        if fn is None:
            d = getattr(c, "defaults", {}).get(p)
            if d is None:
                return None
            return self.const_default(ast.parse(d, mode="eval").body)
        a = fn.args
        pos = a.posonlyargs + a.args
        defaults = [None] * (len(pos) - len(a.defaults)) + list(a.defaults)
        for arg, d in zip(pos, defaults):
            if arg.arg == p and d is not None:
                return self.const_default(d)
        for arg, d in zip(a.kwonlyargs, a.kw_defaults):
            if arg.arg == p and d is not None:
                return self.const_default(d)
        d = getattr(c, "defaults", {}).get(p)      # e.g. the real function takes **kw and forwards it
        if d is not None and a.kwarg is not None:
            return self.const_default(ast.parse(d, mode="eval").body)
        if d is not None and a.vararg is not None and p not in [x.arg for x in pos + a.kwonlyargs]:
            # the contract names the first few of the real function's *args: the ones not passed are absent
            return self.const_default(ast.parse(d, mode="eval").body)
        return None

    def const_default(self, d):
        if isinstance(d, ast.Constant):
            return next(self.ev_Constant(d, None))[1]
        if isinstance(d, ast.Tuple) and not d.elts:
            return vtuple([])
        raise Unsupported("non-constant default")

    def apply_contract(self, key, args, kwargs, st, what, starv=None, dstarv=None):
        # a contract stated for this caller only ("callee@caller") comes first, then a caller view, then the callee's own
        if (key + "@" + self.key) in S.CONTRACTS:
            key = key + "@" + self.key
            c = S.CONTRACTS[key]
        else:
            c = S.VIEWS.get(key) or S.CONTRACTS[key]
        self.used_contracts.add(key)
        if c.assumed:
            self.used_assumed.add(key)
        yield from self.apply_spec(c, args, kwargs, st, what, starv, dstarv)

    def apply_spec(self, c: S.Contract, args, kwargs, st, what, starv=None, dstarv=None, fval=None, extra_env=None):
        if "**" in kwargs:
            # f(**d): the callee receives a *new* dict holding d's items plus the explicit keywords
            kwargs = dict(kwargs)
            src = kwargs.pop("**")
            dname = next((p for p in c.params if p.startswith("**")), None)
            if dname is not None and c.params[dname].kind == "dict":
                kt, vt = c.params[dname].args
                nd = st.new_ref(c.params[dname])
                dom, val = st.dict_get(src)
                plain = [p for p in c.params if not p.startswith("*")]
                for k in [k for k in kwargs if k not in plain]:
                    v = kwargs.pop(k)
                    dom = z3.Store(dom, z3.StringVal(k), True)
                    val = z3.Store(val, z3.StringVal(k), coerce(v, vt).t)
                st.dict_set(nd, dom, val)
                dstarv = nd
            else:
                dstarv = V(STAR, py=("kwargs-of", src))
        self._pending_nonnull = []
        self._pending_false = []
        dname0 = next((p for p in c.params if p.startswith("**")), None)
        if dname0 is not None and c.params[dname0].kind == "dict" and dstarv is None:
            # f(a, k=v): the callee's **kwargs is a new dict of the keywords it does not name
            kt, vt = c.params[dname0].args
            plain0 = [p for p in c.params if not p.startswith("*")]
            kwargs = dict(kwargs)
            nd = st.new_ref(c.params[dname0])
            dom = z3.K(sort_of(kt), z3.BoolVal(False))
            val = z3.Const("kwval!%d" % fresh(INT).t.hash(), z3.ArraySort(sort_of(kt), sort_of(vt)))
            for k in [k for k in kwargs if k not in plain0]:
                v = kwargs.pop(k)
                dom = z3.Store(dom, z3.StringVal(k), True)
                val = z3.Store(val, z3.StringVal(k), coerce(v, vt).t)
            st.dict_set(nd, dom, val)
            dstarv = nd
        env = self.bind(c, args, kwargs, what, starv, dstarv)
        if extra_env:
            env.update(extra_env)
        for isnone, pname in self._pending_nonnull:
            self.oblige(st, z3.Not(isnone), "pre:%s:arg-%s-not-None" % (c.key.split(":")[-1], pname), "P", "call-pre",
                        "%s: argument %s may be None where %s is declared (%s)" % (c.key, pname, c.params.get(pname) or c.params.get("*" + pname), what))
        for msg in self._pending_false:
            self.oblige(st, z3.BoolVal(False), "pre:%s:argument-type" % c.key.split(":")[-1], "P", "call-pre", msg)
        if fval is not None:
            env["self_fn"] = fval
            # callable specs see the caller's variables too (ghost access to ambient objects)
            amb = {}
            for fr in st.frames:
                amb.update(fr)
            amb.update(st.env)
            amb.update(env)
            env = amb
        # 1. preconditions are obligations of the caller
        se = SpecEval(st, env, None, None, self)
        for cl in c.requires:
            if cl.klass == "I":
                # a global data-structure invariant: established when the structure is created and
                # preserved by each of its mutators (their own obligations), not re-proved per call site
                self.used_invariants = getattr(self, "used_invariants", set()) | {cl.label}
                continue
            self.oblige(st, se.bool_of(cl.expr), "pre:%s:%s" % (c.key.split(":")[-1], cl.label),
                        "P", "call-pre", "%s requires %s (%s)" % (c.key, cl.expr, what))
        old = st.fork()
        # 2. havoc the frame (the callee may allocate: bump the allocation counter first so
        #    havocked references are constrained to the post-call allocated range)
        a2 = z3.Int("alloc!%d" % fresh(INT).t.hash())
        st.assume(a2 >= st.alloc)
        st.alloc = a2
        self.havoc_frame(st, c.modifies, env, old)
        # ghost call counters (normal and exceptional outcomes alike)
        for g, inc in (getattr(c, "call_ghost", None) or {}).items():
            cur = old.ghost[g]
            st.ghost[g] = V(cur.ty, cur.t + inc)
        for g, pname in (getattr(c, "call_log", None) or {}).items():
            st.ghost[g] = coerce(env[pname], S.GHOSTS[g])
        res = fresh(c.returns, "res") if c.returns is not None else vnone()
        if res.ty.kind != "opt":
            self.wf(st, res)
        elif res.val.ty.kind == "tuple":
            self.wf(st, res.val)
        # 3. exceptional outcomes
        for ename, spec in c.raises.items():
            st_e = st.fork()
            env_e = dict(env)
            rid = fresh(ANY, "raised")
            st_e.assume(z3.And(rid.t > 0, rid.t < st_e.alloc))
            env_e["raised"] = rid
            see = SpecEval(st_e, env_e, old, env, self)
            if spec["when"]:
                st_e.assume(SpecEval(old, env, None, None, self).bool_of(spec["when"]))
            for cl in spec["ensures"] + c.ensures_exc:
                st_e.assume(see.bool_of(cl.expr))
            if self.feasible(st_e):
                cls = None if ename == "*" else self.exc_class(ename)
                exc = Exc(cls, origin=what)
                exc.rid = rid
                yield st_e, Raised(exc)
        # 4. normal outcome
        env_n = dict(env)
        env_n["result"] = res
        sen = SpecEval(st, env_n, old, env, self)
        for cl in c.ensures:
            st.assume(sen.bool_of(cl.expr))
        if c.returns is not None and c.returns.kind in ("obj", "list", "dict", "set") and not c.returns.nullable:
            st.assume(res.t > 0)
        if self.feasible(st):
            yield st, res

    def exc_class(self, name):
        if hasattr(_bi, name):
            return getattr(_bi, name)
        for modname in ("mako.exceptions",):
            m = importlib.import_module(modname)
            if hasattr(m, name):
                return getattr(m, name)
        if "." in name:
            mod, nm = name.rsplit(".", 1)
            return getattr(importlib.import_module(mod), nm)
        raise Unsupported("unknown exception class %r" % name)

    def havoc_frame(self, st: State, modifies, env, old):
        for loc in modifies:
            self.havoc_location(st, loc, env, old)

    def havoc_location(self, st, loc: str, env, old):
        n = parse_expr(loc)
        if isinstance(n, ast.Attribute) and isinstance(n.value, ast.Name) and n.value.id == "G":
            if n.attr not in S.GHOSTS:
                raise Unsupported("undeclared ghost G.%s" % n.attr)
            st.ghost[n.attr] = fresh(S.GHOSTS[n.attr], "G_" + n.attr)
            return
        pointer = False
        if isinstance(n, ast.Call) and isinstance(n.func, ast.Name) and n.func.id == "ptr":
            pointer = True
            n = n.args[0]
        se = SpecEval(old, env, None, None, self)
        if isinstance(n, ast.Call) and isinstance(n.func, ast.Name) and n.func.id == "fresh_heap":
            # The callee writes this field family only in objects it allocates.  Those indices lie at
            # or above the caller's allocation counter, where the array is unconstrained anyway, so
            # nothing has to change in the caller's view: existing objects keep their values, and
            # what the caller reads from a fresh object is arbitrary unless the callee's
            # postcondition says otherwise.
            return
        if isinstance(n, ast.Call) and isinstance(n.func, ast.Name) and n.func.id == "heap":
            # heap("f:Class.field") : havoc a whole field array (coarse frames for opaque callees)
            key = n.args[0].value
            for hk in [k for k in list(st.heap) if k == key or k.startswith(key + "?") or k.startswith(key + "!")]:
                a = st.heap[hk]
                st.heap[hk] = z3.Const("hv_%s!%d" % (hk, fresh(INT).t.hash()), a.sort())
            if key not in st.heap:
                fam = [k for k in list(st.heap) if k.startswith(key)]
                if not fam:
                    self._touch_heap_key(st, key)
                    a = st.heap.get(key)
                    if a is not None:
                        st.heap[key] = z3.Const("hv_%s!%d" % (key, fresh(INT).t.hash()), a.sort())
            return
        if isinstance(n, ast.Attribute) and (pointer or True):
            base = se.ev(n.value)
            if base.ty.kind != "obj":
                raise Unsupported("modifies %s: base is %s" % (loc, base.ty))
            fty, owner = S.find_field(base.ty.name, n.attr)
            if fty is None:
                raise Unsupported("modifies %s: no such field" % loc)
            cur = old.get_field(base, n.attr)
            if pointer or not (is_listlike(fty) or is_dictlike(fty) or fty.kind == "set"):
                st.havoc_loc(st._fkey(owner, n.attr), fty, base.t)
                self.wf(st, st.get_field(base, n.attr))
                return
            self.havoc_container(st, cur)
            return
        v = se.ev(n)
        self.havoc_container(st, v)

    def _touch_heap_key(self, st, key):
        if key.startswith("f:"):
            cls, fname = key[2:].split(".", 1)
            fty, owner = S.find_field(cls, fname)
            if fty is not None and fty.kind not in ("opt", "tuple", "none"):
                st.arr(key, sort_of(fty))
        elif key.startswith("list:"):
            st.arr(key, z3.SeqSort(sort_of(parse_ty(key[5:]))))

    def havoc_container(self, st, v: V):
        if is_listlike(v.ty):
            et = elem_ty(v.ty)
            hv = fresh(SEQ(et), "hvl").t
            st.list_set(v, hv)
            if et.is_ref:
                i = z3.Int("i!hvwf")
                st.assume(z3.ForAll([i], z3.Implies(z3.And(i >= 0, i < z3.Length(hv)),
                                                    z3.And(hv[i] >= 0, hv[i] < st.alloc))))
        elif is_dictlike(v.ty):
            kt, vt = dict_tys(v.ty)
            st.dict_set(v, z3.Const("hvd!%d" % fresh(INT).t.hash(), z3.ArraySort(sort_of(kt), z3.BoolSort())),
                        z3.Const("hvv!%d" % fresh(INT).t.hash(), z3.ArraySort(sort_of(kt), sort_of(vt))))
        elif v.ty.kind == "set":
            st.set_set(v, z3.Const("hvs!%d" % fresh(INT).t.hash(), z3.ArraySort(sort_of(v.ty.args[0]), z3.BoolSort())))
        else:
            raise Unsupported("modifies: %s is not a container" % v.ty)

    # ------------------------------------------------------------------
    # statements: generators of (kind, state, payload); kind in next/return/raise/break/continue
    def ex(self, stmts, st: State):
        if not stmts:
            yield "next", st, None
            return
        head, rest = stmts[0], stmts[1:]
        for kind, st2, payload in self.ex1(head, st):
            if kind == "next":
                yield from self.ex(rest, st2)
            else:
                yield kind, st2, payload

    def ex1(self, s, st):
        m = getattr(self, "ex_" + type(s).__name__, None)
        if m is None:
            raise Unsupported("statement %s at line %d" % (type(s).__name__, s.lineno))
        hook = getattr(self, "stmt_hook", None)
        if hook is None:
            yield from m(s, st)
            return
        token = hook(self, "before", s, st, None, None)
        for kind, st2, payload in m(s, st):
            hook(self, "after", s, st2, kind, token)
            yield kind, st2, payload

    def ex_Expr(self, s, st):
        if isinstance(s.value, ast.Constant):
            yield "next", st, None      # docstring
            return
        if isinstance(s.value, (ast.Yield, ast.YieldFrom)):
            yield from self.do_yield(s.value, st)
            return
        for st2, v in self.ev(s.value, st):
            if isinstance(v, Raised):
                yield "raise", st2, v.exc
            else:
                yield "next", st2, None

    def do_yield(self, y, st):
        if isinstance(y, ast.YieldFrom):
            raise Unsupported("yield from")
        vals = self.ev(y.value, st) if y.value is not None else iter([(st, vnone())])
        for st2, v in vals:
            if isinstance(v, Raised):
                yield "raise", st2, v.exc
                continue
            env = dict(self.penv0)
            env.update({k: x for k, x in st2.env.items()})
            env["yielded"] = v
            se = SpecEval(st2, env, self.old0, self.penv0, self)
            for cl in self.contract.at_yield:
                self.oblige(st2, se.bool_of(cl.expr), "yield:" + cl.label, cl.klass, "at-yield",
                            "at yield (line %d): %s" % (y.lineno, cl.expr))
            cnt = st2.ghost.get("_yields", vint(0))
            st2.ghost["_yields"] = V(INT, z3.simplify(cnt.t + 1))
            yield "next", st2, None

    def ex_Pass(self, s, st):
        yield "next", st, None

    def ex_Import(self, s, st):
        for a in s.names:
            st.env[a.asname or a.name.split(".")[0]] = V(MODULE, py=a.name if a.asname else a.name.split(".")[0])
        yield "next", st, None

    def ex_ImportFrom(self, s, st):
        for a in s.names:
            full = "%s.%s" % (s.module, a.name)
            if is_module(full):
                st.env[a.asname or a.name] = V(MODULE, py=full)
            else:
                st.env[a.asname or a.name] = self.sym_value("%s:%s" % (s.module, a.name))
        yield "next", st, None

    def ex_Global(self, s, st):
        raise Unsupported("global statement")

    def ex_Nonlocal(self, s, st):
        yield "next", st, None

    def ex_FunctionDef(self, s, st):
        v = V(CLOSURE, py=(s, st.env, list(st.frames)))
        v._key = "%s.%s" % (getattr(st, "_fn_key", None) or self.key, s.name)
        st.env[s.name] = v
        yield "next", st, None

    def ex_Return(self, s, st):
        if s.value is None:
            yield "return", st, vnone()
            return
        for st2, v in self.ev(s.value, st):
            if isinstance(v, Raised):
                yield "raise", st2, v.exc
            else:
                yield "return", st2, v

    def ex_Assert(self, s, st):
        for st2, v in self.ev(s.test, st):
            if isinstance(v, Raised):
                yield "raise", st2, v.exc
                continue
            for st3, ok in self.branch(st2, ops.truthy(st2, v)):
                if ok:
                    yield "next", st3, None
                else:
                    yield "raise", st3, Exc(AssertionError, origin="line %d" % s.lineno)

    def ex_Delete(self, s, st):
        if len(s.targets) != 1 or not isinstance(s.targets[0], ast.Subscript):
            raise Unsupported("del form at line %d" % s.lineno)
        t = s.targets[0]
        for st2, bi in self.ev_list([t.value, t.slice], st):
            if isinstance(bi, Raised):
                yield "raise", st2, bi.exc
                continue
            base, idx = bi
            if is_dictlike(base.ty):
                dk = S.find_method(base.ty.name, "__delitem__") if base.ty.kind == "obj" else None
                if dk:
                    for st3, r in self.apply_contract(dk, [base, idx], {}, st2, "del line %d" % s.lineno):
                        if isinstance(r, Raised):
                            yield "raise", st3, r.exc
                        else:
                            yield "next", st3, None
                    continue
                kt, vt = dict_tys(base.ty)
                dom, val = st2.dict_get(base)
                k = coerce(idx, kt)
                for st3, present in self.branch(st2, z3.Select(dom, k.t)):
                    if present:
                        d3, v3 = st3.dict_get(base)
                        st3.dict_set(base, ops.card_store_facts(st3, d3, k.t, False), v3)
                        yield "next", st3, None
                    else:
                        yield "raise", st3, Exc(KeyError, origin="del line %d" % s.lineno)
                continue
            if is_listlike(base.ty):
                cur = st2.list_get(base)
                ln = z3.Length(cur.t)
                i = ops.norm_index(ln, idx.t)
                for st3, ok in self.branch(st2, z3.And(i >= 0, i < ln)):
                    if ok:
                        c3 = st3.list_get(base).t
                        st3.list_set(base, z3.Concat(z3.SubSeq(c3, 0, i), z3.SubSeq(c3, i + 1, z3.Length(c3) - i - 1)))
                        yield "next", st3, None
                    else:
                        yield "raise", st3, Exc(IndexError, origin="del line %d" % s.lineno)
                continue
            raise Unsupported("del on %s" % base.ty)

    def ex_Assign(self, s, st):
        self.hint_literal(s.value, s.targets[0], st)
        for st2, v in self.ev(s.value, st):
            if isinstance(v, Raised):
                yield "raise", st2, v.exc
                continue

            def go(i, st):
                if i == len(s.targets):
                    yield "next", st, None
                    return
                for kind, st3, p in self.assign(s.targets[i], v, st):
                    if kind == "next":
                        yield from go(i + 1, st3)
                    else:
                        yield kind, st3, p
            yield from go(0, st2)

    def hint_literal(self, value, target, st):
        """Give empty list/dict literals the element type of the location they are stored into."""
        ty = None
        if isinstance(target, ast.Name):
            ty = self.contract.locals.get(target.id)
        elif isinstance(target, ast.Attribute) and isinstance(target.value, ast.Name):
            base = self.lookup(target.value.id, st)
            if base is not None and base.ty.kind == "obj":
                ty, _ = S.find_field(base.ty.name, target.attr)
        if ty is None:
            return
        if isinstance(value, (ast.List, ast.ListComp)) and ty.kind == "list":
            value._elem_hint = ty.args[0]
        if isinstance(value, ast.Dict) and ty.kind == "dict":
            value._dict_hint = ty.args

    def ex_AnnAssign(self, s, st):
        raise Unsupported("annotated assignment")

    def assign(self, target, v: V, st):
        if isinstance(target, ast.Name):
            lt = self.contract.locals.get(target.id)
            if lt is not None:
                v = coerce(v, lt)
            # nonlocal write-through for closures
            if target.id not in st.env:
                for fr in reversed(st.frames):
                    if target.id in fr:
                        fr[target.id] = v
                        yield "next", st, None
                        return
            st.env[target.id] = v
            yield "next", st, None
            return
        if isinstance(target, ast.Tuple):
            if v.ty.kind != "tuple" or len(v.items) != len(target.elts):
                raise Unsupported("unpacking %s at line %d" % (v.ty, target.lineno))

            def go(i, st):
                if i == len(target.elts):
                    yield "next", st, None
                    return
                for kind, st2, p in self.assign(target.elts[i], v.items[i], st):
                    if kind == "next":
                        yield from go(i + 1, st2)
                    else:
                        yield kind, st2, p
            yield from go(0, st)
            return
        if isinstance(target, ast.Attribute):
            for st2, base in self.ev(target.value, st):
                if isinstance(base, Raised):
                    yield "raise", st2, base.exc
                    continue
                if base.ty.kind != "obj":
                    raise Unsupported("attribute store on %s (line %d)" % (base.ty, target.lineno))
                fty0, _own = S.find_field(base.ty.name, target.attr)
                if fty0 is not None and v.ty.kind == "opt" and fty0.kind not in ("opt", "any") and not fty0.is_ref:
                    self.oblige(st2, z3.Not(v.isnone), "store:%s.%s-not-None" % (base.ty.name, target.attr), "P", "assert",
                                "None stored into %s.%s which the data-structure view declares %s (line %d)" % (base.ty.name, target.attr, fty0, target.lineno))
                    v = v.val
                if base.ty.nullable:
                    for st3, isn in self.branch(st2, base.t == 0):
                        if isn:
                            yield "raise", st3, Exc(AttributeError, origin="store on None line %d" % target.lineno)
                        else:
                            st3.set_field(base, target.attr, v)
                            yield "next", st3, None
                else:
                    st2.set_field(base, target.attr, v)
                    yield "next", st2, None
            return
        if isinstance(target, ast.Subscript):
            for st2, bi in self.ev_list([target.value, target.slice], st):
                if isinstance(bi, Raised):
                    yield "raise", st2, bi.exc
                    continue
                base, idx = bi
                if is_dictlike(base.ty):
                    sk = S.find_method(base.ty.name, "__setitem__") if base.ty.kind == "obj" else None
                    if sk:
                        for st3, r in self.apply_contract(sk, [base, idx, v], {}, st2, "setitem line %d" % target.lineno):
                            if isinstance(r, Raised):
                                yield "raise", st3, r.exc
                            else:
                                yield "next", st3, None
                        continue
                    kt, vt = dict_tys(base.ty)
                    dom, val = st2.dict_get(base)
                    k = coerce(idx, kt)
                    st2.dict_set(base, ops.card_store_facts(st2, dom, k.t, True), z3.Store(val, k.t, coerce(v, vt).t))
                    yield "next", st2, None
                    continue
                if is_listlike(base.ty) and not isinstance(target.slice, ast.Slice):
                    cur = st2.list_get(base)
                    ln = z3.Length(cur.t)
                    i = ops.norm_index(ln, idx.t)
                    et = elem_ty(base.ty)
                    for st3, ok in self.branch(st2, z3.And(i >= 0, i < ln)):
                        if ok:
                            c3 = st3.list_get(base).t
                            st3.list_set(base, z3.Concat(z3.SubSeq(c3, 0, i), z3.Unit(coerce(v, et).t),
                                                         z3.SubSeq(c3, i + 1, z3.Length(c3) - i - 1)))
                            yield "next", st3, None
                        else:
                            yield "raise", st3, Exc(IndexError, origin="line %d" % target.lineno)
                    continue
                raise Unsupported("subscript store on %s (line %d)" % (base.ty, target.lineno))
            return
        raise Unsupported("assignment target %s" % type(target).__name__)

    def ex_AugAssign(self, s, st):
        load = ast.copy_location(ast.BinOp(left=to_load(s.target), op=s.op, right=s.value), s)
        ast.fix_missing_locations(load)
        for st2, v in self.ev(load, st):
            if isinstance(v, Raised):
                yield "raise", st2, v.exc
            else:
                yield from self.assign(s.target, v, st2)

    def ex_If(self, s, st):
        for st1, c in self.ev(s.test, st):
            if isinstance(c, Raised):
                yield "raise", st1, c.exc
                continue
            for st1b, t in self.truthy(st1, c):
                if isinstance(t, Raised):
                    yield "raise", st1b, t.exc
                    continue
                for st2, taken in self.branch(st1b, t):
                    st2.trace.append("L%d:if=%s" % (s.lineno, taken))
                    self.narrow(s.test, taken, st2)
                    yield from self.ex(s.body if taken else s.orelse, st2)

    def narrow(self, test, taken, st):
        """flow-sensitive narrowing of Opt[scalar] locals: after `if x:` / `if x is not None:` (true branch) and
        `if x is None:` / `if not x:` (false branch) the name holds the inner value (the branch condition already
        says it is not None)"""
        nm = None
        if isinstance(test, ast.Name) and taken:
            nm = test.id
        elif isinstance(test, ast.UnaryOp) and isinstance(test.op, ast.Not) and isinstance(test.operand, ast.Name) and not taken:
            nm = test.operand.id
        elif isinstance(test, ast.Compare) and len(test.ops) == 1 and isinstance(test.left, ast.Name) \
                and isinstance(test.comparators[0], ast.Constant) and test.comparators[0].value is None:
            if (isinstance(test.ops[0], ast.IsNot) and taken) or (isinstance(test.ops[0], ast.Is) and not taken):
                nm = test.left.id
        if nm is None:
            return
        if nm in st.env and isinstance(st.env[nm], V) and st.env[nm].ty.kind == "opt":
            st.env[nm] = st.env[nm].val
            return
        for fr in reversed(st.frames):
            if nm in fr:
                if isinstance(fr[nm], V) and fr[nm].ty.kind == "opt":
                    fr[nm] = fr[nm].val
                return

    def ex_Raise(self, s, st):
        if s.exc is None:
            if st.cur_exc is None:
                raise Unsupported("bare raise outside handler")
            yield "raise", st, st.cur_exc
            return
        for st2, v in self.ev(s.exc, st):
            if isinstance(v, Raised):
                yield "raise", st2, v.exc
                continue
            yield "raise", st2, self.exc_of_value(v, s.lineno)

    def exc_of_value(self, v: V, line):
        if v.ty.kind == "obj" and v.ty.name == "<exc>":
            return Exc(v.py, ref=None, origin="line %d" % line)
        if v.ty.kind == "obj":
            cs = S.CLASSES.get(v.ty.name)
            real = self.real_object(cs.qual) if cs else None
            if cs and cs.exception:
                return Exc(real, ref=v, origin="line %d" % line)
        if v.ty.kind in ("class", "static"):
            real = self.real_object(v.py)
            if isinstance(real, type) and issubclass(real, BaseException):
                return Exc(real, origin="line %d" % line)
        if getattr(v, "_exc", None) is not None:
            return v._exc
        raise Unsupported("raise of %s at line %d" % (v.ty, line))

    def ex_Try(self, s, st):
        def after_body(kind, st2, payload):
            """handlers + orelse for one body outcome; yields raw outcomes before finally."""
            if kind == "raise":
                exc = payload
                yield from self.dispatch_handlers(s, st2, exc)
            elif kind == "next":
                if s.orelse:
                    yield from self.ex(s.orelse, st2)
                else:
                    yield "next", st2, None
            else:
                yield kind, st2, payload

        for kind, st2, payload in self.ex(s.body, st):
            for k2, st3, p2 in after_body(kind, st2, payload):
                if not s.finalbody:
                    yield k2, st3, p2
                    continue
                saved = st3.cur_exc
                for k3, st4, p3 in self.ex(s.finalbody, st3):
                    st4.cur_exc = saved
                    if k3 == "next":
                        yield k2, st4, p2          # resume the pending outcome
                    else:
                        yield k3, st4, p3          # finally overrides

    def dispatch_handlers(self, s, st, exc: Exc):
        def go(i, st, exc):
            if i == len(s.handlers):
                yield "raise", st, exc
                return
            h = s.handlers[i]
            for st2, m, exc2 in self.handler_matches(h, st, exc):
                if m:
                    if h.name:
                        from .builtins_model import exc_value
                        st2.env[h.name] = exc_value(exc2)
                    saved = st2.cur_exc
                    st2.cur_exc = exc2
                    for kind, st3, p in self.ex(h.body, st2):
                        st3.cur_exc = saved
                        yield kind, st3, p
                else:
                    yield from go(i + 1, st2, exc2)
        yield from go(0, st, exc)

    def handler_matches(self, h, st, exc: Exc):
        if h.type is None:
            yield st, True, exc
            return
        types = h.type.elts if isinstance(h.type, ast.Tuple) else [h.type]
        classes = []
        for t in types:
            r = self.resolve_static(t, st)
            if r is None or r[0] != "sym":
                raise Unsupported("dynamic except clause at line %d" % h.lineno)
            real = self.real_object(r[1])
            if not (isinstance(real, type) and issubclass(real, BaseException)):
                raise Unsupported("except clause %s is not an exception class" % r[1])
            classes.append(real)
        if exc.cls is not None:
            yield st, any(issubclass(exc.cls, c) for c in classes), exc
            return
        # unknown class
        if any(c is BaseException for c in classes):
            yield st, True, exc
            return
        if all(c is Exception for c in classes):
            if exc.is_exception is None:
                e1 = Exc(None, exc.ref, exc.origin, True)
                e1.rid = exc.rid
                yield st.fork(), True, e1
                e2 = Exc(None, exc.ref, exc.origin, False)
                e2.rid = exc.rid
                yield st, False, e2
            else:
                yield st, exc.is_exception, exc
            return
        # a specific class vs unknown exception: both possible
        if exc.is_exception is False and all(issubclass(c, Exception) for c in classes):
            yield st, False, exc
            return
        e1 = Exc(classes[0], exc.ref, exc.origin)
        e1.rid = exc.rid
        yield st.fork(), True, e1
        yield st, False, exc

    def ex_With(self, s, st):
        """`with cm [as v]:`
        (a) context managers whose contract declares them transparent: __enter__/__exit__ change nothing
            the contracts talk about and never swallow exceptions; the body just runs;
        (b) managers that are objects of a class with contracts on __enter__ and __exit__: desugared as
            v = cm.__enter__(); body; cm.__exit__(...) on every exit of the body (normal, return, break,
            continue, exception).  __exit__ is taken never to swallow an exception (its contract must not
            say otherwise); an exception it raises itself replaces the pending outcome."""
        def go(i, st):
            if i == len(s.items):
                yield from self.ex(s.body, st)
                return
            item = s.items[i]
            r = self.resolve_static(item.context_expr.func, st) if isinstance(item.context_expr, ast.Call) else None
            key = r[1] if r and r[0] == "sym" else None
            ck = (S.VIEWS.get(key) or S.CONTRACTS.get(key)) if key else None
            if ck is not None and getattr(ck, "transparent_cm", False):
                # arguments may be lambdas etc.: they are not evaluated by a transparent manager's contract
                if item.optional_vars is not None:
                    raise Unsupported("with ... as target over a transparent manager")
                yield from go(i + 1, st)
                return
            for st1, cm in self.ev(item.context_expr, st):
                if isinstance(cm, Raised):
                    yield "raise", st1, cm.exc
                    continue
                if cm.ty.kind != "obj" or not S.find_method(cm.ty.name, "__enter__") or not S.find_method(cm.ty.name, "__exit__"):
                    raise Unsupported("with statement over %s at line %d (no context-manager contract)" % (key or cm.ty, s.lineno))
                for st2, ent in self.call_method(st1, cm, "__enter__", [], {}, s):
                    if isinstance(ent, Raised):
                        yield "raise", st2, ent.exc
                        continue
                    if item.optional_vars is not None:
                        if not isinstance(item.optional_vars, ast.Name):
                            raise Unsupported("with ... as <pattern>")
                        st2.env[item.optional_vars.id] = ent
                    for kind, st3, payload in go(i + 1, st2):
                        none = next(self.ev_Constant(ast.Constant(None), None))[1]
                        saved = st3.cur_exc
                        for st4, ex in self.call_method(st3, cm, "__exit__", [none, none, none], {}, s):
                            st4.cur_exc = saved
                            if isinstance(ex, Raised):
                                yield "raise", st4, ex.exc
                            else:
                                yield kind, st4, payload
        yield from go(0, st)

    def ex_Break(self, s, st):
        yield "break", st, None

    def ex_Continue(self, s, st):
        yield "continue", st, None

    # ---- loops ---------------------------------------------------------
    def assigned_names(self, body):
        names = set()
        for n in body:
            for x in ast.walk(n):
                if isinstance(x, ast.Name) and isinstance(x.ctx, ast.Store):
                    names.add(x.id)
                elif isinstance(x, ast.ExceptHandler) and x.name:
                    names.add(x.name)
        return names

    def loop_spec(self, s):
        k = self.loop_ord.get(id(s))
        return k, self.contract.loops.get(k)

    def spec_env(self, st):
        env = dict(self.penv0 or {})
        for fr in st.frames:
            env.update(fr)
        env.update(st.env)
        return env

    def ex_While(self, s, st):
        k, ls = self.loop_spec(s)
        if ls is None:
            raise Unsupported("loop %s at line %d needs an invariant" % (k, s.lineno))
        yield from self.loop_rule(s, st, k, ls, None)

    def ex_For(self, s, st):
        k, ls = self.loop_spec(s)
        enum = isinstance(s.iter, ast.Call) and isinstance(s.iter.func, ast.Name) and s.iter.func.id == "enumerate" \
            and len(s.iter.args) == 1 and not s.iter.keywords and self.resolve_static(s.iter.func, st) == ("sym", "builtins:enumerate")
        for st1, it in self.ev(s.iter.args[0] if enum else s.iter, st):
            if isinstance(it, Raised):
                yield "raise", st1, it.exc
                continue
            # statically known tuples are unrolled
            if it.ty.kind == "tuple" and ls is None:
                yield from self.unroll(s, st1, list(it.items))
                continue
            if it.ty.kind == "fun" and ls is not None:
                yield from self.loop_rule(s, st1, k, ls, ("iter", it))
                continue
            if ls is None:
                raise Unsupported("loop %s at line %d needs an invariant" % (k, s.lineno))
            if it.ty.kind == "any" and getattr(self.contract, "opaque_iter_spec", None):
                yield from self.loop_rule(s, st1, k, ls, ("iter", V(Ty("fun", (), self.contract.opaque_iter_spec), it.t)))
                continue
            if getattr(it, "_items_of", None) is not None:
                d = it._items_of
                seqv = self.dict_key_seq(st1, d)
                _, val0 = st1.dict_get(d)
                vt0 = dict_tys(d.ty)[1]
                if vt0.is_ref:
                    kq = z3.Const("k!items", sort_of(dict_tys(d.ty)[0]))
                    dom0, _ = st1.dict_get(d)
                    st1.assume(z3.ForAll([kq], z3.Implies(z3.Select(dom0, kq), z3.And(z3.Select(val0, kq) > 0, z3.Select(val0, kq) < st1.alloc))))
                seqv._items_val = (vt0, val0)
            elif is_dictlike(it.ty):
                seqv = self.dict_key_seq(st1, it)
            elif it.ty.kind == "set":
                seqv = self.set_elem_seq(st1, it)
            elif getattr(it, "_range", None) is not None:
                seqv = it
            else:
                seqv = ops.as_seq(st1, it)
            if enum:
                import copy as _copy
                seqv = _copy.copy(seqv)
                seqv._enumerate = True
            yield from self.loop_rule(s, st1, k, ls, ("seq", seqv))

    def set_elem_seq(self, st, sv: V) -> V:
        """iteration order of a set: some sequence holding exactly its elements, each once (the set as it is when
        the loop starts; a body that changes the set being iterated is outside the model)"""
        et = sv.ty.args[0]
        dom = st.set_get(sv)
        ks = fresh(SEQ(et), "elems")
        x = z3.Const("e!ss", sort_of(et))
        st.assume(z3.ForAll([x], z3.Select(dom, x) == z3.Contains(ks.t, z3.Unit(x))))
        i, j = z3.Int("i!ss"), z3.Int("j!ss")
        st.assume(z3.ForAll([i, j], z3.Implies(z3.And(0 <= i, i < j, j < z3.Length(ks.t)), ks.t[i] != ks.t[j])))
        return ks

    def dict_key_seq(self, st, d: V) -> V:
        kt, vt = dict_tys(d.ty)
        dom, _ = st.dict_get(d)
        ks = fresh(SEQ(kt), "keys")
        x = z3.Const("k!ks", sort_of(kt))
        st.assume(z3.ForAll([x], z3.Select(dom, x) == z3.Contains(ks.t, z3.Unit(x))))
        i, j = z3.Int("i!ks"), z3.Int("j!ks")
        st.assume(z3.ForAll([i, j], z3.Implies(z3.And(0 <= i, i < j, j < z3.Length(ks.t)), ks.t[i] != ks.t[j])))
        return ks

    def unroll(self, s, st, items):
        def go(i, st):
            if i == len(items):
                yield from self.ex(s.orelse, st)
                return
            for kind, st2, p in self.assign(s.target, items[i], st):
                if kind != "next":
                    yield kind, st2, p
                    continue
                for k2, st3, p2 in self.ex(s.body, st2):
                    if k2 in ("next", "continue"):
                        yield from go(i + 1, st3)
                    elif k2 == "break":
                        yield "next", st3, None
                    else:
                        yield k2, st3, p2
        yield from go(0, st)

    def loop_rule(self, s, st, k, ls, source):
        """Hoare rule for loops with an invariant (R1).  source: None (while) or ("seq", V)."""
        tag = "loop%d" % k
        idx_name, seq_name = "_i%d" % k, "_s%d" % k
        if source is not None and source[0] == "seq":
            st.ghost[seq_name] = source[1]
            st.ghost[idx_name] = vint(0)
        if source is not None and source[0] == "iter":
            st.ghost[idx_name] = vint(0)
        entry_vals = [v for v in self.spec_env(st).values() if isinstance(v, V)]

        def prefix_axiom(stt, which, idx_term=None):
            """R6: unfolding instances of in_prefix for the sequence being iterated."""
            if source is None or source[0] != "seq" or source[1].t is None:
                return
            from .speceval import in_prefix_fn
            sq = source[1]
            es = sort_of(sq.ty.args[0])
            f = in_prefix_fn(es)
            kq = z3.Const("k!pfx", es)
            from .speceval import fold_fn
            for fname, fd in S.FOLDS.items():
                if sort_of(fd["elem"]) != es:
                    continue
                ff = fold_fn(fname, fd)
                a0 = z3.Const("a0!" + fname, sort_of(fd["acc"]))
                # ground instances for the values the variables of the accumulator's type had on loop entry
                # (what invariants of the form  x == fold(_s, _i, pre(x))  need), plus the general axiom
                grounds = [v.t for v in entry_vals if v.ty == fd["acc"] and v.t is not None]
                if fd["acc"].kind == "seq":
                    grounds.append(z3.Empty(sort_of(fd["acc"])))       # folds that start from the empty sequence
                if which == "zero":
                    stt.assume(z3.ForAll([a0], ff(sq.t, z3.IntVal(0), a0) == a0))
                    for g0 in grounds:
                        stt.assume(ff(sq.t, z3.IntVal(0), g0) == g0)
                elif which == "step":
                    def step_of(a):
                        env = {"acc": V(fd["acc"], ff(sq.t, idx_term, a)), "e": V(sq.ty.args[0], sq.t[idx_term])}
                        return coerce(SpecEval(stt, env, None, None, self).ev(ast.parse(fd["step"], mode="eval").body), fd["acc"]).t
                    stt.assume(z3.ForAll([a0], ff(sq.t, idx_term + 1, a0) == step_of(a0), patterns=[ff(sq.t, idx_term + 1, a0)]))
                    for g0 in grounds:
                        stt.assume(ff(sq.t, idx_term + 1, g0) == step_of(g0))
            if which == "zero":
                stt.assume(z3.ForAll([kq], z3.Not(f(sq.t, z3.IntVal(0), kq))))
            elif which == "step":
                stt.assume(z3.ForAll([kq], f(sq.t, idx_term + 1, kq) == z3.Or(f(sq.t, idx_term, kq), sq.t[idx_term] == kq)))
            elif which == "full":
                stt.assume(z3.ForAll([kq], f(sq.t, z3.Length(sq.t), kq) == z3.Contains(sq.t, z3.Unit(kq))))

        prefix_axiom(st, "zero")
        # 1. invariant holds on entry
        se = SpecEval(st, self.spec_env(st), self.old0, self.penv0, self)
        se.pre_st, se.pre_env = st, self.spec_env(st)
        for cl in ls["inv"]:
            self.oblige(st, se.bool_of(cl.expr), "%s:inv-entry:%s" % (tag, cl.label), "L", "loop-inv",
                        "loop %d invariant on entry: %s" % (k, cl.expr))
        # 2. havoc
        pre_loop = st.fork()
        body_nodes = list(s.body) + ([s.test] if isinstance(s, ast.While) else [])
        for nm in sorted(self.assigned_names(s.body) | set(ls.get("havoc") or [])):
            cur = self.lookup(nm, st)
            lt = self.contract.locals.get(nm) or (cur.ty if cur is not None else None)
            if lt is None:
                continue     # first assigned inside the loop: unbound before, bound by the body
            if lt.kind in ("closure", "class", "static", "module", "bound", "star"):
                continue
            hv = fresh(lt, nm)
            self.wf(st, hv)
            if nm in st.env or cur is None:
                st.env[nm] = hv
            else:
                for fr in reversed(st.frames):
                    if nm in fr:
                        fr[nm] = hv
                        break
        a2 = z3.Int("alloc!%d" % fresh(INT).t.hash())
        st.assume(a2 >= st.alloc)
        st.alloc = a2
        self.havoc_frame(st, ls["modifies"], self.spec_env(pre_loop), pre_loop)
        if source is not None:
            i = fresh(INT, idx_name)
            st.ghost[idx_name] = i
            st.assume(i.t >= 0)
            if source[0] == "seq":
                st.assume(i.t <= self.seq_len(source[1]))
        # 3. assume invariant
        se = SpecEval(st, self.spec_env(st), self.old0, self.penv0, self)
        se.pre_st, se.pre_env = pre_loop, self.spec_env(pre_loop)
        for cl in ls["inv"]:
            st.assume(se.bool_of(cl.expr))
        variant0 = None
        if ls.get("variant"):
            variant0 = se.value_of(ls["variant"]).t

        def close_iteration(st_end):
            """invariant preserved + variant decreases; path is then cut."""
            if source is not None:
                prefix_axiom(st_end, "step", st_end.ghost[idx_name].t)
                st_end.ghost[idx_name] = V(INT, st_end.ghost[idx_name].t + 1)
            se2 = SpecEval(st_end, self.spec_env(st_end), self.old0, self.penv0, self)
            se2.pre_st, se2.pre_env = pre_loop, self.spec_env(pre_loop)
            for cl in ls["inv"]:
                self.oblige(st_end, se2.bool_of(cl.expr), "%s:inv-preserved:%s" % (tag, cl.label), "L",
                            "loop-inv", "loop %d invariant preserved: %s" % (k, cl.expr))
            if variant0 is not None:
                v1 = se2.value_of(ls["variant"]).t
                self.oblige(st_end, z3.And(v1 < variant0, variant0 >= 0), "%s:variant" % tag, "P",
                            "loop-variant", "loop %d variant %s decreases and is bounded" % (k, ls["variant"]))

        def run_body(st_b):
            for kind, st3, p in self.ex(s.body, st_b):
                if kind in ("next", "continue"):
                    close_iteration(st3)
                elif kind == "break":
                    yield "next", st3, None
                else:
                    yield kind, st3, p

        if source is None:
            for st1, c in self.ev(s.test, st):
                if isinstance(c, Raised):
                    yield "raise", st1, c.exc
                    continue
                for st1b, t in self.truthy(st1, c):
                    if isinstance(t, Raised):
                        yield "raise", st1b, t.exc
                        continue
                    for st2, taken in self.branch(st1b, t):
                        st2.trace.append("L%d:while=%s" % (s.lineno, taken))
                        if taken:
                            yield from run_body(st2)
                        else:
                            yield from self.ex(s.orelse, st2)
        elif source[0] == "seq":
            seqv = source[1]
            i = st.ghost[idx_name]
            for st2, more in self.branch(st, i.t < self.seq_len(seqv)):
                st2.trace.append("L%d:for=%s" % (s.lineno, more))
                if more:
                    item = self.seq_item(seqv, i.t)
                    for kind, st3, p in self.assign(s.target, item, st2):
                        if kind != "next":
                            yield kind, st3, p
                        else:
                            yield from run_body(st3)
                else:
                    st2.assume(i.t == self.seq_len(seqv))
                    prefix_axiom(st2, "full")
                    yield from self.ex(s.orelse, st2)
        else:
            # opaque iterator under a callable spec "next item or stop"
            itv = source[1]
            fs = S.FUNSPECS[itv.ty.name]
            for st2, r in self.apply_spec(fs, [], {}, st, "next(%s) line %d" % (itv.ty.name, s.lineno), fval=itv):
                if isinstance(r, Raised):
                    if r.exc.cls is StopIteration:
                        yield from self.ex(s.orelse, st2)
                    else:
                        yield "raise", st2, r.exc
                    continue
                for kind, st3, p in self.assign(s.target, r, st2):
                    if kind != "next":
                        yield kind, st3, p
                    else:
                        yield from run_body(st3)

    def seq_len(self, seqv: V):
        rg = getattr(seqv, "_range", None)
        if rg is not None:
            lo, hi = rg
            return z3.If(hi - lo < 0, 0, hi - lo)
        return z3.IntVal(0) if seqv.t is None else z3.Length(seqv.t)

    def seq_item(self, seqv: V, i):
        rg = getattr(seqv, "_range", None)
        if rg is not None:
            return V(INT, rg[0] + i)
        if getattr(seqv, "_enumerate", False):
            return vtuple([V(INT, i), V(seqv.ty.args[0], seqv.t[i])])
        if getattr(seqv, "_items_val", None) is not None:
            # for k, v in d.items(): the i-th key with the value the dict held for it when the loop started
            vt, val = seqv._items_val
            kk = seqv.t[i]
            return vtuple([V(seqv.ty.args[0], kk), V(vt, z3.Select(val, kk))])
        return V(seqv.ty.args[0], seqv.t[i])


_hq_cache = {}


def has_quantifier(e):
    k = e.get_id()
    r = _hq_cache.get(k)
    if r is None:
        r = False
        todo, seen = [e], set()
        while todo:
            x = todo.pop()
            if x.get_id() in seen:
                continue
            seen.add(x.get_id())
            if z3.is_quantifier(x):
                r = True
                break
            todo.extend(x.children())
        _hq_cache[k] = r
    return r


def to_load(t):
    t2 = ast.copy_location(type(t)(**{f: getattr(t, f) for f in t._fields}), t)
    t2.ctx = ast.Load()
    return t2


def own_nodes(fn):
    """All nodes of a function body excluding nested function/class bodies."""
    todo = list(fn.body)
    while todo:
        n = todo.pop()
        yield n
        for c in ast.iter_child_nodes(n):
            if isinstance(c, (ast.FunctionDef, ast.ClassDef, ast.Lambda)):
                continue
            todo.append(c)
