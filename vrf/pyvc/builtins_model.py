"""Models of Python builtins and container/str methods (part of the trusted
encoding of Python's semantics, DESIGN section 3.1)."""
from __future__ import annotations

import z3

from .types import (Ty, V, INT, BOOL, REAL, STR, BYTES, ANY, NONE, SEQ, LIST, DICT, SET, WRITER, OBJ,
                    sort_of, vint, vbool, vstr, vnone, vtuple, vopt, vreal, fresh, parse_ty)
from .state import (State, Exc, Raised, Unsupported, box, coerce, is_listlike, is_dictlike,
                    elem_ty, dict_tys)
from . import ops
from . import spec as S
from .speceval import str_method

STATIC = {}


def named_set(st, et, member, tag):
    """a set value as a named characteristic array R with  forall x. R[x] == member(x)  (patterns chosen among the
    candidate terms that z3 accepts); keeps heap terms free of lambdas and map combinators"""
    x = z3.Const("x!%s" % tag, sort_of(et))
    R = z3.Const("%s!%d" % (tag, fresh(INT).t.hash()), z3.ArraySort(sort_of(et), z3.BoolSort()))
    body = z3.Select(R, x) == member(x)
    pats = []
    for cand in [z3.Select(R, x)]:
        try:
            z3.ForAll([x], body, patterns=[cand])
            pats.append(cand)
        except z3.Z3Exception:
            pass
    st.assume(z3.ForAll([x], body, patterns=pats) if pats else z3.ForAll([x], body))
    return R


def static(*names):
    def deco(f):
        for n in names:
            STATIC[n] = f
        return f
    return deco


@static("builtins:len")
def _len(E, st, args, kw, n):
    v = args[0]
    if v.ty.kind == "obj":
        key = S.find_method(v.ty.name, "__len__")
        if key:
            yield from E.apply_contract(key, [v], {}, st, "len() line %d" % n.lineno)
            return
    if v.ty.kind in ("str", "bytes"):
        yield st, V(INT, z3.Length(v.t))
        return
    if v.ty.kind == "tuple":
        yield st, vint(len(v.items))
        return
    if v.ty.kind == "fun":
        # len() of an opaque iterable: TypeError unless it is sized (uninterpreted)
        sized = ops.UF("is_sized", z3.IntSort(), z3.BoolSort())(v.t)
        for st2, ok in E.branch(st, sized):
            if ok:
                ln = ops.UF("len_of", z3.IntSort(), z3.IntSort())(v.t)
                st2.assume(ln >= 0)
                yield st2, V(INT, ln)
            else:
                yield st2, Raised(Exc(TypeError, origin="len() of unsized iterable"))
        return
    if v.ty.kind == "any":
        raise Unsupported("len() of an opaque value")
    if v.ty.kind == "set":
        c = ops.card(st.set_get(v))
        st.assume(c >= 0)
        yield st, V(INT, c)
        return
    if is_dictlike(v.ty):
        c = ops.card(st.dict_get(v)[0])
        st.assume(c >= 0)
        yield st, V(INT, c)
        return
    s = ops.as_seq(st, v)
    yield st, V(INT, z3.IntVal(0) if s.t is None else z3.Length(s.t))


@static("builtins:isinstance")
def _isinstance(E, st, args, kw, n):
    v, c = args
    classes = c.items if c.ty.kind == "tuple" else [c]
    names = []
    for cl in classes:
        if cl.ty.kind not in ("class", "static"):
            raise Unsupported("isinstance against %s" % cl.ty)
        names.append(cl.py)
    k = v.ty.kind
    prim = {"builtins:str": "str", "builtins:bytes": "bytes", "builtins:int": "int",
            "builtins:bool": "bool", "builtins:list": "list", "builtins:tuple": "tuple",
            "builtins:dict": "dict", "builtins:float": "real"}
    if k in ("str", "bytes", "int", "bool", "real", "tuple", "list", "dict", "none"):
        res = any(prim.get(q) == k or (prim.get(q) == "int" and k == "bool") for q in names)
        yield st, vbool(res)
        return
    if k == "obj":
        res = False
        for q in names:
            cname = q.split(":")[1]
            if cname in S.CLASSES and S.is_subclass(v.ty.name, cname):
                res = True
        if res:
            yield st, vbool(v.t != 0)
            return
        # statically unrelated class, or a subclass relation not visible statically
        real_v = E.real_object(S.CLASSES[v.ty.name].qual) if v.ty.name in S.CLASSES else None
        real_sub = [q for q in names if isinstance(E.real_object(q), type) and isinstance(real_v, type)
                    and issubclass(E.real_object(q), real_v)]
        if real_sub:
            tag = ops.UF("dyn_isinstance_" + "_".join(q.split(":")[1] for q in names), z3.IntSort(), z3.BoolSort())
            yield st, vbool(z3.And(v.t != 0, tag(v.t)))
            return
        if any(q.split(":")[1] in S.CLASSES and S.is_subclass(q.split(":")[1], v.ty.name) for q in names):
            tag = ops.UF("dyn_isinstance_" + "_".join(q.split(":")[1] for q in names), z3.IntSort(), z3.BoolSort())
            yield st, vbool(z3.And(v.t != 0, tag(v.t)))
            return
        if real_v is None:
            # the schema class is a stand-in for several real classes (e.g. "any parse-tree node"): whether the object is
            # an instance of the named class is not known statically
            tag = ops.UF("dyn_isinstance_" + "_".join(q.split(":")[1] for q in names), z3.IntSort(), z3.BoolSort())
            yield st, vbool(z3.And(v.t != 0, tag(v.t)))
            return
        yield st, vbool(False)
        return
    if k == "any":
        tag = ops.UF("any_isinstance_" + "_".join(q.split(":")[1] for q in names), z3.IntSort(), z3.BoolSort())
        yield st, vbool(z3.And(v.t != 0, tag(v.t)))
        return
    raise Unsupported("isinstance on %s" % v.ty)


@static("builtins:callable")
def _callable(E, st, args, kw, n):
    v = args[0]
    if v.ty.kind in ("fun", "any", "writer"):
        yield st, vbool(z3.And(v.t != 0, ops.UF("is_callable", z3.IntSort(), z3.BoolSort())(v.t)))
    elif v.ty.kind in ("closure", "static", "class", "bound"):
        yield st, vbool(True)
    else:
        yield st, vbool(False)


@static("builtins:bool")
def _bool(E, st, args, kw, n):
    if not args:
        yield st, vbool(False)
        return
    for st2, t in E.truthy(st, args[0]):
        yield st2, (t if isinstance(t, Raised) else vbool(t))


@static("builtins:int")
def _int(E, st, args, kw, n):
    v = args[0]
    if v.ty.kind == "int":
        yield st, v
    elif v.ty.kind == "bool":
        yield st, V(INT, z3.If(v.t, 1, 0))
    elif v.ty.kind == "real":
        yield st, V(INT, z3.ToInt(v.t))     # floor for non-negative values (times, mtimes)
    elif v.ty.kind == "str":
        ok = ops.UF("str_is_int", z3.StringSort(), z3.BoolSort())(v.t)
        for st2, good in E.branch(st, ok):
            if good:
                yield st2, V(INT, z3.StrToInt(v.t))
            else:
                yield st2, Raised(Exc(ValueError, origin="int() line %d" % n.lineno))
    else:
        raise Unsupported("int() of %s" % v.ty)


@static("builtins:str")
def _str(E, st, args, kw, n):
    if not args:
        yield st, vstr("")
        return
    v = args[0]
    if v.ty.kind == "str":
        yield st, v
        return
    if v.ty.kind == "bytes" and len(args) == 1 and not kw:
        # str(b) is repr-like "b'...'", NOT decoding
        yield st, V(STR, ops.UF("bytes_repr", z3.StringSort(), z3.StringSort())(v.t))
        return
    if v.ty.kind == "bytes":
        enc = kw.get("encoding") or (args[1] if len(args) > 1 else vstr("utf-8"))
        ok = ops.UF("decodable", z3.StringSort(), z3.StringSort(), z3.BoolSort())(v.t, enc.t)
        for st2, good in E.branch(st, ok):
            if good:
                yield st2, V(STR, ops.UF("bytes_decode", z3.StringSort(), z3.StringSort(), z3.StringSort())(v.t, enc.t))
            else:
                yield st2, Raised(Exc(UnicodeDecodeError, origin="str(bytes, encoding) line %d" % n.lineno))
        return
    if v.ty.kind == "int":
        yield st, V(STR, z3.IntToStr(v.t))
        return
    if v.ty.kind == "obj" and (v.ty.name == "<exc>" or getattr(v, "_exc", None) is not None):
        yield st, V(STR, ops.UF("str_of_any", z3.IntSort(), z3.StringSort())(v.t))
        return
    if v.ty.is_ref:
        # arbitrary __str__: may raise anything
        st_e = st.fork()
        yield st_e, Raised(Exc(None, origin="str() of opaque object line %d" % n.lineno))
        yield st, V(STR, ops.UF("str_of_any", z3.IntSort(), z3.StringSort())(v.t))
        return
    raise Unsupported("str() of %s" % v.ty)


@static("mako.compat:exception_as")
def _exception_as(E, st, args, kw, n):
    if st.cur_exc is None:
        yield st, vnone()
        return
    exc = st.cur_exc
    yield st, exc_value(exc)


def exc_value(exc):
    if exc.ref is not None:
        ev = exc.ref
    else:
        if exc.rid is None:
            exc.rid = fresh(ANY, "excid")
        ev = V(OBJ("<exc>"), exc.rid.t, py=exc.cls)
    ev._exc = exc
    return ev


@static("sys:exc_info")
def _exc_info(E, st, args, kw, n):
    if st.cur_exc is None:
        yield st, vtuple([vnone(), vnone(), vnone()])
        return
    exc = st.cur_exc
    ev = exc_value(exc)
    cls = fresh(ANY, "exc_cls")
    tb = fresh(ANY, "exc_tb")
    st.assume(cls.t > 0)
    yield st, vtuple([cls, ev, tb])


@static("builtins:repr")
def _repr(E, st, args, kw, n):
    v = args[0]
    yield st, V(STR, ops.UF("repr_" + v.ty.kind, sort_of(v.ty) if not v.ty.is_ref else z3.IntSort(), z3.StringSort())(v.t))


@static("builtins:id")
def _id(E, st, args, kw, n):
    yield st, V(INT, args[0].t)


@static("builtins:hex")
def _hex(E, st, args, kw, n):
    yield st, V(STR, ops.UF("hex", z3.IntSort(), z3.StringSort())(args[0].t))


@static("builtins:abs")
def _abs(E, st, args, kw, n):
    yield st, V(args[0].ty, z3.If(args[0].t < 0, -args[0].t, args[0].t))


@static("builtins:range")
def _range(E, st, args, kw, n):
    if len(args) == 1:
        lo, hi = z3.IntVal(0), args[0].t
    elif len(args) == 2:
        lo, hi = args[0].t, args[1].t
    else:
        raise Unsupported("range with step")
    v = V(SEQ(INT), None)
    v._range = (lo, hi)
    yield st, v


@static("builtins:list")
def _list(E, st, args, kw, n):
    if not args:
        r = st.new_ref(LIST(getattr(n, "_elem_hint", None) or ANY))
        st.list_set(r, z3.Empty(z3.SeqSort(sort_of(r.ty.args[0]))))
        yield st, r
        return
    v = args[0]
    if getattr(v, "_keys_of", None) is not None:
        d = v._keys_of
        ks = E.dict_key_seq(st, d)
        yield st, E.alloc_list(st, ks)
        return
    s = ops.as_seq(st, v)
    yield st, E.alloc_list(st, s)


@static("builtins:tuple")
def _tuple(E, st, args, kw, n):
    if not args:
        yield st, vtuple([])
        return
    v = args[0]
    if v.ty.kind == "tuple":
        yield st, v
        return
    yield st, ops.as_seq(st, v)


@static("builtins:set")
def _set(E, st, args, kw, n):
    """set() / set(iterable-of-str): a new set"""
    hint = getattr(n, "_elem_hint", None) or STR
    r = st.new_ref(SET(hint))
    dom = z3.K(sort_of(hint), z3.BoolVal(False))
    if args:
        src = args[0]
        if src.ty.kind == "set":
            dom = st.set_get(src)
        elif is_listlike(src.ty) or src.ty.kind == "seq":
            sq = ops.as_seq(st, src)
            dom = named_set(st, hint, lambda x: z3.Contains(sq.t, z3.Unit(x)), "setof") if sq.t is not None else dom
        else:
            raise Unsupported("set(%s)" % src.ty)
    st.set_set(r, dom)
    yield st, r


@static("builtins:dict.get", "builtins:dict.pop", "builtins:dict.setdefault")
def _dict_raw_method(E, st, args, kw, n):
    """dict.get(self, k) etc. on a dict subclass: the raw dict operation, bypassing overrides"""
    yield from method(E, st, args[0], n.func.attr, list(args[1:]), kw, n)


@static("builtins:dict.__getitem__")
def _dict_raw_getitem(E, st, args, kw, n):
    base, idx = args
    kt, vt = dict_tys(base.ty)
    dom, val = st.dict_get(base)
    k = coerce(idx, kt)
    for st2, present in E.branch(st, z3.Select(dom, k.t)):
        if present:
            yield st2, E.wf(st2, V(vt, z3.Select(val, k.t)))
        else:
            yield st2, Raised(Exc(KeyError, origin="dict.__getitem__ line %d" % n.lineno))


@static("builtins:dict.__setitem__")
def _dict_raw_setitem(E, st, args, kw, n):
    base, idx, v = args
    kt, vt = dict_tys(base.ty)
    dom, val = st.dict_get(base)
    k = coerce(idx, kt)
    st.dict_set(base, ops.card_store_facts(st, dom, k.t, True), z3.Store(val, k.t, coerce(v, vt).t))
    yield st, vnone()


@static("builtins:dict.__contains__")
def _dict_raw_contains(E, st, args, kw, n):
    base, idx = args
    kt, vt = dict_tys(base.ty)
    yield st, vbool(z3.Select(st.dict_get(base)[0], coerce(idx, kt).t))


@static("builtins:dict")
def _dict(E, st, args, kw, n):
    hint = getattr(n, "_dict_hint", None) or (STR, ANY)
    kt, vt = hint
    d = st.new_ref(DICT(kt, vt))
    dom = z3.K(sort_of(kt), z3.BoolVal(False))
    val = z3.Const("dval0!%d" % fresh(INT).t.hash(), z3.ArraySort(sort_of(kt), sort_of(vt)))
    if args:
        raise Unsupported("dict(x)")
    for k, v in kw.items():
        dom = z3.Store(dom, z3.StringVal(k), True)
        val = z3.Store(val, z3.StringVal(k), coerce(v, vt).t)
    st.dict_set(d, dom, val)
    yield st, d


@static("builtins:locals")
def _locals(E, st, args, kw, n):
    d = st.new_ref(DICT(STR, ANY))
    st.dict_set(d, z3.Const("locals_dom!%d" % fresh(INT).t.hash(), z3.ArraySort(z3.StringSort(), z3.BoolSort())),
                z3.Const("locals_val!%d" % fresh(INT).t.hash(), z3.ArraySort(z3.StringSort(), z3.IntSort())))
    yield st, d


@static("builtins:hasattr")
def _hasattr(E, st, args, kw, n):
    o, name = args
    nm = z3.simplify(name.t)
    if o.ty.kind == "obj" and z3.is_string_value(nm):
        fty, _ = S.find_field(o.ty.name, nm.as_string())
        if fty is not None:
            # optional attribute modelled as a nullable field: present iff not None
            yield st, vbool(z3.Not(ops.is_none(st.get_field(o, nm.as_string()))))
            return
    f = ops.UF("hasattr", z3.IntSort(), z3.StringSort(), z3.BoolSort())
    yield st, vbool(f(o.t, name.t))


@static("builtins:getattr")
def _getattr(E, st, args, kw, n):
    o, name = args[0], args[1]
    nm = z3.simplify(name.t)
    if o.ty.kind == "obj" and z3.is_string_value(nm) and S.find_field(o.ty.name, nm.as_string())[0] is not None:
        yield from E.getattr_(st, o, nm.as_string(), n)
        return
    has = ops.UF("hasattr", z3.IntSort(), z3.StringSort(), z3.BoolSort())(o.t, name.t)
    val = V(ANY, ops.UF("getattr", z3.IntSort(), z3.StringSort(), z3.IntSort())(o.t, name.t))
    if len(args) > 2:
        d = args[2]
        for st2, h in E.branch(st, has):
            if h:
                yield st2, val
            else:
                yield st2, coerce(d, ANY)
        return
    for st2, h in E.branch(st, has):
        if h:
            yield st2, val
        else:
            yield st2, Raised(Exc(AttributeError, origin="getattr line %d" % n.lineno))


@static("builtins:setattr")
def _setattr(E, st, args, kw, n):
    o, name, v = args
    nm = z3.simplify(name.t)
    if o.ty.kind == "obj" and z3.is_string_value(nm) and S.find_field(o.ty.name, nm.as_string())[0] is not None:
        st.set_field(o, nm.as_string(), v)
        yield st, vnone()
        return
    if o.ty.kind == "obj":
        # dynamic attribute memo table: Class.__attrs__ : Dict[Str, Any]
        fty, owner = S.find_field(o.ty.name, "__attrs__")
        if fty is not None:
            d = st.get_field(o, "__attrs__")
            dom, val = st.dict_get(d)
            st.dict_set(d, z3.Store(dom, name.t, True), z3.Store(val, name.t, coerce(v, ANY).t))
            yield st, vnone()
            return
    raise Unsupported("setattr on %s" % o.ty)


def _key_le(a, b):
    """a <= b for key values of the same shape: bools (False < True), ints, strings (lexicographic), tuples of those"""
    if a.ty.kind == "tuple" and b.ty.kind == "tuple" and len(a.items) == len(b.items):
        if not a.items:
            return z3.BoolVal(True)
        x, y = a.items[0], b.items[0]
        lt = z3.And(_key_le(x, y), z3.Not(_key_le(y, x)))
        eq = z3.And(_key_le(x, y), _key_le(y, x))
        rest = _key_le(_tail(a), _tail(b))
        return z3.Or(lt, z3.And(eq, rest))
    if a.ty.kind == "bool" and b.ty.kind == "bool":
        return z3.Implies(a.t, b.t)
    if a.ty.kind == "int" and b.ty.kind == "int":
        return a.t <= b.t
    if a.ty.kind == "str" and b.ty.kind == "str":
        return a.t <= b.t
    raise Unsupported("sort key of type %s" % a.ty)


def _tail(v):
    from .types import vtuple
    return vtuple(list(v.items[1:]))


@static("builtins:sorted")
def _sorted(E, st, args, kw, n):
    """sorted(<set or list of scalars>, key=lambda x: <pure expression>): a new list with exactly the elements of the argument
    (a set: each once) in an order in which the keys never decrease.  Keys: bools, ints, strings, tuples of those."""
    import ast as _ast
    if len(args) != 1 or set(kw) - {"key"} or "key" not in kw or kw["key"].ty.kind != "closure" \
            or not isinstance(kw["key"].py[0], _ast.Lambda) or len(kw["key"].py[0].args.args) != 1:
        raise Unsupported("sorted() needs an assumed contract at this call site (line %d)" % n.lineno)
    it = args[0]
    if it.ty.kind == "set":
        et = it.ty.args[0]
        src = E.set_elem_seq(st, it)
    elif is_listlike(it.ty):
        src = ops.as_seq(st, it)
        et = src.ty.args[0]
    else:
        raise Unsupported("sorted() over %s" % it.ty)
    if et.kind not in ("str", "int"):
        raise Unsupported("sorted() over elements of type %s" % et)
    r = fresh(SEQ(et), "sorted")
    x = z3.Const("x!srt%d" % r.t.hash(), sort_of(et))
    st.assume(z3.Length(r.t) == z3.Length(src.t))
    st.assume(z3.ForAll([x], z3.Contains(r.t, z3.Unit(x)) == z3.Contains(src.t, z3.Unit(x))))
    if it.ty.kind == "set":
        # membership in the whole result, in the vocabulary loop invariants use (in_prefix up to the full length)
        from .speceval import in_prefix_fn
        dom = st.set_get(it)
        st.assume(z3.ForAll([x], in_prefix_fn(sort_of(et))(r.t, z3.Length(r.t), x) == z3.Select(dom, x),
                            patterns=[in_prefix_fn(sort_of(et))(r.t, z3.Length(r.t), x), z3.Select(dom, x)]))
    # the key of an arbitrary element, evaluated once symbolically (it has to be a pure, single-path expression)
    lam, cenv, cframes = kw["key"].py
    e1, e2 = fresh(et, "key_a"), fresh(et, "key_b")
    keys = []
    for e in (e1, e2):
        probe = st.fork()
        probe.env = {lam.args.args[0].arg: e}
        probe.frames = cframes + [cenv]
        npc = len(probe.pc)
        outs = list(E.ev(lam.body, probe))
        if len(outs) != 1 or isinstance(outs[0][1], Raised) or len(outs[0][0].pc) != npc:
            raise Unsupported("sort key is not a pure single-path expression (line %d)" % n.lineno)
        keys.append(outs[0][1])
    le = _key_le(keys[0], keys[1])
    i, j = z3.Int("i!srt%d" % r.t.hash()), z3.Int("j!srt%d" % r.t.hash())
    st.assume(z3.ForAll([i, j], z3.Implies(z3.And(0 <= i, i < j, j < z3.Length(r.t)),
                                           z3.substitute(le, (e1.t, r.t[i]), (e2.t, r.t[j]))),
                        patterns=[z3.MultiPattern(r.t[i], r.t[j])]))
    yield st, E.alloc_list(st, r, et)


@static("builtins:max", "builtins:min")
def _maxmin(E, st, args, kw, n):
    raise Unsupported("max/min")


@static("functools:partial")
def _partial(E, st, args, kw, n):
    # an opaque callable object determined by its arguments
    f = ops.UF("partial%d" % len(args), *([z3.IntSort()] * (len(args) + 1)))
    ts = []
    for a in args:
        if a.ty.kind in ("static", "class", "closure", "bound"):
            ts.append(z3.Int("static_" + str(a.py if a.ty.kind != "closure" else id(a.py[0])).replace(":", "_").replace(" ", "")))
        else:
            ts.append(box(a).t)
    r = V(ANY, f(*ts))
    st.assume(r.t > 0)
    yield st, r


def seq_lemma_prefix(st, new, old, n):
    """R6 sequence lemma, stated so that E-matching can use it: the first n elements of `new`
    are those of `old` (valid for new = old ++ [x] with n = len(old), and for new = old without
    the element at index n).  Each instance is itself checked valid in the sequence theory by
    z3 before it is assumed."""
    k = z3.Int("k!seqlemma")
    body = z3.Implies(z3.And(k >= 0, k < n), new[k] == old[k])
    try:
        lemma = z3.ForAll([k], body, patterns=[new[k]])
    except z3.Z3Exception:
        lemma = z3.ForAll([k], body)          # the term holds an if-then-else: no usable pattern
    st.assume(lemma)


# ---------------------------------------------------------------------------
# methods on builtin containers / strings

def method(E, st, recv: V, name, args, kw, n):
    line = n.lineno
    k = recv.ty.kind
    if is_listlike(recv.ty):
        et = elem_ty(recv.ty)
        cur = st.list_get(recv)
        if name == "append":
            item = coerce(args[0], et).t
            new = z3.Concat(cur.t, z3.Unit(item))
            st.list_set(recv, new)
            seq_lemma_prefix(st, new, cur.t, z3.Length(cur.t))
            st.assume(new[z3.Length(cur.t)] == item)
            yield st, vnone()
            return
        if name == "pop":
            ln = z3.Length(cur.t)
            if args:
                i = ops.norm_index(ln, args[0].t)
            else:
                i = ln - 1
            for st2, ok in E.branch(st, z3.And(i >= 0, i < ln)):
                if ok:
                    c = st2.list_get(recv).t
                    item = V(et, c[i])
                    new = z3.Concat(z3.SubSeq(c, 0, i), z3.SubSeq(c, i + 1, z3.Length(c) - i - 1))
                    st2.list_set(recv, new)
                    seq_lemma_prefix(st2, new, c, i)
                    yield st2, item
                else:
                    yield st2, Raised(Exc(IndexError, origin="pop line %d" % line))
            return
        if name == "insert":
            ln = z3.Length(cur.t)
            i = args[0].t
            i = z3.If(i < 0, z3.If(ln + i < 0, 0, ln + i), z3.If(i > ln, ln, i))
            st.list_set(recv, z3.Concat(z3.SubSeq(cur.t, 0, i), z3.Unit(coerce(args[1], et).t), z3.SubSeq(cur.t, i, ln - i)))
            yield st, vnone()
            return
        if name == "extend":
            other = ops.as_seq(st, args[0])
            if other.t is not None:
                st.list_set(recv, z3.Concat(cur.t, other.t))
            yield st, vnone()
            return
        if name == "reverse":
            rv = ops.UF("seq_reverse_" + str(et), cur.t.sort(), cur.t.sort())(cur.t)
            st.list_set(recv, rv)
            yield st, vnone()
            return
        if name == "copy":
            yield st, E.alloc_list(st, cur)
            return
        raise Unsupported("list.%s (line %d)" % (name, line))
    if recv.ty.kind == "dictv" and name == "get":
        kt, vt = recv.ty.args
        dom, val = recv.items
        key = coerce(args[0], kt)
        d = coerce(args[1], vt) if len(args) > 1 else None
        if d is None:
            raise Unsupported("dict-literal.get without default")
        lit = getattr(recv, "_lit", None)
        if lit is not None:
            # a literal table: the lookup as a chain of comparisons (same meaning as the array form, easier on the solvers)
            t = d.t
            for kx, vx in lit:
                t = z3.If(key.t == z3.StringVal(kx), z3.StringVal(vx), t)
            yield st, V(vt, t)
            return
        yield st, V(vt, z3.If(z3.Select(dom, key.t), z3.Select(val, key.t), d.t))
        return
    if is_dictlike(recv.ty):
        kt, vt = dict_tys(recv.ty)
        dom, val = st.dict_get(recv)
        if name == "get":
            key = coerce(args[0], kt)
            if len(args) > 1:
                d = args[1]
                for st2, present in E.branch(st, z3.Select(dom, key.t)):
                    yield st2, (V(vt, z3.Select(val, key.t)) if present else d)
            else:
                yield st, V(vt, z3.If(z3.Select(dom, key.t), z3.Select(val, key.t), coerce(vnone(), vt).t))
            return
        if name == "pop":
            key = coerce(args[0], kt)
            for st2, present in E.branch(st, z3.Select(dom, key.t)):
                if present:
                    d2, v2 = st2.dict_get(recv)
                    st2.dict_set(recv, ops.card_store_facts(st2, d2, key.t, False), v2)
                    yield st2, V(vt, z3.Select(v2, key.t))
                elif len(args) > 1:
                    yield st2, args[1]
                else:
                    yield st2, Raised(Exc(KeyError, origin="pop line %d" % line))
            return
        if name == "copy":
            d = st.new_ref(DICT(kt, vt))
            st.dict_set(d, dom, val)
            yield st, d
            return
        if name == "update":
            if args:
                (d2, v2), _ = ops.dict_parts(st, args[0])
                dom, val = ops.dict_merge(dom, val, d2, v2, kt, vt)
            for kk, v in kw.items():
                if kk == "**":
                    raise Unsupported("update(**x)")
                dom = z3.Store(dom, z3.StringVal(kk), True)
                val = z3.Store(val, z3.StringVal(kk), coerce(v, vt).t)
            st.dict_set(recv, dom, val)
            yield st, vnone()
            return
        if name == "setdefault":
            key = coerce(args[0], kt)
            for st2, present in E.branch(st, z3.Select(dom, key.t)):
                d2, v2 = st2.dict_get(recv)
                if present:
                    yield st2, V(vt, z3.Select(v2, key.t))
                else:
                    nv = coerce(args[1], vt)
                    st2.dict_set(recv, ops.card_store_facts(st2, d2, key.t, True), z3.Store(v2, key.t, nv.t))
                    yield st2, nv
            return
        if name == "keys":
            v = V(Ty("dictkeys"), None)
            v._keys_of = recv
            yield st, v
            return
        if name == "items" and not args:
            v = V(Ty("dictitems"), None)
            v._items_of = recv
            yield st, v
            return
        if name == "values" and not args:
            v = V(Ty("dictvalues"), None)
            v._values_of = recv
            yield st, v
            return
        raise Unsupported("dict.%s (line %d)" % (name, line))
    if k == "set":
        dom = st.set_get(recv)
        et = recv.ty.args[0]
        if name == "add":
            st.set_set(recv, z3.Store(dom, coerce(args[0], et).t, True))
            yield st, vnone()
            return
        if name == "remove":
            e = coerce(args[0], et)
            for st2, present in E.branch(st, z3.Select(dom, e.t)):
                if present:
                    st2.set_set(recv, z3.Store(st2.set_get(recv), e.t, False))
                    yield st2, vnone()
                else:
                    yield st2, Raised(Exc(KeyError, origin="set.remove line %d" % line))
            return
        if name == "discard":
            st.set_set(recv, z3.Store(dom, coerce(args[0], et).t, False))
            yield st, vnone()
            return
        if name == "union" and len(args) == 1:
            other = args[0]
            r = st.new_ref(SET(et))
            if is_listlike(other.ty) or other.ty.kind == "seq":
                sq = ops.as_seq(st, other)
                if sq.t is None:
                    st.set_set(r, dom)
                else:
                    st.set_set(r, named_set(st, et, lambda x: z3.Or(z3.Select(dom, x), z3.Contains(sq.t, z3.Unit(x))), "union"))
            else:
                odom = st.dict_get(other)[0] if is_dictlike(other.ty) else ops.set_parts(st, other)
                st.set_set(r, named_set(st, et, lambda x: z3.Or(z3.Select(dom, x), z3.Select(odom, x)), "union"))
            yield st, r
            return
        if name == "difference" and len(args) == 1:
            other = args[0]
            r = st.new_ref(SET(et))
            if is_listlike(other.ty) or other.ty.kind == "seq":
                sq = ops.as_seq(st, other)
                if sq.t is None:
                    st.set_set(r, dom)
                else:
                    st.set_set(r, named_set(st, et, lambda x: z3.And(z3.Select(dom, x), z3.Not(z3.Contains(sq.t, z3.Unit(x)))), "diff"))
            else:
                odom = st.dict_get(other)[0] if is_dictlike(other.ty) else ops.set_parts(st, other)
                st.set_set(r, named_set(st, et, lambda x: z3.And(z3.Select(dom, x), z3.Not(z3.Select(odom, x))), "diff"))
            yield st, r
            return
        if name == "intersection":
            other = args[0]
            x = z3.Const("k!int%d" % fresh(INT).t.hash(), sort_of(et))
            if is_dictlike(other.ty):
                odom = st.dict_get(other)[0]
            else:
                odom = ops.set_parts(st, other)
            r = st.new_ref(SET(et))
            # the intersection as a named array with its defining equation (instantiated wherever an element of
            # either operand is mentioned), rather than a map combinator the quantifier engine cannot see through
            R = z3.Const("inter!%d" % fresh(INT).t.hash(), z3.ArraySort(sort_of(et), z3.BoolSort()))
            body = z3.Select(R, x) == z3.And(z3.Select(dom, x), z3.Select(odom, x))
            pats = []
            for cand in (z3.Select(R, x), z3.Select(dom, x), z3.Select(odom, x)):
                try:
                    z3.ForAll([x], body, patterns=[cand])
                    pats.append(cand)
                except z3.Z3Exception:
                    pass
            st.assume(z3.ForAll([x], body, patterns=pats) if pats else z3.ForAll([x], body))
            st.set_set(r, R)
            yield st, r
            return
        raise Unsupported("set.%s" % name)
    if k in ("str", "bytes"):
        if name == "decode" and k == "bytes":
            enc = args[0] if args else vstr("utf-8")
            errs = args[1] if len(args) > 1 else vstr("strict")
            if enc.ty.kind == "opt":
                for st1, isn in E.branch(st, enc.isnone):
                    if isn:
                        yield st1, Raised(Exc(TypeError, origin="decode(None) line %d" % line))
                    else:
                        yield from method(E, st1, recv, name, [enc.val] + list(args[1:]), kw, n)
                return
            strict = errs.t == z3.StringVal("strict")
            ok = ops.UF("decodable", z3.StringSort(), z3.StringSort(), z3.BoolSort())(recv.t, enc.t)
            known = ops.UF("known_codec", z3.StringSort(), z3.BoolSort())
            st.assume(known(z3.StringVal("utf-8")))
            st.assume(known(z3.StringVal("ascii")))
            res = V(STR, ops.UF("bytes_decode_e", z3.StringSort(), z3.StringSort(), z3.StringSort(), z3.StringSort())(recv.t, enc.t, errs.t))
            for st1, kn in E.branch(st, known(enc.t)):
                if not kn:
                    yield st1, Raised(Exc(LookupError, origin="unknown encoding, decode line %d" % line))
                    continue
                for st2, bad in E.branch(st1, z3.And(strict, z3.Not(ok))):
                    if bad:
                        yield st2, Raised(Exc(UnicodeDecodeError, origin="decode line %d" % line))
                    else:
                        yield st2, res
            return
        if name == "split" and k == "str" and len(args) == 1 and args[0].ty.kind == "str":
            # s.split(sep): a new list with count(s, sep) + 1 pieces (sep non-empty), none of which contains sep
            from .speceval import count_fn
            r = fresh(SEQ(STR), "split")
            st.assume(z3.Length(r.t) == count_fn()(recv.t, args[0].t) + 1)
            st.assume(count_fn()(recv.t, args[0].t) >= 0)
            yield st, E.alloc_list(st, r)
            return
        if name == "startswith" and k == "bytes":
            yield st, vbool(z3.PrefixOf(args[0].t, recv.t))
            return
        if name == "encode":
            # may fail: unknown codec (LookupError) or unencodable text (UnicodeEncodeError)
            yield st.fork(), Raised(Exc(None, origin="str.encode line %d" % line, is_exception=True))
        yield st, str_method(st, recv, name, args)
        return
    raise Unsupported("method %s on %s (line %d)" % (name, recv.ty, line))
