"""Symbolic state: local environment, heap (one SMT array per field / per
container element type), allocation counter, path condition."""
from __future__ import annotations

import z3

from .types import (Ty, V, INT, BOOL, STR, ANY, NONE, SEQ, sort_of, vint, vbool,
                    vnone, vopt, vtuple, fresh, parse_ty)
from . import spec as S


class Unsupported(Exception):
    """The code (or a contract) is outside the verified subset: undecided, never a verdict."""


class Exc:
    """An in-flight exception."""

    def __init__(self, cls=None, ref=None, origin="", is_exception=None):
        self.rid = None                   # identity of the exception object (opaque reference)
        self.cls = cls                    # real Python class, or None = unknown class
        self.ref = ref                    # V of the exception object when it has a schema
        self.origin = origin
        self.is_exception = is_exception  # for unknown class: decided membership in Exception

    def name(self):
        return self.cls.__name__ if self.cls else "*"

    def __repr__(self):
        return "Exc(%s from %s)" % (self.name(), self.origin)


class Raised:
    def __init__(self, exc: Exc):
        self.exc = exc


HEAP_AXIOMS = {}      # name of an initial heap array -> well-formedness axiom (R7)
ALLOC0 = z3.Int("alloc0")


def heap_axiom(key, arr):
    """Every reference stored in the *initial* heap is None or allocated (< alloc0)."""
    x = z3.Int("x!wf")
    rng = arr.sort().range()
    if key.startswith("f:") and rng == z3.IntSort() and _is_ref_key(key):
        return z3.ForAll([x], z3.Implies(z3.And(x > 0, x < ALLOC0), z3.And(arr[x] >= 0, arr[x] < ALLOC0)),
                         patterns=[arr[x]])
    if key.startswith("list:") and _is_ref_key(key):
        i = z3.Int("i!wf")
        return z3.ForAll([x, i], z3.Implies(z3.And(x > 0, x < ALLOC0, i >= 0, i < z3.Length(arr[x])),
                                            z3.And(arr[x][i] >= 0, arr[x][i] < ALLOC0)),
                         patterns=[arr[x][i]])
    if key.startswith("dval:") and _is_ref_key(key):
        k = z3.Const("k!wf", rng.domain())
        return z3.ForAll([x, k], z3.Implies(z3.And(x > 0, x < ALLOC0), z3.And(arr[x][k] >= 0, arr[x][k] < ALLOC0)),
                         patterns=[arr[x][k]])
    return None


def _is_ref_key(key):
    from .types import parse_ty
    try:
        if key.startswith("f:"):
            cls, fname = key[2:].split(".", 1)
            if fname.endswith("?") or fname.endswith("!") or "#" in fname:
                return False
            fty, _ = S.find_field(cls, fname)
            return fty is not None and fty.is_ref
        if key.startswith("list:"):
            return parse_ty(key[5:]).is_ref
        if key.startswith("dval:"):
            return parse_ty(key[5:].split("~")[1]).is_ref
    except Exception:
        return False
    return False


class State:
    def __init__(self):
        self.env: dict[str, V] = {}
        self.heap: dict[str, z3.ExprRef] = {}
        self.alloc = z3.Int("alloc0")
        self.pc: list = []
        self.cur_exc = None
        self.trace: list[str] = []        # branch decisions, for reports
        self.ghost: dict[str, V] = {}
        self.frames: list = []            # enclosing closure environments

    def fork(self):
        s = State.__new__(State)
        s.env = dict(self.env)
        s.heap = dict(self.heap)
        s.alloc = self.alloc
        s.pc = list(self.pc)
        s.cur_exc = self.cur_exc
        s.trace = list(self.trace)
        s.ghost = dict(self.ghost)
        s.frames = list(self.frames)
        return s

    def assume(self, cond):
        if z3.is_true(cond):
            return
        self.pc.append(cond)

    # ---- heap arrays ------------------------------------------------------
    def arr(self, key, sort):
        a = self.heap.get(key)
        if a is None:
            a = z3.Const("H0_" + key, z3.ArraySort(z3.IntSort(), sort))
            self.heap[key] = a
            if ("H0_" + key) not in HEAP_AXIOMS:
                HEAP_AXIOMS["H0_" + key] = heap_axiom(key, a)
        return a

    # fields
    def _fkey(self, owner, fname, suffix=""):
        return "f:%s.%s%s" % (owner, fname, suffix)

    def get_field(self, obj: V, fname: str) -> V:
        cls = obj.ty.name
        fty, owner = S.find_field(cls, fname)
        if fty is None:
            raise Unsupported("no schema for field %s.%s" % (cls, fname))
        return self._read(self._fkey(owner, fname), fty, obj.t)

    def set_field(self, obj: V, fname: str, val: V):
        cls = obj.ty.name
        fty, owner = S.find_field(cls, fname)
        if fty is None:
            raise Unsupported("no schema for field %s.%s" % (cls, fname))
        self._write(self._fkey(owner, fname), fty, obj.t, val)

    def _read(self, key, ty: Ty, idx) -> V:
        if ty.kind == "opt":
            n = z3.Select(self.arr(key + "?", z3.BoolSort()), idx)
            v = self._read(key + "!", ty.args[0], idx)
            return vopt(ty.args[0], n, v)
        if ty.kind == "tuple":
            return vtuple([self._read("%s#%d" % (key, i), a, idx) for i, a in enumerate(ty.args)])
        if ty.kind == "none":
            return vnone()
        return V(ty, z3.simplify(z3.Select(self.arr(key, sort_of(ty)), idx)))

    def _write(self, key, ty: Ty, idx, val: V):
        val = coerce(val, ty)
        if ty.kind == "opt":
            self.heap[key + "?"] = z3.Store(self.arr(key + "?", z3.BoolSort()), idx, val.isnone)
            self._write(key + "!", ty.args[0], idx, val.val)
            return
        if ty.kind == "tuple":
            for i, a in enumerate(ty.args):
                self._write("%s#%d" % (key, i), a, idx, val.items[i])
            return
        if ty.kind == "none":
            return
        self.heap[key] = z3.Store(self.arr(key, sort_of(ty)), idx, val.t)

    def havoc_loc(self, key, ty: Ty, idx):
        """Give location (key, idx) a fresh unknown value."""
        self._write(key, ty, idx, fresh(ty, "hv"))

    # list contents
    def list_key(self, elem: Ty):
        return "list:%s" % elem

    def list_get(self, lst: V):
        elem = elem_ty(lst.ty)
        return V(SEQ(elem), z3.simplify(z3.Select(self.arr(self.list_key(elem), z3.SeqSort(sort_of(elem))), lst.t)))

    def list_set(self, lst: V, seqterm):
        elem = elem_ty(lst.ty)
        k = self.list_key(elem)
        self.heap[k] = z3.Store(self.arr(k, z3.SeqSort(sort_of(elem))), lst.t, seqterm)

    # dict contents: domain + values
    def dict_keys(self, d: V):
        kt, vt = dict_tys(d.ty)
        kk = "ddom:%s~%s" % (kt, vt)
        vk = "dval:%s~%s" % (kt, vt)
        return kk, vk, kt, vt

    def dict_get(self, d: V):
        kk, vk, kt, vt = self.dict_keys(d)
        dom = z3.simplify(z3.Select(self.arr(kk, z3.ArraySort(sort_of(kt), z3.BoolSort())), d.t))
        val = z3.simplify(z3.Select(self.arr(vk, z3.ArraySort(sort_of(kt), sort_of(vt))), d.t))
        return dom, val

    def dict_set(self, d: V, dom, val):
        kk, vk, kt, vt = self.dict_keys(d)
        self.heap[kk] = z3.Store(self.arr(kk, z3.ArraySort(sort_of(kt), z3.BoolSort())), d.t, dom)
        self.heap[vk] = z3.Store(self.arr(vk, z3.ArraySort(sort_of(kt), sort_of(vt))), d.t, val)

    def set_get(self, s: V):
        et = s.ty.args[0]
        k = "set:%s" % et
        return z3.Select(self.arr(k, z3.ArraySort(sort_of(et), z3.BoolSort())), s.t)

    def set_set(self, s: V, dom):
        et = s.ty.args[0]
        k = "set:%s" % et
        self.heap[k] = z3.Store(self.arr(k, z3.ArraySort(sort_of(et), z3.BoolSort())), s.t, dom)

    # allocation
    def new_ref(self, ty: Ty) -> V:
        r = self.alloc
        self.alloc = self.alloc + 1
        return V(ty, z3.simplify(r))


def elem_ty(ty: Ty) -> Ty:
    if ty.kind in ("list", "seq", "set"):
        return ty.args[0]
    if ty.kind == "obj":
        cs = S.CLASSES.get(ty.name)
        if cs and cs.listlike:
            return cs.listlike
    raise Unsupported("not a list type: %s" % ty)


def dict_tys(ty: Ty):
    if ty.kind == "dict":
        return ty.args
    if ty.kind == "obj":
        cs = S.CLASSES.get(ty.name)
        if cs and cs.dictlike:
            return cs.dictlike
    raise Unsupported("not a dict type: %s" % ty)


def is_listlike(ty: Ty):
    if ty.kind == "list":
        return True
    if ty.kind == "obj":
        cs = S.CLASSES.get(ty.name)
        return bool(cs and cs.listlike)
    return False


def is_dictlike(ty: Ty):
    if ty.kind == "dict":
        return True
    if ty.kind == "obj":
        cs = S.CLASSES.get(ty.name)
        return bool(cs and cs.dictlike)
    return False


_box_funs = {}
BOX_AXIOMS = {}       # facts about boxed scalars: non-null, truthiness preserved (R6)


def _box_axioms(key, f, ty):
    tr = z3.Function("truthy_any", z3.IntSort(), z3.BoolSort())
    v = z3.Const("v!box", sort_of(ty))
    if ty.kind == "bool":
        t = v
    elif ty.kind == "int":
        t = v != 0
    elif ty.kind in ("str", "bytes", "seq"):
        t = z3.Length(v) > 0
    elif ty.kind == "real":
        t = v != 0
    else:
        return
    inv = z3.Function("unbox_" + ty.kind, z3.IntSort(), sort_of(ty))
    BOX_AXIOMS[key] = z3.ForAll([v], z3.And(f(v) > 0, tr(f(v)) == t, inv(f(v)) == v), patterns=[f(v)])



def box(v: V) -> V:
    """Inject a scalar into the opaque 'Any' universe (injective, uninterpreted)."""
    k = v.ty.kind
    if v.ty.is_ref:
        return V(ANY, v.t)
    if k == "none":
        return V(ANY, z3.IntVal(0))
    if k in ("int", "bool", "str", "real", "bytes", "seq"):
        key = str(v.ty)
        f = _box_funs.get(key)
        if f is None:
            f = z3.Function("box_" + key.replace("[", "_").replace("]", "").replace(",", "_"),
                            sort_of(v.ty), z3.IntSort())
            _box_funs[key] = f
            _box_axioms(key, f, v.ty)
        return V(ANY, f(v.t))
    if k == "opt":
        inner = box(v.val)
        return V(ANY, z3.If(v.isnone, z3.IntVal(0), inner.t))
    if k == "tuple":
        f = _box_funs.get("tuple%d" % len(v.items))
        if f is None:
            n = len(v.items)
            f = z3.Function("box_tuple%d" % n, *([z3.IntSort()] * (n + 1)))
            _box_funs["tuple%d" % n] = f
            xs = [z3.Int("x%d!bt" % i) for i in range(n)]
            projs = [z3.Function("proj%d_tuple%d" % (i, n), z3.IntSort(), z3.IntSort()) for i in range(n)]
            if n:
                BOX_AXIOMS["tuple%d" % n] = z3.ForAll(xs, z3.And([f(*xs) > 0] + [projs[i](f(*xs)) == xs[i] for i in range(n)]),
                                                      patterns=[f(*xs)])
        return V(ANY, f(*[box(i).t for i in v.items]))
    if k == "star":
        return V(ANY, z3.Int("box_star_" + str(v.py)))
    if k in ("static", "class"):
        return V(ANY, static_ref(v.py))
    if k == "closure":
        return V(ANY, static_ref("closure:%s:%d" % (getattr(v, "_key", "?"), id(v.py[0]))))
    raise Unsupported("cannot box %s" % v.ty)


_static_ids = {}


def static_ref(qual):
    """a distinct positive constant for every statically resolved function / class"""
    if qual not in _static_ids:
        _static_ids[qual] = len(_static_ids) + 1
    return z3.IntVal(-1000 - _static_ids[qual])


def coerce(v: V, ty: Ty) -> V:
    """Adapt a value to the static type of the location it is stored in."""
    if v.ty == ty:
        return v
    if ty.kind == "any":
        return box(v)
    if ty.kind == "writer" and v.ty.kind == "bound" and v.py[1] == "append":
        return V(ty, v.py[0].t)      # `lst.append` stored as a writer bound to lst
    if ty.is_ref:
        if v.ty.kind == "none":
            return V(ty, z3.IntVal(0))
        if v.ty.is_ref:
            return V(ty, v.t)
        raise Unsupported("cannot store %s into %s" % (v.ty, ty))
    if ty.kind == "opt":
        if v.ty.kind == "none":
            return vopt(ty.args[0], z3.BoolVal(True), fresh(ty.args[0], "nil"))
        if v.ty.kind == "opt":
            return vopt(ty.args[0], v.isnone, coerce(v.val, ty.args[0]))
        return vopt(ty.args[0], z3.BoolVal(False), coerce(v, ty.args[0]))
    if ty.kind == "real" and v.ty.kind == "int":
        return V(ty, z3.ToReal(v.t))
    if ty.kind == "int" and v.ty.kind == "bool":
        return V(ty, z3.If(v.t, 1, 0))
    if ty.kind == "tuple" and v.ty.kind == "tuple" and len(ty.args) == len(v.items):
        return vtuple([coerce(i, a) for i, a in zip(v.items, ty.args)])
    if ty.kind == "seq" and v.ty.kind == "seq":
        if v.ty.args[0].kind == "none" or v.ty == ty:
            return V(ty, v.t if v.t is not None else z3.Empty(sort_of(ty)))
        if ty.args[0].kind == "any":
            raise Unsupported("cannot box a whole sequence %s into %s" % (v.ty, ty))
    if ty.kind == v.ty.kind and ty.kind in ("str", "bytes", "int", "bool", "real"):
        return v
    if ty.kind == "none" and v.ty.kind == "none":
        return v
    raise Unsupported("type mismatch: have %s, need %s" % (v.ty, ty))
