"""Registry of sidecar class schemas, contracts and callable specs."""
from __future__ import annotations

from dataclasses import dataclass, field
from typing import Optional

from .types import parse_ty, Ty


@dataclass
class ClassSchema:
    name: str                       # short class name used in types
    qual: str                       # "mako.runtime:Context"
    fields: dict                    # field name -> Ty
    bases: list = field(default_factory=list)
    properties: dict = field(default_factory=dict)   # property name -> contract key
    listlike: Optional[Ty] = None   # for list subclasses: element type
    dictlike: Optional[tuple] = None
    invariant: list = field(default_factory=list)    # spec strings over `self`
    exception: bool = False


@dataclass
class Clause:
    label: str
    expr: str
    klass: str = "P"


@dataclass
class Contract:
    key: str
    params: dict = field(default_factory=dict)       # name -> Ty  (ordered; includes self)
    returns: Optional[Ty] = None
    requires: list = field(default_factory=list)     # [Clause]
    ensures: list = field(default_factory=list)      # [Clause]  normal exit
    ensures_exc: list = field(default_factory=list)  # [Clause]  every exceptional exit
    raises: dict = field(default_factory=dict)       # exc class name or "*" -> {"when":str|None,"ensures":[Clause]}
    modifies: list = field(default_factory=list)     # location expressions
    loops: dict = field(default_factory=dict)        # ordinal -> {"inv":[Clause],"modifies":[..],"variant":str}
    captures: dict = field(default_factory=dict)     # closure variables -> Ty
    at_yield: list = field(default_factory=list)
    props: list = field(default_factory=list)
    assumed: bool = False                            # trusted (stdlib / third party); not verified
    note: str = ""
    locals: dict = field(default_factory=dict)       # type hints for locals the engine cannot infer
    concretize: Optional[str] = None                 # name of a custom concretizer
    native_skip: bool = False


CLASSES: dict[str, ClassSchema] = {}
CONTRACTS: dict[str, Contract] = {}
FUNSPECS: dict[str, Contract] = {}
GLOBALS: dict[str, tuple] = {}      # "mako.runtime:UNDEFINED" -> (Ty, kind)
GHOSTS: dict[str, Ty] = {}          # ghost variables (G.name in clauses) -> type


def GHOST(name, ty, note=""):
    GHOSTS[name] = parse_ty(ty)


def _clauses(xs, default_klass="P"):
    out = []
    for i, x in enumerate(xs or []):
        if isinstance(x, Clause):
            out.append(x)
        elif isinstance(x, str):
            out.append(Clause("c%d" % i, x, default_klass))
        elif len(x) == 2:
            out.append(Clause(x[0], x[1], default_klass))
        else:
            out.append(Clause(x[0], x[1], x[2]))
    return out


def CLASS(qual, fields=None, bases=(), properties=None, listlike=None,
          dictlike=None, invariant=(), exception=False, name=None):
    name = name or qual.split(":")[1]
    cs = ClassSchema(
        name=name, qual=qual,
        fields={k: parse_ty(v) for k, v in (fields or {}).items()},
        bases=list(bases), properties=dict(properties or {}),
        listlike=parse_ty(listlike) if listlike else None,
        dictlike=tuple(parse_ty(x) for x in dictlike) if dictlike else None,
        invariant=list(invariant), exception=exception)
    CLASSES[name] = cs
    return cs


def _mk(key, params=None, returns=None, requires=(), ensures=(), ensures_exc=(),
        raises=None, modifies=(), loops=None, captures=None, at_yield=(),
        props=(), assumed=False, note="", locals=None, concretize=None,
        native_skip=False):
    rz = {}
    for k, v in (raises or {}).items():
        v = v or {}
        rz[k] = {"when": v.get("when"), "ensures": _clauses(v.get("ensures"))}
    lp = {}
    for k, v in (loops or {}).items():
        lp[k] = {"inv": _clauses(v.get("inv"), "L"), "modifies": list(v.get("modifies", ())),
                 "variant": v.get("variant"), "havoc": list(v.get("havoc", ()))}
    defaults = {}
    pclean = {}
    for k, v in (params or {}).items():
        if isinstance(v, str) and "=" in v:
            v, d = v.split("=", 1)
            defaults[k] = d.strip()
        pclean[k] = v
    params = pclean
    con_defaults = defaults
    return _with_defaults(Contract(
        key=key, params={k: parse_ty(v) for k, v in (params or {}).items()},
        returns=parse_ty(returns) if returns else None,
        requires=_clauses(requires), ensures=_clauses(ensures),
        ensures_exc=_clauses(ensures_exc), raises=rz, modifies=list(modifies),
        loops=lp, captures={k: parse_ty(v) for k, v in (captures or {}).items()},
        at_yield=_clauses(at_yield), props=list(props), assumed=assumed, note=note,
        locals={k: parse_ty(v) for k, v in (locals or {}).items()},
        concretize=concretize, native_skip=native_skip), con_defaults)


def _with_defaults(c, d):
    c.defaults = d
    return c


def C(key, **kw):
    c = _mk(key, **kw)
    CONTRACTS[key] = c
    return c


VIEWS = {}
CURRENT_CALLER = None      # key of the function being verified (contracts stated for one caller: 'callee@caller')
FOLDS = {}


def FOLD(name, elem, acc, step, note=""):
    """a spec function defined by recursion over a prefix of a sequence:
         name(s, 0, a0) = a0;   name(s, i+1, a0) = step(acc=name(s, i, a0), e=s[i])
    `step` is a spec expression over `acc` and `e`.  The loop rule supplies the unfolding instances for the
    sequence being iterated (R6), exactly as for in_prefix."""
    FOLDS[name] = {"elem": parse_ty(elem), "acc": parse_ty(acc), "step": step, "note": note}


def ASSUME(key, view=False, **kw):
    """assumed contract; with view=True it is the contract *callers* see for a function that also has a
    verified contract of its own (reported among the assumptions wherever it is used)"""
    kw["assumed"] = True
    if view:
        c = _mk(key, **kw)
        VIEWS[key] = c
        return c
    return C(key, **kw)


def FUNSPEC(name, **kw):
    c = _mk("fun:" + name, **kw)
    FUNSPECS[name] = c
    return c


def class_by_qual(q: str):
    """class schema registered for a qualified name (schemas may be registered under a short alias)"""
    tail = q.split(":")[1] if ":" in q else q
    cs = CLASSES.get(tail)
    if cs is not None and cs.qual == q:
        return cs
    for cs in CLASSES.values():
        if cs.qual == q:
            return cs
    return None


def find_field(cls_name: str, fname: str):
    """(Ty, owner class) of a field, searching bases."""
    seen = set()
    todo = [cls_name]
    while todo:
        c = todo.pop(0)
        if c in seen or c not in CLASSES:
            continue
        seen.add(c)
        cs = CLASSES[c]
        if fname in cs.fields:
            return cs.fields[fname], c
        todo.extend(cs.bases)
    return None, None


def find_property(cls_name: str, pname: str):
    seen = set()
    todo = [cls_name]
    while todo:
        c = todo.pop(0)
        if c in seen or c not in CLASSES:
            continue
        seen.add(c)
        cs = CLASSES[c]
        if pname in cs.properties:
            return cs.properties[pname]
        todo.extend(cs.bases)
    return None


def find_method(cls_name: str, mname: str):
    """Contract key of a method, searching the class then its bases."""
    seen = set()
    todo = [cls_name]
    while todo:
        c = todo.pop(0)
        if c in seen or c not in CLASSES:
            continue
        seen.add(c)
        cs = CLASSES[c]
        key = "%s.%s" % (cs.qual, mname)
        if key in CONTRACTS or (CURRENT_CALLER and key + "@" + CURRENT_CALLER in CONTRACTS):
            return key
        todo.extend(cs.bases)
    return None


def is_subclass(c: str, base: str) -> bool:
    if c == base:
        return True
    cs = CLASSES.get(c)
    return bool(cs) and any(is_subclass(b, base) for b in cs.bases)
