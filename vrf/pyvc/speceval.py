"""Evaluator for contract expressions (pure, two-state, no forking).

Contract clauses are Python expressions over the parameters, `result`,
`old(...)`, quantifiers and registered spec functions.  List and dict
references are read through the heap of the state the sub-expression is
evaluated in, so `self.stack == old(self.stack) + [x]` compares contents.
"""
from __future__ import annotations

import ast

import z3

from .types import (Ty, V, INT, BOOL, REAL, STR, BYTES, ANY, NONE, SEQ, LIST, sort_of, vint,
                    vbool, vstr, vnone, vtuple, vopt, vreal, fresh, parse_ty)
from .state import (State, Unsupported, box, coerce, is_listlike, is_dictlike,
                    elem_ty, dict_tys)
from . import ops
from . import spec as S

SPECFUNS = {}       # name -> fn(se, args:list[V], kwargs) -> V
GLOBAL_AXIOMS = {}  # name -> closed formula true in every state (definitions of spec functions, R6)


def specfun(name):
    def deco(f):
        SPECFUNS[name] = f
        return f
    return deco


_parse_cache = {}


def parse_expr(src: str):
    n = _parse_cache.get(src)
    if n is None:
        n = ast.parse(src.strip(), mode="eval").body
        _parse_cache[src] = n
    return n


class SpecEval:
    def __init__(self, st: State, env: dict, old_st: State = None, old_env: dict = None,
                 engine=None):
        self.st = st
        self.in_quant = 0
        self.env = env
        self.old_st = old_st
        self.old_env = old_env if old_env is not None else env
        self.engine = engine
        self.pre_st = None       # state at loop entry, for pre(...)
        self.pre_env = None

    def in_old(self):
        if self.old_st is None:
            raise Unsupported("old() used where there is no pre-state")
        return SpecEval(self.old_st, self.old_env, self.old_st, self.old_env, self.engine)

    def bool_of(self, src: str):
        try:
            v = self.ev(parse_expr(src))
            return ops.truthy(self.st, v)
        except Unsupported as e:
            if "[in clause" in str(e):
                raise
            raise Unsupported("%s [in clause: %s]" % (e, src[:160]))

    def value_of(self, src: str) -> V:
        return self.ev(parse_expr(src))

    # ------------------------------------------------------------------
    def ev(self, n) -> V:
        m = getattr(self, "ev_" + type(n).__name__, None)
        if m is None:
            raise Unsupported("spec expression %s" % type(n).__name__)
        return m(n)

    def ev_Constant(self, n):
        c = n.value
        if c is None:
            return vnone()
        if isinstance(c, bool):
            return vbool(c)
        if isinstance(c, int):
            return vint(c)
        if isinstance(c, float):
            return vreal(c)
        if isinstance(c, str):
            return vstr(c)
        if isinstance(c, bytes):
            return V(BYTES, z3.StringVal(c.decode("latin-1")))
        raise Unsupported("constant %r" % (c,))

    def ev_Name(self, n):
        if n.id in self.env:
            return self.env[n.id]
        if n.id in self.st.ghost:
            return self.st.ghost[n.id]
        if n.id == "alloc":
            return V(INT, self.st.alloc)
        if n.id in ("True", "False"):
            return vbool(n.id == "True")
        if self.engine is not None:
            g = self.engine.global_value(n.id)
            if g is not None:
                return g
        raise Unsupported("unknown name %r in contract" % n.id)

    def ev_Attribute(self, n):
        if isinstance(n.value, ast.Name) and n.value.id == "G":
            if n.attr not in self.st.ghost:
                raise Unsupported("ghost variable G.%s is not declared/initialised" % n.attr)
            return self.st.ghost[n.attr]
        base = self.ev(n.value)
        if base.ty.kind == "obj":
            v = self.st.get_field(base, n.attr)
            if getattr(self, "assume_wf", False) and v.ty.is_ref and v.t is not None and not self.in_quant and not z3.is_int_value(v.t):
                # entry heap is closed under allocation (R7): fields named by the precondition are None or allocated
                self.st.assume(z3.And(v.t >= 0, v.t < self.st.alloc))
            return v
        if base.ty.kind == "any" and base.t is not None:
            # an attribute of a dynamically typed value: some value, determined by the object and the attribute name
            return V(ANY, ops.UF("getattr", z3.IntSort(), z3.StringSort(), z3.IntSort())(base.t, z3.StringVal(n.attr)))
        raise Unsupported("attribute %s of %s in contract" % (n.attr, base.ty))

    def ev_Tuple(self, n):
        return vtuple([self.ev(e) for e in n.elts])

    def ev_List(self, n):
        items = [unopt(self.ev(e)) for e in n.elts]
        if not items:
            return V(SEQ(NONE), None)
        et = items[0].ty
        if any(i.ty != et for i in items):
            et = ANY if any(i.ty.is_ref for i in items) else et
        items = [coerce(i, et) for i in items]
        t = z3.Unit(items[0].t)
        for i in items[1:]:
            t = z3.Concat(t, z3.Unit(i.t))
        return V(SEQ(et), t)

    def ev_UnaryOp(self, n):
        v = self.ev(n.operand)
        if isinstance(n.op, ast.Not):
            return vbool(z3.Not(ops.truthy(self.st, v)))
        if isinstance(n.op, ast.USub):
            return V(v.ty, -v.t)
        raise Unsupported("unary op")

    def ev_BoolOp(self, n):
        vals = [ops.truthy(self.st, self.ev(v)) for v in n.values]
        return vbool(z3.And(vals) if isinstance(n.op, ast.And) else z3.Or(vals))

    def ev_IfExp(self, n):
        c = ops.truthy(self.st, self.ev(n.test))
        a, b = self.ev(n.body), self.ev(n.orelse)
        return ite(self.st, c, a, b)

    _binops = {ast.Add: "+", ast.Sub: "-", ast.Mult: "*", ast.FloorDiv: "//",
               ast.Mod: "%", ast.Div: "/"}

    def ev_BinOp(self, n):
        a, b = self.deref(self.ev(n.left)), self.deref(self.ev(n.right))
        op = self._binops.get(type(n.op))
        if op is None:
            raise Unsupported("binop in contract")
        return ops.binop(self.st, op, a, b, spec=True)

    _cmpops = {ast.Eq: "==", ast.NotEq: "!=", ast.Lt: "<", ast.LtE: "<=", ast.Gt: ">",
               ast.GtE: ">=", ast.Is: "is", ast.IsNot: "is not", ast.In: "in",
               ast.NotIn: "not in"}

    def ev_Compare(self, n):
        left = self.ev(n.left)
        conj = []
        for op, right in zip(n.ops, n.comparators):
            r = self.ev(right)
            conj.append(self.cmp(self._cmpops[type(op)], left, r))
            left = r
        return vbool(z3.And(conj) if len(conj) > 1 else conj[0])

    def cmp(self, op, a, b):
        # values coming from different states (old vs new) are compared by content,
        # each dereferenced in the state it was produced in: handled by Deref wrapper
        if op in ("is", "is not") and (a.ty.kind == "none" or b.ty.kind == "none"):
            # `x is None` is about the reference itself (a container reference may be None), not about its content
            r = ops.is_none(b if a.ty.kind == "none" else a)
            return r if op == "is" else z3.Not(r)
        a, b = self.deref(a), self.deref(b)
        return ops.compare(self.st, op, a, b, spec=True)

    def deref(self, v: V) -> V:
        """Mutable containers become pure values in the *current evaluation state*."""
        st = getattr(v, "_st", None) or self.st
        if is_listlike(v.ty) and v.ty.kind != "seq":
            return st.list_get(v)
        if is_dictlike(v.ty):
            dom, val = st.dict_get(v)
            kt, vt = dict_tys(v.ty)
            return ops.mk_dictv(kt, vt, dom, val)
        if v.ty.kind == "set":
            return ops.mk_setv(v.ty.args[0], st.set_get(v))
        return v

    def seq(self, v: V) -> V:
        return ops.as_seq(self.st, self.deref(v))

    def ev_Subscript(self, n):
        base = self.ev(n.value)
        sl = n.slice
        if base.ty.kind == "opt":
            base = base.val
        if base.ty.kind == "tuple":
            if isinstance(sl, ast.Constant) and isinstance(sl.value, int):
                return base.items[sl.value]
            raise Unsupported("tuple index in contract")
        if is_dictlike(base.ty) or base.ty.kind == "dictv":
            base = self.deref(base)
            (dom, val), kt = ops.dict_parts(self.st, base)
            k = coerce(self.ev(sl), kt)
            vt = dict_tys(base.ty)[1] if base.ty.kind != "dictv" else base.ty.args[1]
            return V(vt, z3.Select(val, k.t))
        if base.ty.kind in ("str", "bytes"):
            t = base.t
            if isinstance(sl, ast.Slice):
                lo = self.ev(sl.lower).t if sl.lower else None
                hi = self.ev(sl.upper).t if sl.upper else None
                return V(base.ty, ops.slice_seq(t, lo, hi))
            i = self.ev(sl).t
            i = ops.norm_index(z3.Length(t), i)
            return V(base.ty, z3.SubString(t, i, 1))
        s = self.seq(base)
        if s.t is None:
            raise Unsupported("indexing an empty literal")
        if isinstance(sl, ast.Slice):
            lo = self.ev(sl.lower).t if sl.lower else None
            hi = self.ev(sl.upper).t if sl.upper else None
            return V(s.ty, ops.slice_seq(s.t, lo, hi))
        # contract language: indices are mathematical (no negative wrap-around)
        i = self.ev(sl).t
        return V(s.ty.args[0], s.t[i])

    def ev_Call(self, n):
        if isinstance(n.func, ast.Name):
            name = n.func.id
            if name == "old":
                o = self.in_old()
                v = o.ev(n.args[0])
                if self._container(v):
                    v2 = V(v.ty, v.t, v.items, v.isnone, v.val, v.py)
                    v2._st = o.st          # read its content in the pre-state
                    return v2
                return v
            if name == "pre":
                if self.pre_st is None:
                    raise Unsupported("pre() used outside a loop invariant")
                o = SpecEval(self.pre_st, self.pre_env, self.old_st, self.old_env, self.engine)
                v = o.ev(n.args[0])
                if self._container(v):
                    v2 = V(v.ty, v.t, v.items, v.isnone, v.val, v.py)
                    v2._st = o.st
                    return v2
                return v
            if name in ("forall", "exists"):
                return self.quant(name, n)
            if name in S.FOLDS:
                fd = S.FOLDS[name]
                args = [self.ev(a) for a in n.args]
                sq = self.seq(args[0])
                f = fold_fn(name, fd)
                # base case of the recursion, for every sequence: name(s, 0, a) = a
                s0, a0 = z3.Const("s!fold0", z3.SeqSort(sort_of(fd["elem"]))), z3.Const("a!fold0", sort_of(fd["acc"]))
                GLOBAL_AXIOMS["fold0_" + name] = z3.ForAll([s0, a0], f(s0, z3.IntVal(0), a0) == a0, patterns=[f(s0, z3.IntVal(0), a0)])
                st_ = ops.seq_term(sq, fd["elem"]) if sq.t is None else sq.t
                return V(fd["acc"], f(st_, args[1].t, coerce(unopt(args[2]), fd["acc"]).t))
            if name in SPECFUNS:
                args = [self.ev(a) for a in n.args]
                kw = {k.arg: self.ev(k.value) for k in n.keywords}
                return SPECFUNS[name](self, args, kw)
            if name == "len":
                v = self.ev(n.args[0])
                if v.ty.kind == "opt":
                    v = v.val
                if v.ty.kind in ("str", "bytes"):
                    return V(INT, z3.Length(v.t))
                if v.ty.kind == "tuple":
                    return vint(len(v.items))
                if is_dictlike(v.ty) or v.ty.kind == "dictv":
                    return V(INT, ops.card(ops.dict_parts(getattr(v, "_st", None) or self.st, v)[0][0]))
                if v.ty.kind in ("set", "setv"):
                    return V(INT, ops.card(ops.set_parts(getattr(v, "_st", None) or self.st, v)))
                s = self.seq(v)
                return V(INT, z3.IntVal(0) if s.t is None else z3.Length(s.t))
            raise Unsupported("spec function %r" % name)
        if isinstance(n.func, ast.Attribute):
            recv = self.ev(n.func.value)
            args = [self.ev(a) for a in n.args]
            return self.method(recv, n.func.attr, args)
        raise Unsupported("call form in contract")

    def _container(self, v):
        return (is_listlike(v.ty) and v.ty.kind != "seq") or is_dictlike(v.ty) or v.ty.kind == "set"

    def method(self, recv: V, name: str, args):
        k = recv.ty.kind
        if k == "str" or (k == "bytes" and name in ("startswith", "endswith")):
            return str_method(self.st, recv, name, args)
        if (is_dictlike(recv.ty) or k == "dictv") and name == "get":
            recv = self.deref(recv)
            k = recv.ty.kind
            (dom, val), kt = ops.dict_parts(self.st, recv)
            vt = dict_tys(recv.ty)[1] if k != "dictv" else recv.ty.args[1]
            key = coerce(args[0], kt)
            dflt = coerce(args[1], vt) if len(args) > 1 else coerce(vnone(), vt)
            return V(vt, z3.If(z3.Select(dom, key.t), z3.Select(val, key.t), dflt.t))
        raise Unsupported("method %s on %s in contract" % (name, recv.ty))

    def quant(self, which, n):
        lam = n.args[0]
        if not isinstance(lam, ast.Lambda):
            raise Unsupported("quantifier needs a lambda")
        names = [a.arg for a in lam.args.args]
        kw = {k.arg: k.value for k in n.keywords}
        tys = [INT] * len(names)
        if "ty" in kw:
            tys = [parse_ty(kw["ty"].value)] * len(names)
        vars_ = [z3.Const("%s!q%d" % (nm, id(n) % 100000), sort_of(t)) for nm, t in zip(names, tys)]
        env2 = dict(self.env)
        for nm, t, v in zip(names, tys, vars_):
            env2[nm] = V(t, v)
        inner = SpecEval(self.st, env2, self.old_st, dict(self.old_env, **{nm: env2[nm] for nm in names}), self.engine)
        inner.pre_st = self.pre_st
        inner.pre_env = dict(self.pre_env, **{nm: env2[nm] for nm in names}) if self.pre_env is not None else None
        body = ops.truthy(self.st, inner.ev(lam.body))
        guards = []
        if len(n.args) >= 3:
            lo, hi = self.ev(n.args[1]).t, self.ev(n.args[2]).t
            for v in vars_:
                guards += [lo <= v, v < hi]
        if which == "forall":
            return vbool(z3.ForAll(vars_, z3.Implies(z3.And(guards), body) if guards else body))
        return vbool(z3.Exists(vars_, z3.And(guards + [body])))


def ite(st, c, a: V, b: V) -> V:
    if a.ty.kind == "none" and b.ty.kind == "none":
        return a
    if a.ty.kind == "tuple" and b.ty.kind == "tuple" and len(a.items) == len(b.items):
        return vtuple([ite(st, c, x, y) for x, y in zip(a.items, b.items)])
    if a.ty.kind == "none" or b.ty.kind == "none" or a.ty.kind == "opt" or b.ty.kind == "opt":
        other = b if a.ty.kind == "none" else a
        if other.ty.is_ref:
            a2, b2 = coerce(a, other.ty), coerce(b, other.ty)
            return V(other.ty, z3.If(c, a2.t, b2.t))
        inner = other.ty.args[0] if other.ty.kind == "opt" else other.ty
        a2, b2 = coerce(a, Ty("opt", (inner,))), coerce(b, Ty("opt", (inner,)))
        return vopt(inner, z3.If(c, a2.isnone, b2.isnone), ite(st, c, a2.val, b2.val))
    if a.ty != b.ty:
        if a.ty.is_ref and b.ty.is_ref:
            return V(ANY, z3.If(c, a.t, b.t))
        if a.ty.kind in ("int", "bool", "real") and b.ty.kind in ("int", "bool", "real"):
            x, y = ops.num_pair(a, b)
            return V(REAL if "real" in (a.ty.kind, b.ty.kind) else INT, z3.If(c, x, y))
        if a.ty.kind == "seq" and a.t is None:
            a = V(b.ty, z3.Empty(sort_of(b.ty)))
        elif b.ty.kind == "seq" and b.t is None:
            b = V(a.ty, z3.Empty(sort_of(a.ty)))
        else:
            raise Unsupported("if-expression branches of types %s / %s" % (a.ty, b.ty))
    if a.ty.kind == "dictv":
        return ops.mk_dictv(a.ty.args[0], a.ty.args[1], z3.If(c, a.items[0], b.items[0]),
                            z3.If(c, a.items[1], b.items[1]))
    return V(a.ty, z3.If(c, a.t, b.t))


# ---------------------------------------------------------------------------
# string methods (shared with the code executor)

def unopt(v: V) -> V:
    return v.val if v.ty.kind == "opt" else v


def str_method(st, recv: V, name: str, args) -> V:
    t = recv.t
    args = [unopt(a) for a in args]
    if name == "startswith":
        return vbool(z3.PrefixOf(args[0].t, t))
    if name == "endswith":
        return vbool(z3.SuffixOf(args[0].t, t))
    if name == "find":
        return V(INT, z3.IndexOf(t, args[0].t, args[1].t if len(args) > 1 else z3.IntVal(0)))
    if name == "rfind":
        return V(INT, rfind(t, args[0].t))
    if name == "count":
        return V(INT, count_fn()(t, args[0].t))
    if name == "replace":
        return V(STR, z3.Replace(t, args[0].t, args[1].t)) if False else V(STR, ops.UF("str_replace_all", z3.StringSort(), z3.StringSort(), z3.StringSort(), z3.StringSort())(t, args[0].t, args[1].t))
    if name in ("strip", "lstrip", "rstrip"):
        chars = args[0].t if args else z3.StringVal("<ws>")
        return V(STR, ops.UF("str_" + name, z3.StringSort(), z3.StringSort(), z3.StringSort())(t, chars))
    if name in ("lower", "upper"):
        return V(STR, ops.UF("str_" + name, z3.StringSort(), z3.StringSort())(t))
    if name == "join" and args[0].ty.kind in ("set", "setv", "dictkeys"):
        return V(STR, ops.UF("str_join_set", z3.StringSort(), z3.IntSort(), z3.StringSort())(t, args[0].t if args[0].t is not None else z3.IntVal(0)))
    if name == "join":
        s = ops.as_seq(st, args[0])
        if s.t is None:
            return vstr("")
        return V(STR, ops.UF("str_join", z3.StringSort(), z3.SeqSort(sort_of(s.ty.args[0])), z3.StringSort())(t, s.t))
    if name == "encode":
        enc = args[0].t if args else z3.StringVal("utf-8")
        err = args[1].t if len(args) > 1 else z3.StringVal("strict")
        return V(BYTES, ops.UF("str_encode", z3.StringSort(), z3.StringSort(), z3.StringSort(), z3.StringSort())(t, enc, err))
    raise Unsupported("str.%s" % name)


def count_fn():
    return ops.UF("str_count", z3.StringSort(), z3.StringSort(), z3.IntSort())


def rfind(t, sub):
    return ops.UF("str_rfind", z3.StringSort(), z3.StringSort(), z3.IntSort())(t, sub)


# ---------------------------------------------------------------------------
# built-in spec functions

@specfun("implies")
def _implies(se, a, kw):
    return vbool(z3.Implies(ops.truthy(se.st, a[0]), ops.truthy(se.st, a[1])))


@specfun("iff")
def _iff(se, a, kw):
    return vbool(ops.truthy(se.st, a[0]) == ops.truthy(se.st, a[1]))


@specfun("ite")
def _ite(se, a, kw):
    return ite(se.st, ops.truthy(se.st, a[0]), a[1], a[2])


@specfun("same")
def _same(se, a, kw):
    okk = lambda v: v.ty.is_ref or v.ty.kind in ("none", "int")
    if not okk(a[0]) or not okk(a[1]):
        raise Unsupported("same() needs references")
    x = z3.IntVal(0) if a[0].ty.kind == "none" else a[0].t
    y = z3.IntVal(0) if a[1].ty.kind == "none" else a[1].t
    return vbool(x == y)


@specfun("truthy")
def _truthy(se, a, kw):
    return vbool(ops.truthy(se.st, a[0]))


@specfun("isnone")
def _isnone(se, a, kw):
    return vbool(ops.is_none(a[0]))


@specfun("fresh")
def _fresh(se, a, kw):
    """The reference was allocated by this call: not allocated in the pre-state."""
    if se.old_st is None:
        raise Unsupported("fresh() without pre-state")
    return vbool(z3.And(a[0].t >= se.old_st.alloc, a[0].t < se.st.alloc, a[0].t > 0))


@specfun("allocated")
def _allocated(se, a, kw):
    v = a[0]
    if v.ty.is_ref and not is_listlike(v.ty):
        return vbool(z3.And(v.t >= 0, v.t < se.st.alloc))
    s = se.seq(v)
    if s.t is None:
        return vbool(True)
    i = z3.Int("i!alloc")
    lo = 1 if s.ty.args[0].kind == "obj" else 0      # elements of a list of objects are not None
    return vbool(z3.ForAll([i], z3.Implies(z3.And(0 <= i, i < z3.Length(s.t)),
                                           z3.And(s.t[i] >= lo, s.t[i] < se.st.alloc))))


@specfun("distinct_elems")
def _distinct(se, a, kw):
    s = se.seq(a[0])
    if s.t is None:
        return vbool(True)
    i, j = z3.Int("i!d"), z3.Int("j!d")
    return vbool(z3.ForAll([i, j], z3.Implies(z3.And(0 <= i, i < j, j < z3.Length(s.t)), s.t[i] != s.t[j])))


@specfun("dict_set")
def _dict_set(se, a, kw):
    d = se.deref(a[0])
    kt, vt = d.ty.args
    k, v = coerce(a[1], kt), coerce(a[2], vt)
    return ops.mk_dictv(kt, vt, z3.Store(d.items[0], k.t, True), z3.Store(d.items[1], k.t, v.t))


@specfun("dict_del")
def _dict_del(se, a, kw):
    d = se.deref(a[0])
    kt, vt = d.ty.args
    k = coerce(a[1], kt)
    return ops.mk_dictv(kt, vt, z3.Store(d.items[0], k.t, False), d.items[1])


@specfun("dict_update")
def _dict_update(se, a, kw):
    d, e = se.deref(a[0]), se.deref(a[1])
    kt, vt = d.ty.args
    dom, val = ops.dict_merge(d.items[0], d.items[1], e.items[0], e.items[1], kt, vt)
    return ops.mk_dictv(kt, vt, dom, val)


@specfun("box")
def _box(se, a, kw):
    return box(a[0])


@specfun("content")
def _content(se, a, kw):
    return se.deref(a[0])


@specfun("arg_exprs")
def _arg_exprs(se, a, kw):
    """the argument expressions of a def/block node (uninterpreted sequence of strings)"""
    f = ops.UF("arg_exprs", z3.IntSort(), z3.BoolSort(), z3.SeqSort(z3.StringSort()))
    return V(SEQ(STR), f(a[0].t, a[1].t))


@specfun("count")
def _count(se, a, kw):
    return V(INT, count_fn()(a[0].t, a[1].t))


@specfun("int_of")
def _int_of(se, a, kw):
    v = a[0]
    if v.ty.kind == "bool":
        return V(INT, z3.If(v.t, 1, 0))
    return v


@specfun("is_callable")
def _is_callable(se, a, kw):
    v = a[0]
    if v.ty.kind in ("fun", "any", "writer"):
        return vbool(z3.And(v.t != 0, ops.UF("is_callable", z3.IntSort(), z3.BoolSort())(v.t)))
    return vbool(v.ty.kind in ("closure", "static", "class", "bound"))


@specfun("str_join")
def _str_join(se, a, kw):
    s = se.seq(a[1])
    if s.t is None:
        return vstr("")
    return V(STR, ops.UF("str_join", z3.StringSort(), z3.SeqSort(sort_of(s.ty.args[0])), z3.StringSort())(a[0].t, s.t))


@specfun("str_encode")
def _str_encode(se, a, kw):
    enc = a[1].val.t if a[1].ty.kind == "opt" else a[1].t
    return V(BYTES, ops.UF("str_encode", z3.StringSort(), z3.StringSort(), z3.StringSort(), z3.StringSort())(a[0].t, enc, a[2].t))


@specfun("prefix_of")
def _prefix_of(se, a, kw):
    x, y = se.seq(a[0]), se.seq(a[1])
    if x.t is None:
        return vbool(True)
    return vbool(z3.PrefixOf(x.t, y.t))


def _field_fun(field, cls):
    def f(se, a, kw):
        fty, owner = S.find_field(cls, field)
        return se.st._read(se.st._fkey(owner, field), fty, a[0].t)
    return f


SPECFUNS["bufdata"] = _field_fun("data", "FastEncodingBuffer")
SPECFUNS["bufwrite"] = _field_fun("write", "FastEncodingBuffer")
SPECFUNS["bufenc"] = _field_fun("encoding", "FastEncodingBuffer")


@specfun("is_sized")
def _is_sized(se, a, kw):
    return vbool(ops.UF("is_sized", z3.IntSort(), z3.BoolSort())(a[0].t))


@specfun("len_of")
def _len_of(se, a, kw):
    return V(INT, ops.UF("len_of", z3.IntSort(), z3.IntSort())(a[0].t))


SPECFUNS["lc_index"] = _field_fun("index", "LoopContext")
SPECFUNS["lc_parent"] = _field_fun("parent", "LoopContext")
SPECFUNS["lc_iterable"] = _field_fun("_iterable", "LoopContext")


@specfun("builtins_dict")
def _builtins_dict(se, a, kw):
    from .types import DICT, ANY
    g = V(DICT(STR, ANY), z3.Const("G_builtins:__dict__", z3.IntSort()))
    return se.deref(g)


@specfun("dict_nonempty")
def _dict_nonempty(se, a, kw):
    d = a[0]
    if d.ty.kind == "dictv":
        raise Unsupported("dict_nonempty of a pure dict value")
    return vbool(ops.truthy(se.st, d))


@specfun("spec_args")
def _spec_args(se, a, kw):
    return V(SEQ(STR), ops.UF("spec_args", z3.IntSort(), z3.SeqSort(z3.StringSort()))(a[0].t))


def _opt_str_fun(name):
    def f(se, a, kw):
        return vopt(STR, ops.UF(name + "_none", z3.IntSort(), z3.BoolSort())(a[0].t),
                    V(STR, ops.UF(name, z3.IntSort(), z3.StringSort())(a[0].t)))
    return f


SPECFUNS["spec_varargs"] = _opt_str_fun("spec_varargs")
SPECFUNS["spec_varkw"] = _opt_str_fun("spec_varkw")


def fold_fn(name, fd):
    es, as_ = sort_of(fd["elem"]), sort_of(fd["acc"])
    return ops.UF("fold_" + name, z3.SeqSort(es), z3.IntSort(), as_, as_)


def in_prefix_fn(elem_sort):
    return ops.UF("in_prefix_%s" % str(elem_sort).replace(" ", "_"), z3.SeqSort(elem_sort), z3.IntSort(), elem_sort, z3.BoolSort())


@specfun("in_prefix")
def _in_prefix(se, a, kw):
    """in_prefix(s, i, k): k occurs among the first i elements of s (defined by recursion on i;
    the loop rule supplies the unfolding instances, R6)."""
    s = se.seq(a[0])
    k = coerce(a[2], s.ty.args[0])
    return vbool(in_prefix_fn(sort_of(s.ty.args[0]))(s.t, a[1].t, k.t))


@specfun("adjusted_uri")
def _adjusted_uri(se, a, kw):
    rel = coerce(a[1], Ty("opt", (STR,)))
    return V(STR, ops.UF("adjusted_uri", z3.StringSort(), z3.BoolSort(), z3.StringSort(), z3.StringSort())(unopt(a[0]).t, rel.isnone, rel.val.t))


@specfun("looked_up")
def _looked_up(se, a, kw):
    from .types import OBJ
    return V(OBJ("Template"), ops.UF("looked_up", z3.IntSort(), z3.StringSort(), z3.IntSort())(a[0].t, a[1].t))


SPECFUNS["ns_template"] = _field_fun("template", "Namespace")
SPECFUNS["ns_context"] = _field_fun("context", "Namespace")
SPECFUNS["ns_inherits"] = _field_fun("inherits", "Namespace")


@specfun("dyn_is_def_template")
def _dyn_is_def_template(se, a, kw):
    return vbool(z3.And(a[0].t != 0, ops.UF("dyn_isinstance_DefTemplate", z3.IntSort(), z3.BoolSort())(a[0].t)))


@specfun("truthy_inh")
def _truthy_inh(se, a, kw):
    return vbool(True)


def _boxed_pred(kind, sort):
    def f(se, a, kw):
        from .state import _box_funs
        b = box(V(Ty(kind), z3.Const("dummy!%s" % kind, sort)))      # make sure the box function exists
        bf = _box_funs[str(Ty(kind))]
        un = ops.UF("unbox_" + kind, z3.IntSort(), sort)
        sv = z3.Const("s!unbox", sort)
        GLOBAL_AXIOMS["unbox_" + kind] = z3.ForAll([sv], un(bf(sv)) == sv, patterns=[bf(sv)])
        return vbool(bf(un(a[0].t)) == a[0].t)
    return f


SPECFUNS["is_boxed_str"] = _boxed_pred("str", z3.StringSort())
SPECFUNS["is_boxed_int"] = _boxed_pred("int", z3.IntSort())
SPECFUNS["is_boxed_bytes"] = _boxed_pred("bytes", z3.StringSort())


@specfun("str_rfind")
def _str_rfind(se, a, kw):
    return V(INT, rfind(a[0].t, a[1].t))


@specfun("static_ref")
def _static_ref(se, a, kw):
    from .state import static_ref
    q = z3.simplify(a[0].t).as_string()
    return V(ANY, static_ref(q))


@specfun("pat_matches")
def _pat_matches(se, a, kw):
    return vbool(ops.UF("pat_matches", z3.IntSort(), z3.StringSort(), z3.IntSort(), z3.BoolSort())(a[0].t, unopt(a[1]).t, a[2].t))


@specfun("pat_group1")
def _pat_group1(se, a, kw):
    args = (a[0].t, unopt(a[1]).t, a[2].t)
    return vopt(STR, ops.UF("pat_group1_none", z3.IntSort(), z3.StringSort(), z3.IntSort(), z3.BoolSort())(*args),
                V(STR, ops.UF("pat_group1", z3.IntSort(), z3.StringSort(), z3.IntSort(), z3.StringSort())(*args)))


@specfun("bytes_decode")
def _bytes_decode(se, a, kw):
    return V(STR, ops.UF("bytes_decode_e", z3.StringSort(), z3.StringSort(), z3.StringSort(), z3.StringSort())(unopt(a[0]).t, unopt(a[1]).t, a[2].t))


@specfun("codec_name")
def _codec_name(se, a, kw):
    f = ops.UF("codec_name", z3.StringSort(), z3.StringSort())
    GLOBAL_AXIOMS["codec_name_utf8"] = f(z3.StringVal("utf-8")) == z3.StringVal("utf-8")
    return V(STR, f(unopt(a[0]).t))


@specfun("known_codec")
def _known_codec(se, a, kw):
    return vbool(ops.UF("known_codec", z3.StringSort(), z3.BoolSort())(unopt(a[0]).t))


@specfun("decodable")
def _decodable(se, a, kw):
    return vbool(ops.UF("decodable", z3.StringSort(), z3.StringSort(), z3.BoolSort())(unopt(a[0]).t, unopt(a[1]).t))


@specfun("match_group")
def _match_group(se, a, kw):
    return vopt(STR, ops.UF("match_group_none", z3.IntSort(), z3.IntSort(), z3.BoolSort())(a[0].t, a[1].t),
                V(STR, ops.UF("match_group", z3.IntSort(), z3.IntSort(), z3.StringSort())(a[0].t, a[1].t)))


@specfun("lm")
def _lm(se, a, kw):
    from .types import OBJ
    return V(OBJ("Match"), se.st.ghost["last_match"].t)


@specfun("entity_image")
def _entity_image(se, a, kw):
    return V(STR, ops.UF("entity_image", z3.StringSort(), z3.StringSort())(a[0].t))


@specfun("ascii_bytes")
def _ascii_bytes(se, a, kw):
    GLOBAL_AXIOMS["ascii_roundtrip"] = _ascii_axiom()
    return V(BYTES, ops.UF("ascii_bytes", z3.StringSort(), z3.StringSort())(a[0].t))


def _ascii_axiom():
    s = z3.String("s!ascii")
    ab = ops.UF("ascii_bytes", z3.StringSort(), z3.StringSort())
    dec = ops.UF("bytes_decode_e", z3.StringSort(), z3.StringSort(), z3.StringSort(), z3.StringSort())
    ok = ops.UF("decodable", z3.StringSort(), z3.StringSort(), z3.BoolSort())
    a = z3.StringVal("ascii")
    return z3.ForAll([s], z3.And(ok(ab(s), a), dec(ab(s), a, z3.StringVal("strict")) == s), patterns=[ab(s)])


@specfun("is_encode_error")
def _is_encode_error(se, a, kw):
    return vbool(z3.And(a[0].t != 0, ops.UF("dyn_isinstance_UnicodeEncodeError", z3.IntSort(), z3.BoolSort())(a[0].t)))


@specfun("str_strip")
def _str_strip(se, a, kw):
    return V(STR, ops.UF("str_strip", z3.StringSort(), z3.StringSort(), z3.StringSort())(a[0].t, z3.StringVal("<ws>")))


@specfun("quote_plus")
def _quote_plus(se, a, kw):
    return V(STR, ops.UF("quote_plus", z3.StringSort(), z3.StringSort())(a[0].t))


def _uf_spec(name, arg_sorts, ret_ty):
    def f(se, a, kw):
        args = []
        for v, srt in zip(a, arg_sorts):
            v = unopt(v) if srt == "str" else v
            args.append(v.t)
        zs = [z3.StringSort() if s_ == "str" else z3.IntSort() for s_ in arg_sorts]
        rs = {"str": z3.StringSort(), "int": z3.IntSort(), "bool": z3.BoolSort()}[ret_ty]
        t = ops.UF(name, *(zs + [rs]))(*args)
        return V({"str": STR, "int": INT, "bool": BOOL}[ret_ty], t)
    return f


SPECFUNS["fs_isfile"] = _uf_spec("fs_isfile", ["str"], "bool")
SPECFUNS["fs_exists"] = _uf_spec("fs_exists", ["str"], "bool")
SPECFUNS["fs_mtime"] = _uf_spec("fs_mtime", ["str"], "int")
SPECFUNS["normpath"] = _uf_spec("normpath", ["str"], "str")
SPECFUNS["pjoin"] = _uf_spec("pjoin", ["str", "str"], "str")
SPECFUNS["pdirname"] = _uf_spec("pdirname", ["str"], "str")
SPECFUNS["pabspath"] = _uf_spec("pabspath", ["str"], "str")
SPECFUNS["re_sub"] = _uf_spec("re_sub", ["str", "str", "str"], "str")
SPECFUNS["str_replace_all"] = _uf_spec("str_replace_all", ["str", "str", "str"], "str")
SPECFUNS["str_lstrip"] = _uf_spec("str_lstrip", ["str", "str"], "str")
SPECFUNS["re_matches"] = _uf_spec("re_matches", ["str", "str"], "bool")
SPECFUNS["re_group"] = _uf_spec("re_group", ["str", "str", "int"], "str")


@specfun("attrgetter_of")
def _attrgetter_of(se, a, kw):
    return V(ANY, ops.UF("attrgetter_of", z3.StringSort(), z3.IntSort())(a[0].t))


@specfun("G_str")
def _g_str(se, a, kw):
    q = z3.simplify(a[0].t).as_string()
    return V(STR, z3.Const("G_" + q, z3.StringSort()))


@specfun("filepos_text")
def _filepos_text(se, a, kw):
    return V(STR, ops.UF("filepos_text", z3.IntSort(), z3.IntSort(), z3.IntSort(), z3.StringSort())(box(a[0]).t, box(a[1]).t, box(a[2]).t))


@specfun("exc_lineno")
def _exc_lineno(se, a, kw):
    """getattr(exc, 'lineno', None) of an arbitrary exception object"""
    nm = z3.StringVal("lineno")
    has = ops.UF("hasattr", z3.IntSort(), z3.StringSort(), z3.BoolSort())(a[0].t, nm)
    return V(ANY, z3.If(has, ops.UF("getattr", z3.IntSort(), z3.StringSort(), z3.IntSort())(a[0].t, nm), z3.IntVal(0)))


@specfun("unbox_int")
def _unbox_int(se, a, kw):
    return V(INT, ops.UF("unbox_int", z3.IntSort(), z3.IntSort())(a[0].t))


@specfun("re_split")
def _re_split(se, a, kw):
    f = ops.UF("re_split", z3.StringSort(), z3.IntSort(), z3.StringSort(), z3.SeqSort(z3.StringSort()))
    return V(SEQ(STR), f(unopt(a[0]).t, a[1].t, unopt(a[2]).t))


@specfun("pat_source")
def _pat_source(se, a, kw):
    return V(STR, ops.UF("pat_source", z3.IntSort(), z3.StringSort())(a[0].t))


@specfun("pat_flags")
def _pat_flags(se, a, kw):
    return V(INT, ops.UF("pat_flags", z3.IntSort(), z3.IntSort())(a[0].t))


@specfun("re_matches_f")
def _re_matches_f(se, a, kw):
    return vbool(ops.UF("re_matches_f", z3.StringSort(), z3.IntSort(), z3.StringSort(), z3.BoolSort())(unopt(a[0]).t, a[1].t, unopt(a[2]).t))


@specfun("re_group_f")
def _re_group_f(se, a, kw):
    return V(STR, ops.UF("re_group_f", z3.StringSort(), z3.IntSort(), z3.StringSort(), z3.IntSort(), z3.StringSort())(unopt(a[0]).t, a[1].t, unopt(a[2]).t, a[3].t))


@specfun("py_repr")
def _py_repr(se, a, kw):
    return V(STR, ops.UF("repr_str", z3.StringSort(), z3.StringSort())(unopt(a[0]).t))


@specfun("empty_strs")
def _empty_strs(se, a, kw):
    return V(SEQ(STR), z3.Empty(z3.SeqSort(z3.StringSort())))


@specfun("G_int")
def _g_int(se, a, kw):
    q = z3.simplify(a[0].t).as_string()
    return V(INT, z3.Const("G_" + q, z3.IntSort()))


def _node_set(name):
    def f(se, a, kw):
        return ops.mk_setv(STR, ops.UF(name, z3.IntSort(), z3.ArraySort(z3.StringSort(), z3.BoolSort()))(a[0].t))
    return f


SPECFUNS["node_undeclared"] = _node_set("node_undeclared")
SPECFUNS["node_declared"] = _node_set("node_declared")


@specfun("idents_defs")
def _idents_defs(se, a, kw):
    """the defs and blocks callable by name in an _Identifiers scope (the value of its `defs` property), as a set of nodes"""
    from .types import OBJ
    return ops.mk_setv(OBJ("TagLike"), ops.UF("idents_defs", z3.IntSort(), z3.ArraySort(z3.IntSort(), z3.BoolSort()))(a[0].t))


@specfun("py_eval")
def _py_eval(se, a, kw):
    """the value of eval(text): some value determined by the text (uninterpreted)"""
    return V(ANY, ops.UF("py_eval", z3.StringSort(), z3.IntSort())(a[0].t))


@specfun("dyn_isinstance")
def _dyn_isinstance(se, a, kw):
    """isinstance(x, <classes>) of an object whose schema class stands for several real classes, as the engine models it"""
    nm = z3.simplify(a[1].t).as_string()
    return vbool(z3.And(a[0].t != 0, ops.UF("dyn_isinstance_" + nm, z3.IntSort(), z3.BoolSort())(a[0].t)))


@specfun("any_isinstance")
def _any_isinstance(se, a, kw):
    """isinstance(x, <classes>) of a dynamically typed value, as the engine models it: any_isinstance(x, 'A_B') for (A, B)"""
    nm = z3.simplify(a[1].t).as_string()
    return vbool(z3.And(a[0].t != 0, ops.UF("any_isinstance_" + nm, z3.IntSort(), z3.BoolSort())(a[0].t)))


@specfun("the")
def _the(se, a, kw):
    """the(x): the value of an Opt[...] that the surrounding clause has established to be present"""
    return unopt(a[0])


@specfun("G_bytes")
def _g_bytes(se, a, kw):
    q = z3.simplify(a[0].t).as_string()
    return V(BYTES, z3.Const("G_" + q, z3.StringSort()))


@specfun("is_str")
def _is_str(se, a, kw):
    return vbool(unopt(a[0]).ty.kind == "str")


@specfun("is_bytes")
def _is_bytes(se, a, kw):
    return vbool(unopt(a[0]).ty.kind == "bytes")


@specfun("box_pair")
def _box_pair(se, a, kw):
    return box(vtuple([a[0], a[1]]))


@specfun("memo_hit")
def _memo_hit(se, a, kw):
    """(uri, relativeto) was already in the lookup's memo table on entry"""
    st = se.old_st if se.old_st is not None else se.st
    d = st.get_field(a[0], "_uri_cache")
    dom, _ = st.dict_get(d)
    return vbool(z3.Select(dom, box(vtuple([a[1], a[2]])).t))


def _adjusted_def(u, rnone, r):
    """documented resolution rule: absolute stays; relative joins the caller's directory; else '/'+uri"""
    pj = ops.UF("pjoin", z3.StringSort(), z3.StringSort(), z3.StringSort())
    pd = ops.UF("pdirname", z3.StringSort(), z3.StringSort())
    return z3.If(z3.SubString(u, 0, 1) == z3.StringVal("/"), u,
                 z3.If(z3.Not(rnone), pj(pd(r), u), z3.Concat(z3.StringVal("/"), u)))


@specfun("adjusted_uri_def")
def _adjusted_uri_def(se, a, kw):
    rel = coerce(a[1], Ty("opt", (STR,)))
    return V(STR, _adjusted_def(a[0].t, rel.isnone, rel.val.t))


@specfun("memo_consistent")
def _memo_consistent(se, a, kw):
    """every memoised (uri, relativeto) maps to the value the resolution rule gives (uri non-empty)"""
    d = se.st.get_field(a[0], "_uri_cache")
    dom, val = se.st.dict_get(d)
    u, r, rn = z3.String("u!memo"), z3.String("r!memo"), z3.Bool("rn!memo")
    from .types import vopt
    key = box(vtuple([V(STR, u), vopt(STR, rn, V(STR, r))])).t
    return vbool(z3.ForAll([u, r, rn], z3.Implies(z3.Select(dom, key),
                                                  z3.And(z3.Length(u) > 0, z3.Select(val, key) == _adjusted_def(u, rn, r)))))


@specfun("ns_depth")
def _ns_depth(se, a, kw):
    return V(INT, ops.UF("ns_depth", z3.IntSort(), z3.IntSort())(a[0].t))


def _chain_end_fn():
    return ops.UF("chain_end", z3.IntSort(), z3.IntSort())


@specfun("chain_end")
def _chain_end(se, a, kw):
    """last namespace of the `inherits` chain starting at the argument, in the PRE-state heap
    (defined by recursion; the defining equations are global axioms over the initial heap)"""
    from .types import OBJ
    from .state import HEAP_AXIOMS
    ce = _chain_end_fn()
    inh0 = z3.Const("H0_f:Namespace.inherits", z3.ArraySort(z3.IntSort(), z3.IntSort()))
    n = z3.Int("n!ce")
    # trigger on the select term only: instantiating on ce(n) would create ce(inh0[n]) and loop
    GLOBAL_AXIOMS["chain_end"] = z3.ForAll([n], z3.If(inh0[n] == 0, ce(n) == n, ce(n) == ce(inh0[n])), patterns=[inh0[n]])
    return V(OBJ("Namespace"), ce(a[0].t))


@specfun("first_with_attr")
def _first_with_attr(se, a, kw):
    """first namespace of the `inherits` chain starting at the argument whose module has the attribute (None if
    there is none): defined by recursion over the pre-state heap; the defining equations are instantiated only
    where both the link and the hasattr test of that namespace occur (no unrolling beyond what the code inspects)"""
    from .types import OBJ
    fw = ops.UF("first_with_attr", z3.IntSort(), z3.StringSort(), z3.IntSort())
    inh0 = z3.Const("H0_f:Namespace.inherits", z3.ArraySort(z3.IntSort(), z3.IntSort()))
    mod0 = z3.Const("H0_f:Namespace.module", z3.ArraySort(z3.IntSort(), z3.IntSort()))
    has = ops.UF("hasattr", z3.IntSort(), z3.StringSort(), z3.BoolSort())
    n, k = z3.Int("n!fw"), z3.String("k!fw")
    GLOBAL_AXIOMS["first_with_attr"] = z3.ForAll([n, k], z3.Implies(n > 0, z3.If(has(mod0[n], k), fw(n, k) == n, fw(n, k) == fw(inh0[n], k))),
                                                 patterns=[z3.MultiPattern(inh0[n], has(mod0[n], k))])
    GLOBAL_AXIOMS["first_with_attr_nil"] = z3.ForAll([k], fw(0, k) == 0, patterns=[fw(0, k)])
    v = a[0]
    t = v.t if v.ty.kind != "opt" else z3.If(v.isnone, 0, v.val.t)
    return V(Ty("obj", (), "Namespace", True) if False else OBJ("Namespace"), fw(t, unopt(a[1]).t))


@specfun("mod_getattr")
def _mod_getattr(se, a, kw):
    return V(ANY, ops.UF("getattr", z3.IntSort(), z3.StringSort(), z3.IntSort())(a[0].t, unopt(a[1]).t))


@specfun("old_chain_end")
def _old_chain_end(se, a, kw):
    """chain_end(context['self']) evaluated on entry"""
    st = se.old_st if se.old_st is not None else se.st
    d = st.get_field(a[0], "_data")
    dom, val = st.dict_get(d)
    selfns = z3.Select(val, z3.StringVal("self"))
    return _chain_end(se, [V(ANY, selfns)], kw)


@specfun("finite_chain")
def _finite_chain(se, a, kw):
    """the `inherits` links of the pre-state are well-founded (depth strictly decreases toward the base)"""
    inh0 = z3.Const("H0_f:Namespace.inherits", z3.ArraySort(z3.IntSort(), z3.IntSort()))
    dp = ops.UF("ns_depth", z3.IntSort(), z3.IntSort())
    n = z3.Int("n!fc")
    return vbool(z3.ForAll([n], z3.Implies(z3.And(n > 0, inh0[n] != 0), z3.And(dp(inh0[n]) < dp(n), dp(n) > 0, inh0[n] > 0)),
                           patterns=[inh0[n]]))


@specfun("generated_source")
def _generated_source(se, a, kw):
    return V(STR, ops.UF("generated_source", z3.IntSort(), z3.IntSort(), z3.IntSort(), z3.BoolSort(), z3.StringSort())(
        a[0].t, box(a[1]).t, box(a[2]).t, a[3].t))


def _src_encoding(a):
    args = (a[0].t, box(a[1]).t, box(a[2]).t)
    isn = ops.UF("lexer_encoding_none", z3.IntSort(), z3.IntSort(), z3.IntSort(), z3.BoolSort())(*args)
    val = ops.UF("lexer_encoding", z3.IntSort(), z3.IntSort(), z3.IntSort(), z3.StringSort())(*args)
    return isn, val


@specfun("lexer_encoding")
def _lexer_encoding(se, a, kw):
    isn, val = _src_encoding(a)
    return vopt(STR, isn, V(STR, val))


@specfun("encoded_source")
def _encoded_source(se, a, kw):
    """the module source generated WITH the magic comment, encoded with the encoding the lexer
    determined for this source (ascii when it determined none)"""
    src = ops.UF("generated_source", z3.IntSort(), z3.IntSort(), z3.IntSort(), z3.BoolSort(), z3.StringSort())(
        a[0].t, box(a[1]).t, box(a[2]).t, z3.BoolVal(True))
    isn, val = _src_encoding(a)
    enc = z3.If(z3.Or(isn, z3.Length(val) == 0), z3.StringVal("ascii"), val)
    return V(BYTES, ops.UF("str_encode", z3.StringSort(), z3.StringSort(), z3.StringSort(), z3.StringSort())(src, enc, z3.StringVal("strict")))


SPECFUNS["fs_new_name"] = _uf_spec("fs_new_name", ["str"], "bool")


@specfun("fs_content")
def _fs_content(se, a, kw):
    return V(ANY, ops.UF("fs_content", z3.StringSort(), z3.IntSort())(a[0].t))


@specfun("file_magic")
def _file_magic(se, a, kw):
    return V(INT, ops.UF("file_magic", z3.StringSort(), z3.IntSort(), z3.IntSort())(unopt(a[0]).t, a[1].t))


@specfun("isnone_any")
def _isnone_any(se, a, kw):
    return vbool(a[0].t == 0)
