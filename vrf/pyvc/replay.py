"""Replay of SMT counter-models on the real code (E5) for pyvc obligations."""
from __future__ import annotations

import importlib
import itertools
import re

import z3

from . import spec as S
from .types import Ty, V, parse_ty
from .state import is_listlike, is_dictlike, elem_ty, dict_tys
from . import ops
from .native import (Opaque, NATIVE_FUNS, run_native, bounded_check, summarize, NativeUnsupported,
                     all_fields, OBJECT_FIXERS, snap_copy)


def z3str(v):
    s = v.as_string()
    return re.sub(r"\\u\{([0-9a-fA-F]+)\}", lambda m: chr(int(m.group(1), 16)), s)


class Concretizer:
    def __init__(self, E, model):
        self.E, self.m = E, model
        self.st0 = E.old0
        self.objs = {}
        self.funs = []        # (setter) places where a Fun value is needed

    def ev(self, t):
        return self.m.eval(t, model_completion=True)

    def value(self, v: V):
        k = v.ty.kind
        if k == "none":
            return None
        if k == "opt":
            if z3.is_true(self.ev(v.isnone)):
                return None
            return self.value(v.val)
        if k == "tuple":
            return tuple(self.value(i) for i in v.items)
        if k == "star":
            return ()
        if k == "int":
            return self.ev(v.t).as_long()
        if k == "bool":
            return z3.is_true(self.ev(v.t))
        if k == "real":
            r = self.ev(v.t)
            try:
                return float(r.as_fraction())
            except Exception:
                return float(r.approx(10).as_fraction())
        if k == "str":
            return z3str(self.ev(v.t))
        if k == "bytes":
            return z3str(self.ev(v.t)).encode("latin-1", "replace")
        if k == "seq":
            if v.t is None:
                return []
            n = self.ev(z3.Length(v.t)).as_long()
            n = min(n, 8)
            return [self.value(V(v.ty.args[0], v.t[i])) for i in range(n)]
        if v.ty.is_ref:
            return self.ref(v.ty, self.ev(v.t).as_long())
        raise NativeUnsupported("concretize %s" % v.ty)

    def ref(self, ty: Ty, n: int):
        if n == 0:
            return None
        key = (n, ty.kind if ty.kind in ("writer", "fun") else "o")
        if key in self.objs:
            return self.objs[key]
        k = ty.kind
        idx = z3.IntVal(n)
        if k == "any":
            tr = z3.is_true(self.ev(ops.any_truthy(idx)))
            o = Opaque(n, tr)
            self.objs[key] = o
            return o
        if k == "fun":
            return ("__fun__", ty.name)
        if k == "writer":
            lst = self.ref(parse_ty("List[Str]"), n)
            return lst.append
        if k == "list":
            o = []
            self.objs[key] = o
            content = self.st0.list_get(V(ty, idx))
            o.extend(self.value(content))
            return o
        if k == "dict":
            o = {}
            self.objs[key] = o
            self.fill_dict(o, V(ty, idx))
            return o
        if k == "set":
            o = set()
            self.objs[key] = o
            dom = self.ev(self.st0.set_get(V(ty, idx)))
            for cand in self.candidates(ty.args[0], dom):
                if z3.is_true(self.ev(z3.Select(dom, cand))):
                    o.add(self.value(V(ty.args[0], cand)))
            return o
        if k == "obj":
            cs = S.CLASSES.get(ty.name)
            if cs is None:
                o = Opaque("obj:%s#%d" % (ty.name, n))
                self.objs[key] = o
                return o
            modname, qual = cs.qual.split(":")
            cls = getattr(importlib.import_module(modname), qual)
            o = cls.__new__(cls)
            self.objs[key] = o
            for f, fty in all_fields(ty.name).items():
                if f.startswith("?") or f == "__attrs__":
                    continue
                fv = self.st0.get_field(V(ty, idx), f)
                val = self.value(fv)
                d = object.__getattribute__(o, "__dict__")
                d[f] = val
            if cs.listlike is not None:
                content = self.st0.list_get(V(ty, idx))
                list.extend(o, self.value(content))
            if cs.dictlike is not None:
                self.fill_dict(o, V(ty, idx))
            fixer = OBJECT_FIXERS.get(ty.name)
            if fixer:
                fixer(o)
            return o
        raise NativeUnsupported("ref of %s" % ty)

    def fill_dict(self, o, dv: V):
        kt, vt = dict_tys(dv.ty)
        dom, val = self.st0.dict_get(dv)
        dom_m = self.ev(dom)
        for cand in self.candidates(kt, dom_m):
            if z3.is_true(self.ev(z3.Select(dom, cand))):
                kpy = self.value(V(kt, cand))
                dict.__setitem__(o, kpy, self.value(V(vt, z3.Select(val, cand))))
                if len(o) >= 6:
                    break

    def candidates(self, kt: Ty, arr_model):
        """constants of the key sort occurring in the model value of the array + a few defaults"""
        out, seen = [], set()
        want_str = kt.kind in ("str", "bytes")

        def walk(e, depth=0):
            if depth > 40:
                return
            if z3.is_string_value(e) and want_str:
                if e.as_string() not in seen:
                    seen.add(e.as_string())
                    out.append(e)
            elif z3.is_int_value(e) and not want_str:
                if e.as_long() not in seen:
                    seen.add(e.as_long())
                    out.append(e)
            for ch in e.children():
                walk(ch, depth + 1)
        try:
            walk(arr_model)
        except Exception:
            pass
        # constants mentioned in the verified function's source
        import ast as _ast
        for node in _ast.walk(self.E.fn):
            if isinstance(node, _ast.Constant) and isinstance(node.value, str) and want_str and node.value not in seen:
                seen.add(node.value)
                out.append(z3.StringVal(node.value))
        for p, v in (self.E.penv0 or {}).items():
            if v.ty == kt and v.t is not None:
                c = self.ev(v.t)
                out.append(c)
        if want_str:
            out.append(z3.StringVal("k"))
        return out[:24]


def instantiate_funs(env, choice):
    """Replace ('__fun__', name) placeholders by native stand-ins chosen by `choice`."""
    env = dict(env)
    i = 0

    def fix(v):
        nonlocal i
        if isinstance(v, tuple) and len(v) == 2 and v[0] == "__fun__":
            facs = NATIVE_FUNS.get(v[1]) or []
            if not facs:
                raise NativeUnsupported("no native stand-in for Fun[%s]" % v[1])
            f = facs[choice[i % len(choice)] % len(facs)]
            i += 1
            return f(env)
        return v
    for k in list(env):
        env[k] = fix(env[k])
    # also inside object fields one level deep
    for k, o in env.items():
        d = getattr(o, "__dict__", None) if not isinstance(o, (int, str, float, tuple, list, dict, type(None))) else None
        if isinstance(d, dict):
            for f in list(d):
                d[f] = fix(d[f])
    return env


def same_clause(native_label, target):
    """A native failure confirms a symbolic obligation only when it is the same clause."""
    if target is None:
        return False
    return native_label == target or native_label.split(":")[-1] == target.split(":")[-1]


def pyvc_replayer(E, c: S.Contract, model, env, obl):
    """(replayed?, data) -- tries the counter-model, then a directed small-scope search."""
    attempts = []
    target = obl.label if obl is not None else None
    if model is not None:
        try:
            conc = Concretizer(E, model)
            base = {p: conc.value(v) for p, v in env.items()}
            nfun = 3
            for choice in itertools.islice(itertools.product(range(5), repeat=2), 25):
                env_c = instantiate_funs(snap_copy(base, {}), choice)
                caps = {k: env_c.pop(k) for k in list(c.captures) if k in env_c}
                shown = summarize(dict(env_c))
                out = run_native(c, env_c, caps)
                if not out.pre_ok:
                    attempts.append({"input": shown, "note": "model input does not satisfy the precondition natively"})
                    break
                if out.failed and any(same_clause(l, target) for l, e in out.failed):
                    return True, {"source": "smt-model", "input": shown,
                                  "failed_clauses": [{"clause": l, "expr": e} for l, e in out.failed],
                                  "exception": repr(out.exception), "fun_choice": list(choice),
                                  "how": "real function %s called natively on the concretised counter-model; "
                                         "contract clauses evaluated on the real objects" % c.key}
                attempts.append({"input": shown, "fun_choice": list(choice), "failed": []})
                if not any(isinstance(v, tuple) and v and v[0] == "__fun__" for v in base.values()):
                    break
        except NativeUnsupported as e:
            attempts.append({"note": "concretisation unsupported: %s" % e})
        except Exception as e:
            attempts.append({"note": "concretisation failed: %r" % e})
    # directed search: same contract, small-scope inputs
    try:
        evals, fails, skipped = bounded_check(c, 400)
        fails = [f for f in fails if same_clause(f["clause"], target)]
        if fails:
            return True, {"source": "small-scope-search", "evaluations": evals, "failures": fails[:3],
                          "how": "real function %s run on enumerated small inputs with the contract evaluated natively" % c.key,
                          "model_attempts": attempts[:3]}
        attempts.append({"small_scope_evaluations": evals, "failed": []})
    except Exception as e:
        attempts.append({"note": "small-scope search failed: %r" % e})
    return False, {"source": "none", "attempts": attempts[:6]}
