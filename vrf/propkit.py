"""Helpers shared by the props/*.py modules."""
from __future__ import annotations

import multiprocessing as mp
import os
import time
import traceback

from .core import Report, Result, DISCHARGED, VIOLATED, UNDECIDED, ERROR, BOUNDED_OK, src_hash

NPROC = int(os.environ.get("VERIF_NPROC", "16"))


def _verify_one(args):
    key, prefix = args
    from .pyvc.verify import verify_function
    from .pyvc.replay import pyvc_replayer
    from .pyvc import spec as S
    t0 = time.time()
    only = None
    if "##" in key:
        # "function##text": only the clauses of that function's contract whose label contains the text belong to this property
        key, sub = key.split("##", 1)
        only = lambda lab, _s=sub: _s in lab
    try:
        results, E = verify_function(key, prefix, replayer=pyvc_replayer, only_labels=only)
        meta = {"key": key, "source": E.source_segment() if E is not None else "",
                "assumed": sorted(E.used_assumed) if E is not None else [],
                "used": sorted(E.used_contracts) if E is not None else [],
                "paths": getattr(E, "npaths", 0), "time": time.time() - t0}
        return results, meta
    except Exception:
        return [Result(prefix + key.split(":")[1], ERROR, function=key, output=traceback.format_exc())], \
               {"key": key, "source": "", "assumed": [], "used": [], "paths": 0, "time": time.time() - t0}


def _bounded_one(args):
    key, prefix, limit = args
    from .pyvc import spec as S
    from .pyvc.native import bounded_check
    c = S.CONTRACTS[key]
    t0 = time.time()
    try:
        evals, fails, skipped = bounded_check(c, limit)
    except Exception:
        return Result(prefix + key.split(":")[1] + ".native", ERROR, klass="B", function=key,
                      output=traceback.format_exc())
    oid = prefix + key.split(":")[1] + ".native"
    bound = "small-scope enumeration of parameter values (<= %d inputs; lists/dicts of length <= 3, ints in -1..3)" % limit
    if fails:
        f = fails[0]
        return Result(oid, VIOLATED, klass="B", backend="native-enum", function=key, bound=bound,
                      evaluations=evals, detail="contract clause %s fails natively: %s" % (f["clause"], f["expr"]),
                      witness=f["input"], replayed=True,
                      replay={"source": "small-scope-search", "failures": fails[:3]}, time_s=time.time() - t0)
    return Result(oid, BOUNDED_OK, klass="B", backend="native-enum", function=key, bound=bound,
                  evaluations=evals, detail="skipped clauses: %s" % sorted(skipped)[:4], time_s=time.time() - t0)


def pool_map(fn, items):
    if not items:
        return []
    if NPROC <= 1 or len(items) == 1:
        return [fn(i) for i in items]
    ctx = mp.get_context("fork")
    with ctx.Pool(min(NPROC, len(items))) as p:
        return p.map(fn, items, chunksize=1)


FUNC_DEADLINE_S = int(os.environ.get("VERIF_FUNC_DEADLINE", "420"))


def pool_map_deadline(fn, items, deadline_s, on_timeout):
    """pool_map with a wall-clock limit per job: a job that is still running `deadline_s` seconds after the
    jobs were handed out is abandoned (its worker is killed with the pool) and reported by `on_timeout(job)`.
    A path explosion or a solver call that ignores its budget must not hang a check."""
    if not items:
        return []
    ctx = mp.get_context("fork")
    pool = ctx.Pool(min(NPROC, len(items)))
    t0 = time.time()
    try:
        pending = [pool.apply_async(fn, (it,)) for it in items]
        outs = []
        for it, ar in zip(items, pending):
            left = max(1.0, deadline_s - (time.time() - t0)) if len(items) <= NPROC else deadline_s
            try:
                outs.append(ar.get(timeout=left))
            except mp.TimeoutError:
                outs.append(on_timeout(it))
        return outs
    finally:
        pool.terminate()
        pool.join()


def run_pyvc(rep: Report, keys, native_limit=150):
    """Verify each function against its contract (deductive) and run the native
    small-scope check of the same contract (bounded stand-in / contract sanity)."""
    from .pyvc import spec as S
    prefix = rep.prop + "."
    keys = [k for k in keys if not S.CONTRACTS[k.split("##")[0]].assumed]
    on_timeout = lambda job: ([Result(prefix + job[0].split(":")[1], UNDECIDED, function=job[0], backend="pyvc",
                                      output="verification of this function exceeded %d s of wall time and was abandoned (no verdict)" % FUNC_DEADLINE_S)],
                              {"key": job[0], "source": "", "assumed": [], "used": [], "paths": 0, "time": FUNC_DEADLINE_S})
    # functions with many paths (contract flag heavy=True) go first, one at a time, their obligations spread over all cores
    heavy = [k for k in keys if getattr(S.CONTRACTS[k.split("##")[0]], "heavy", False)]
    outs = []
    for k in heavy:
        os.environ["VERIF_INNER_PAR"] = str(NPROC)
        outs += pool_map_deadline(_verify_one, [(k, prefix)], FUNC_DEADLINE_S, on_timeout)
    rest = [k for k in keys if k not in heavy]
    # few functions: spend the idle cores inside each function (obligations discharged in forked children)
    os.environ["VERIF_INNER_PAR"] = str(max(1, NPROC // max(1, len(rest))))
    outs += pool_map_deadline(_verify_one, [(k, prefix) for k in rest], FUNC_DEADLINE_S, on_timeout)
    for results, meta in outs:
        rep.extend(results)
        rep.function(meta["key"], meta["source"])
        for a in meta["assumed"]:
            c = S.VIEWS.get(a) or S.CONTRACTS[a]
            rep.assume("assumed contract %s: %s" % (a, c.note or "; ".join(cl.expr for cl in c.ensures)[:200]))
        for u in meta["used"]:
            if u.startswith("fun:"):
                pass
    if native_limit:
        nat = pool_map(_bounded_one, [(k, prefix, native_limit) for k in keys if "##" not in k and not S.CONTRACTS[k].native_skip])
        rep.extend(nat)
    for r in rep.results[:3]:
        rep.sample(r.brief())


def link_bounded_witness(rep, only=None):
    """a failing input found by a bounded stand-in of the same property is the replayed input for the
    deductive obligations that failed in the same run (they would otherwise end 'no-failing-input-found')"""
    fails = [r for r in rep.results if r.klass == "B" and r.status == VIOLATED and r.witness is not None]
    if not fails:
        return
    for r in rep.results:
        if r.klass in ("P", "L") and not r.replayed and (r.status == VIOLATED or (r.status == UNDECIDED and r.cand)) \
                and (only is None or only(r)):
            r.replayed = True
            r.replay = dict(r.replay or {}, native_input=fails[0].witness, found_by=fails[0].oid, how=fails[0].backend)


def contracts_for(prop):
    from .pyvc import spec as S
    return [k for k, c in S.CONTRACTS.items() if prop in c.props and not c.assumed]


BASE_TRUST = [
    "CPython 3.12 (ast, re, re._parser, importlib) as the reference semantics",
    "z3 5.1 (Python API) and cvc5 1.0.3 (CLI) as SMT back ends",
    "pyvc: /verif/vrf/pyvc (symbolic executor, heap model, builtin models: DESIGN 3.1)",
    "rule R1 (loop invariants), R2 (modular calls: callers see callee contracts only)",
]

BASE_ASSUME = [
    "int is mathematical; float clock values are reals",
    "attribute/method lookup resolves statically to the class as written (no monkey-patching)",
    "distinct parameters do not alias unless the contract says so; entry heap is closed under allocation",
    "MemoryError/RecursionError/KeyboardInterrupt/signals are not modelled",
    "template authors do not call underscore-prefixed Context methods or mutate the stacks directly",
]


def _schema_one(args):
    prog, prefix = args[0], args[1]
    only = args[2] if len(args) > 2 else None
    lf = LABEL_FILTERS.get(args[3]) if len(args) > 3 else None
    from .schema.core import verify_program
    try:
        return verify_program(prog, prefix, only=only, label_filter=lf)
    except Exception:
        return [Result("%sschema[%s]" % (prefix, prog.name), ERROR, function="generated", output=traceback.format_exc()[-1200:])], \
               {"program": prog.name, "source": prog.source, "functions": []}


LABEL_FILTERS = {
    "normal": lambda lab: not lab.startswith("exc-post") and not lab.startswith("no-raise"),
    "exceptional": lambda lab: lab.startswith(("exc-post", "at-call", "loop-stack", "loop-name", "pre:", "no-raise", "raise-when")) or ":inv-" in lab,
    "all": None,
}


def run_schema(rep: Report, programs, keep=None, labels="all"):
    """Verify every generated function of every schema program; `keep(result)` filters which
    obligations belong to the property at hand."""
    prefix = rep.prop + "."
    # one job per generated function (the functions of one program are independent units)
    from .schema.core import list_functions
    jobs = []
    for p in programs:
        quals = list_functions(p)
        if not quals:
            jobs.append((p, prefix, None, labels))
        for q in quals:
            jobs.append((p, prefix, [q], labels))
    outs = pool_map(_schema_one, jobs)
    nfun = 0
    seen_prog = set()
    for results, info in outs:
        nfun += len(info.get("functions", []))
        for r in results:
            if keep is None or keep(r) or r.status in (ERROR,) or r.oid.endswith(".compile") or r.oid.endswith("module-syntax") \
                    or (r.status == UNDECIDED and "outside the verified subset" in (r.output or "")):
                rep.add(r)
        if info.get("generated") and info["program"] not in seen_prog:
            seen_prog.add(info["program"])
            rep.function("generated:%s" % info["program"], info["generated"])
            rep.sample({"schema_program": info["program"], "template": info["source"][:300]})
    # replay / bounded stand-in: the same programs rendered natively with concrete holes, raising at
    # each hole in turn, with the render-state contract checked at run time
    from .bounded.render_grid import grid
    t0 = time.time()
    nscen, grid_fail = 0, {}
    for p in programs:
        try:
            probs = grid(p)
        except Exception as e:
            probs = [{"scenario": "grid", "problems": [repr(e)]}]
        from .bounded.render_grid import hole_names
        nscen += 1 + 2 * len(hole_names(p.source))
        if probs:
            grid_fail[p.name] = probs
    for r in rep.results:
        if (r.status == VIOLATED or (r.status == UNDECIDED and r.cand)) and "schema[" in r.oid:
            name = r.oid.split("schema[", 1)[1].split("]", 1)[0]
            if name in grid_fail:
                r.replayed = True
                r.replay = {"how": "the schematic template rendered natively with concrete holes (one raising), render-state contract checked at run time",
                            "failures": grid_fail[name][:3]}
    if grid_fail:
        name = sorted(grid_fail)[0]
        rep.add(Result(prefix + "schema.render-grid", VIOLATED, klass="B", backend="native-monitor", function="generated",
                       bound="each schema program x (no raise | raise at hole i) x re-render", evaluations=nscen,
                       detail="render state inconsistent for schema program %s: %s" % (name, grid_fail[name][0]),
                       witness=grid_fail[name][0], replayed=True, replay={"failures": {k: v[:2] for k, v in list(grid_fail.items())[:4]}},
                       time_s=time.time() - t0))
    else:
        rep.add(Result(prefix + "schema.render-grid", BOUNDED_OK, klass="B", backend="native-monitor", function="generated",
                       bound="each schema program x (no raise | raise at hole i) x re-render", evaluations=nscen, time_s=time.time() - t0,
                       detail="stacks restored, caller reset at every hole, later output reaches the base buffer, re-render unaffected"))
    rep.extra_cov["schema_programs"] = len(programs)
    rep.extra_cov["generated_functions_verified"] = nfun
    rep.trust("schema: /verif/vrf/schema (schematic templates compiled by the real mako compiler on every run)",
              "rule R3: structural induction over the parse tree - holes stand for arbitrary content under the induction hypothesis 'balanced'")
    rep.assume("a hole (arbitrary template content, user expression or callable) leaves both stacks as it found them on normal and exceptional exit, "
               "only extends the buffer that was on top, and does not touch buffers below (induction hypothesis, proved for every generated construct)",
               "the schema family covers every branch predicate of the emitters (DESIGN 2.3 audit)")
