"""Glue: build languages for a set of real patterns, validate them against `re`, make Results."""
from __future__ import annotations

import itertools
import random
import re
import time

from ..core import Result, DISCHARGED, VIOLATED, UNDECIDED, ERROR
from . import regex as R
from .lang import Alphabet, Lang
from .automata import DFA


class RexQuery:
    def __init__(self, patterns: dict, extra_sets=()):
        """patterns: name -> (pattern string, flags)"""
        self.patterns = patterns
        self.nodes = {}
        for name, (pat, fl) in patterns.items():
            n, _ = R.parse(pat, fl)
            self.nodes[name] = R.expand_refs(n)
        self.A = Alphabet(self.nodes.values(), extra_sets)
        self.L = Lang(self.A)
        self._m = {}

    def matches(self, name) -> DFA:
        if name not in self._m:
            self._m[name] = self.L.matches(self.nodes[name])
        return self._m[name]

    def word_string(self, word, variant=0):
        ctx, text = self.A.word_to_string(word, variant)
        return (ctx or ""), text

    def validate(self, names=None, maxlen=3, seed=0, extra_words=()):
        """rex self-validation (R5): DFA acceptance == re.match on every context-prefixed word of
        length <= maxlen over the minterm alphabet (+ given words), two representatives per block."""
        rnd = random.Random(seed)
        names = names or list(self.patterns)
        total, bad = 0, []
        comp = {n: re.compile(*self.patterns[n]) if self.patterns[n][1] else re.compile(self.patterns[n][0]) for n in names}
        dfas = {n: self.matches(n) for n in names}
        words = []
        for ln in range(0, maxlen + 1):
            for ctx in range(self.A.nsym):
                for w in itertools.product(range(self.A.k), repeat=ln):
                    words.append((ctx,) + w)
                    if len(words) > 60000:
                        break
        words.extend(tuple(w) for w in extra_words)
        for w in words:
            variant = rnd.randrange(1 << 20) if total % 2 else 0
            ctx, text = self.word_string(list(w), variant)
            s = ctx + text
            for n in names:
                exp = comp[n].match(s, len(ctx)) is not None
                got = dfas[n].accepts(w)
                total += 1
                if exp != got:
                    bad.append((n, ctx, text, exp, got))
                    if len(bad) > 5:
                        return total, bad
        return total, bad


def rex_result(oid, ok, detail, function, witness=None, klass="P", t0=None, output="", backend="rex-automata"):
    return Result(oid, DISCHARGED if ok else VIOLATED, klass=klass, backend=backend,
                  time_s=(time.time() - t0) if t0 else 0.0, detail=detail, function=function,
                  witness=witness, output=output)
