"""Code-point sets as sorted disjoint ranges over [0, 0x10FFFF] minus surrogates, and the
minterm partition induced by a family of sets."""
from __future__ import annotations

import re
import sys

MAXCP = 0x10FFFF
SUR_LO, SUR_HI = 0xD800, 0xDFFF


class CSet:
    __slots__ = ("r",)

    def __init__(self, ranges=()):
        self.r = self._norm(ranges)

    @staticmethod
    def _norm(ranges):
        rs = sorted((lo, hi) for lo, hi in ranges if lo <= hi)
        out = []
        for lo, hi in rs:
            if out and lo <= out[-1][1] + 1:
                out[-1] = (out[-1][0], max(out[-1][1], hi))
            else:
                out.append((lo, hi))
        return tuple(out)

    @classmethod
    def of(cls, *cps):
        return cls([(c, c) for c in cps])

    @classmethod
    def full(cls):
        return cls([(0, SUR_LO - 1), (SUR_HI + 1, MAXCP)])

    def union(self, o):
        return CSet(self.r + o.r)

    def complement(self):
        out, prev = [], 0
        for lo, hi in self.r:
            if lo > prev:
                out.append((prev, lo - 1))
            prev = hi + 1
        if prev <= MAXCP:
            out.append((prev, MAXCP))
        return CSet(out).intersect(CSet.full())

    def intersect(self, o):
        out, i, j = [], 0, 0
        a, b = self.r, o.r
        while i < len(a) and j < len(b):
            lo, hi = max(a[i][0], b[j][0]), min(a[i][1], b[j][1])
            if lo <= hi:
                out.append((lo, hi))
            if a[i][1] < b[j][1]:
                i += 1
            else:
                j += 1
        return CSet(out)

    def minus(self, o):
        return self.intersect(o.complement())

    def empty(self):
        return not self.r

    def contains(self, cp):
        return any(lo <= cp <= hi for lo, hi in self.r)

    def size(self):
        return sum(hi - lo + 1 for lo, hi in self.r)

    def sample(self, k=0):
        """k-th smallest member (k wraps)."""
        n = self.size()
        k %= n
        for lo, hi in self.r:
            if k <= hi - lo:
                return lo + k
            k -= hi - lo + 1

    def __eq__(self, o):
        return self.r == o.r

    def __hash__(self):
        return hash(self.r)

    def __repr__(self):
        def ch(c):
            return repr(chr(c)) if 32 <= c < 127 else "U+%04X" % c
        return "{" + ",".join(ch(lo) if lo == hi else "%s-%s" % (ch(lo), ch(hi)) for lo, hi in self.r[:6]) + \
               (",..." if len(self.r) > 6 else "") + "}"


_cat_cache = {}


def category(name: str, flags=0) -> CSet:
    """\\w \\s \\d as computed by the running CPython (str patterns are Unicode-aware)."""
    key = (name, bool(flags & re.ASCII))
    if key in _cat_cache:
        return _cat_cache[key]
    pat = re.compile({"word": r"\w", "space": r"\s", "digit": r"\d"}[name], flags & re.ASCII)
    ranges, start = [], None
    for cp in range(0, MAXCP + 1):
        if SUR_LO <= cp <= SUR_HI:
            m = False
        else:
            m = pat.match(chr(cp)) is not None
        if m and start is None:
            start = cp
        elif not m and start is not None:
            ranges.append((start, cp - 1))
            start = None
    if start is not None:
        ranges.append((start, MAXCP))
    cs = CSet(ranges)
    _cat_cache[key] = cs
    return cs


def minterms(sets):
    """Partition of the full alphabet into blocks on which every given set is constant.
    Returns list of CSet blocks."""
    cuts = {0, MAXCP + 1, SUR_LO, SUR_HI + 1}
    for s in sets:
        for lo, hi in s.r:
            cuts.add(lo)
            cuts.add(hi + 1)
    cuts = sorted(cuts)
    # elementary intervals, grouped by signature
    groups = {}
    for lo, nxt in zip(cuts, cuts[1:]):
        hi = nxt - 1
        if lo > MAXCP:
            break
        if SUR_LO <= lo <= SUR_HI:
            continue
        sig = tuple(s.contains(lo) for s in sets)
        groups.setdefault(sig, []).append((lo, hi))
    return [CSet(v) for v in groups.values()]
