"""Extract the regular-expression literals and the matcher cascade from the real lexer source."""
from __future__ import annotations

import ast
import re

from ..core import read_repo


class Matcher:
    def __init__(self, name, pattern, flags, lineno, src):
        self.name, self.pattern, self.flags, self.lineno, self.src = name, pattern, flags, lineno, src

    def __repr__(self):
        return "Matcher(%s %r flags=%d)" % (self.name, self.pattern[:40], self.flags)


def const_str(node, consts):
    if isinstance(node, ast.Constant) and isinstance(node.value, str):
        return node.value
    if isinstance(node, ast.Name) and node.id in consts:
        return consts[node.id]
    if isinstance(node, ast.BinOp) and isinstance(node.op, ast.Add):
        a, b = const_str(node.left, consts), const_str(node.right, consts)
        if a is not None and b is not None:
            return a + b
    return None


def flags_value(node):
    if node is None:
        return 0
    try:
        return int(eval(compile(ast.Expression(node), "<flags>", "eval"), {"re": re}))
    except Exception:
        return None


def lexer_matchers():
    """(cascade order [names], {name: [Matcher,...]}) from mako/lexer.py"""
    src = read_repo("mako/lexer.py")
    tree = ast.parse(src)
    cls = next(n for n in tree.body if isinstance(n, ast.ClassDef) and n.name == "Lexer")
    methods = {n.name: n for n in cls.body if isinstance(n, ast.FunctionDef)}
    order = []
    parse = methods["parse"]
    loop = next(n for n in ast.walk(parse) if isinstance(n, ast.While))
    for st in loop.body:
        if isinstance(st, ast.If) and isinstance(st.test, ast.Call) and isinstance(st.test.func, ast.Attribute) \
                and st.test.func.attr.startswith("match_"):
            action = "break" if any(isinstance(x, ast.Break) for x in st.body) else "continue"
            order.append((st.test.func.attr, action))
    table = {}
    for name, fn in methods.items():
        consts = {}
        for n in ast.walk(fn):
            if isinstance(n, ast.Assign) and len(n.targets) == 1 and isinstance(n.targets[0], ast.Name):
                v = const_str(n.value, consts)
                if v is not None:
                    consts[n.targets[0].id] = v
        ms = []
        for n in ast.walk(fn):
            if isinstance(n, ast.Call) and isinstance(n.func, ast.Attribute) and n.func.attr == "match" \
                    and isinstance(n.func.value, ast.Name) and n.func.value.id == "self" and n.args:
                pat = const_str(n.args[0], consts)
                fl = flags_value(n.args[1] if len(n.args) > 1 else None)
                ms.append(Matcher(name, pat, fl, n.lineno, ast.get_source_segment(src, n)))
        ms.sort(key=lambda m: m.lineno)
        table[name] = ms
    return order, table, src


def all_regex_literals(relpath):
    """every string literal passed as first argument to re.* / self.match in a repo file"""
    src = read_repo(relpath)
    tree = ast.parse(src)
    out = []
    for n in ast.walk(tree):
        if isinstance(n, ast.Call) and n.args:
            f = n.func
            is_re = isinstance(f, ast.Attribute) and isinstance(f.value, ast.Name) and f.value.id == "re" \
                and f.attr in ("compile", "match", "search", "sub", "split", "findall", "fullmatch")
            is_m = isinstance(f, ast.Attribute) and f.attr == "match" and isinstance(f.value, ast.Name) and f.value.id == "self"
            if is_re or is_m:
                pat = const_str(n.args[0], {})
                if pat is None:
                    continue
                fl = 0
                for a in n.args[1:]:
                    v = flags_value(a)
                    if isinstance(v, int) and not isinstance(a, ast.Constant):
                        fl = v
                for k in n.keywords:
                    if k.arg == "flags":
                        fl = flags_value(k.value) or 0
                out.append((pat, fl, n.lineno))
    return out
