"""Finite automata over a small (minterm) alphabet: the exact back end of rex.

DFA: complete, states 0..n-1, delta[s] is a list indexed by symbol; `acc` a set.
Symbols 0..k-1 are the minterm blocks; symbol k is the context marker BOS (beginning of
string), used only as the first letter of "context-prefixed" words  c·w  (c = the character
before the current position or BOS, w = the remaining text)."""
from __future__ import annotations

from collections import deque


class DFA:
    def __init__(self, nsym, delta, start, acc):
        self.nsym, self.delta, self.start, self.acc = nsym, delta, start, set(acc)

    @property
    def n(self):
        return len(self.delta)

    # -- construction helpers ------------------------------------------------
    @staticmethod
    def empty(nsym):
        return DFA(nsym, [[0] * nsym], 0, set())

    def complete_copy(self):
        return DFA(self.nsym, [list(r) for r in self.delta], self.start, set(self.acc))

    def complement(self):
        return DFA(self.nsym, self.delta, self.start, set(range(self.n)) - self.acc)

    def product(self, o, op):
        assert self.nsym == o.nsym
        idx, delta, acc = {}, [], set()
        q = deque()

        def get(a, b):
            k = (a, b)
            if k not in idx:
                idx[k] = len(delta)
                delta.append(None)
                q.append(k)
            return idx[k]
        s = get(self.start, o.start)
        while q:
            a, b = q.popleft()
            i = idx[(a, b)]
            delta[i] = [get(self.delta[a][c], o.delta[b][c]) for c in range(self.nsym)]
            if op(a in self.acc, b in o.acc):
                acc.add(i)
        return DFA(self.nsym, delta, s, acc).minimize()

    def intersect(self, o):
        return self.product(o, lambda x, y: x and y)

    def union(self, o):
        return self.product(o, lambda x, y: x or y)

    def minus(self, o):
        return self.product(o, lambda x, y: x and not y)

    def reachable(self):
        seen, q = {self.start}, deque([self.start])
        while q:
            s = q.popleft()
            for t in self.delta[s]:
                if t not in seen:
                    seen.add(t)
                    q.append(t)
        return seen

    def is_empty(self):
        return not (self.reachable() & self.acc)

    def witness(self):
        """shortest accepted word (list of symbols) or None"""
        prev = {self.start: None}
        q = deque([self.start])
        while q:
            s = q.popleft()
            if s in self.acc:
                w = []
                while prev[s] is not None:
                    s, c = prev[s]
                    w.append(c)
                return w[::-1]
            for c, t in enumerate(self.delta[s]):
                if t not in prev:
                    prev[t] = (s, c)
                    q.append(t)
        return None

    def witnesses(self, k=5, maxlen=12):
        """up to k distinct short accepted words"""
        out, q = [], deque([(self.start, [])])
        seen_cnt = {}
        while q and len(out) < k:
            s, w = q.popleft()
            if s in self.acc:
                out.append(w)
            if len(w) >= maxlen:
                continue
            for c, t in enumerate(self.delta[s]):
                key = (t, len(w) + 1)
                seen_cnt[key] = seen_cnt.get(key, 0) + 1
                if seen_cnt[key] <= 2:
                    q.append((t, w + [c]))
        return out

    def minimize(self):
        reach = sorted(self.reachable())
        remap = {s: i for i, s in enumerate(reach)}
        delta = [[remap[t] for t in self.delta[s]] for s in reach]
        acc = {remap[s] for s in self.acc if s in remap}
        n = len(delta)
        # Moore partition refinement
        part = [1 if i in acc else 0 for i in range(n)]
        while True:
            sig = {}
            newp = []
            for i in range(n):
                k = (part[i],) + tuple(part[t] for t in delta[i])
                if k not in sig:
                    sig[k] = len(sig)
                newp.append(sig[k])
            if len(sig) == len(set(part)):
                part = newp
                break
            part = newp
        m = len(set(part))
        nd = [None] * m
        for i in range(n):
            if nd[part[i]] is None:
                nd[part[i]] = [part[t] for t in delta[i]]
        return DFA(self.nsym, nd, part[remap[self.start]], {part[i] for i in acc})

    def equals(self, o):
        return self.minus(o).is_empty() and o.minus(self).is_empty()

    def subset_of(self, o):
        return self.minus(o).is_empty()

    def accepts(self, word):
        s = self.start
        for c in word:
            s = self.delta[s][c]
        return s in self.acc


class NFA:
    """epsilon-NFA; trans[s] = list of (frozenset(symbols), target); eps[s] = set(targets)."""

    def __init__(self, nsym):
        self.nsym = nsym
        self.trans, self.eps = [], []
        self.start, self.acc = None, set()

    def new(self):
        self.trans.append([])
        self.eps.append(set())
        return len(self.trans) - 1

    def closure(self, states):
        st, todo = set(states), list(states)
        while todo:
            s = todo.pop()
            for t in self.eps[s]:
                if t not in st:
                    st.add(t)
                    todo.append(t)
        return frozenset(st)

    def determinize(self):
        start = self.closure([self.start])
        idx = {start: 0}
        delta, acc = [None], set()
        q = deque([start])
        while q:
            S = q.popleft()
            i = idx[S]
            row = []
            for c in range(self.nsym):
                T = set()
                for s in S:
                    for syms, t in self.trans[s]:
                        if c in syms:
                            T.add(t)
                T = self.closure(T)
                if T not in idx:
                    idx[T] = len(delta)
                    delta.append(None)
                    q.append(T)
                row.append(idx[T])
            delta[i] = row
            if S & self.acc:
                acc.add(i)
        return DFA(self.nsym, delta, 0, acc).minimize()
