"""Exponential degree of ambiguity (EDA) of a pattern's Glushkov position automaton.

A backtracking matcher explores, in the worst case, every path of the position automaton
that is labelled by a prefix of the input.  The number of such paths grows exponentially in
the input length iff the automaton has EDA: a state p and a word w with two distinct paths
p -w-> p.  Decision (Weber/Seidl): in the product automaton A x A, some strongly connected
component contains a diagonal pair (p,p) and an off-diagonal pair (q,r), q != r."""
from __future__ import annotations

from collections import deque

from .lang import strip_lookaround, Alphabet
from .regex import walk


class Glushkov:
    def __init__(self, node, alphabet: Alphabet):
        self.A = alphabet
        self.syms = [None]             # syms[0] unused (initial state)
        self.follow = [set()]
        node = strip_lookaround(node)
        nullable, first, last = self._build(node)
        self.first, self.last, self.nullable = first, last, nullable
        self.follow[0] = set(first)
        self.n = len(self.syms)

    def _new(self, cs):
        self.syms.append(self.A.syms(cs))
        self.follow.append(set())
        return len(self.syms) - 1

    def _build(self, n):
        k = n[0]
        if k == "eps":
            return True, set(), set()
        if k == "set":
            p = self._new(n[1])
            return False, {p}, {p}
        if k == "group":
            return self._build(n[2])
        if k == "cat":
            nullable, first, last = True, set(), set()
            for c in n[1]:
                cn, cf, cl = self._build(c)
                for p in last:
                    self.follow[p] |= cf
                if nullable:
                    first |= cf
                last = (last | cl) if cn else set(cl)
                nullable = nullable and cn
            return nullable, first, last
        if k == "alt":
            nullable, first, last = False, set(), set()
            for c in n[1]:
                cn, cf, cl = self._build(c)
                nullable |= cn
                first |= cf
                last |= cl
            return nullable, first, last
        if k == "star":
            cn, cf, cl = self._build(n[1])
            for p in cl:
                self.follow[p] |= cf
            return True, cf, cl
        raise ValueError(k)

    def reachable(self):
        seen, q = {0}, deque([0])
        while q:
            s = q.popleft()
            for t in self.follow[s]:
                if t not in seen:
                    seen.add(t)
                    q.append(t)
        return seen


def eda_witness(g: Glushkov):
    """None if the automaton has no EDA, else (prefix word, pump word) over minterm symbols."""
    reach = g.reachable() - {0}
    pairs = [(p, q) for p in reach for q in reach]
    idx = {pq: i for i, pq in enumerate(pairs)}
    succ = [[] for _ in pairs]
    for (p, q), i in idx.items():
        for p2 in g.follow[p]:
            for q2 in g.follow[q]:
                common = g.syms[p2] & g.syms[q2]
                if common:
                    succ[i].append((idx[(p2, q2)], min(common)))
    # Tarjan SCC (iterative)
    n = len(pairs)
    index, low, onst, comp = [None] * n, [0] * n, [False] * n, [None] * n
    stack, counter, ncomp = [], [0], [0]
    for root in range(n):
        if index[root] is not None:
            continue
        work = [(root, 0)]
        while work:
            v, pi = work.pop()
            if pi == 0:
                index[v] = low[v] = counter[0]
                counter[0] += 1
                stack.append(v)
                onst[v] = True
            recurse = False
            for j in range(pi, len(succ[v])):
                w = succ[v][j][0]
                if index[w] is None:
                    work.append((v, j + 1))
                    work.append((w, 0))
                    recurse = True
                    break
                elif onst[w]:
                    low[v] = min(low[v], index[w])
            if recurse:
                continue
            if low[v] == index[v]:
                while True:
                    w = stack.pop()
                    onst[w] = False
                    comp[w] = ncomp[0]
                    if w == v:
                        break
                ncomp[0] += 1
            if work:
                u = work[-1][0]
                low[u] = min(low[u], low[v])
    by_comp = {}
    for i, c in enumerate(comp):
        by_comp.setdefault(c, []).append(i)
    for c, members in by_comp.items():
        diag = [i for i in members if pairs[i][0] == pairs[i][1]]
        off = [i for i in members if pairs[i][0] != pairs[i][1]]
        if not diag or not off:
            continue
        # a non-trivial SCC is needed (a cycle): the pair must reach itself
        ms = set(members)
        d, o = diag[0], off[0]
        w1 = _path(succ, d, o, ms)
        w2 = _path(succ, o, d, ms)
        if w1 is None or w2 is None:
            continue
        prefix = _prefix_to(g, pairs[d][0])
        return prefix, w1 + w2
    return None


def _path(succ, a, b, allowed):
    prev = {a: None}
    q = deque([a])
    while q:
        v = q.popleft()
        for w, sym in succ[v]:
            if w in allowed and w not in prev:
                prev[w] = (v, sym)
                if w == b:
                    out = []
                    while prev[w] is not None:
                        w, s = prev[w]
                        out.append(s)
                    return out[::-1]
                q.append(w)
    if a == b:
        # self reachability through a cycle
        for w, sym in succ[a]:
            if w in allowed:
                rest = _path(succ, w, a, allowed) if w != a else []
                if rest is not None:
                    return [sym] + rest
    return None


def _prefix_to(g: Glushkov, p):
    prev = {0: None}
    q = deque([0])
    while q:
        v = q.popleft()
        if v == p:
            out = []
            while prev[v] is not None:
                v, s = prev[v]
                out.append(s)
            return out[::-1]
        for w in g.follow[v]:
            if w not in prev:
                prev[w] = (v, min(g.syms[w]))
                q.append(w)
    return []


def count_paths_bruteforce(g: Glushkov, word):
    """number of distinct paths labelled by `word` from the initial state (cross-check)."""
    cur = {0: 1}
    for a in word:
        nxt = {}
        for s, c in cur.items():
            for t in g.follow[s]:
                if a in g.syms[t]:
                    nxt[t] = nxt.get(t, 0) + c
        cur = nxt
    return sum(cur.values())
