"""Remaining-text languages of real patterns over a minterm alphabet (DESIGN 2.2).

A *context-prefixed word*  c·w  has c = the character just before the current position (or
BOS) and w = the remaining text.  Rest(p, K) is the set of context-prefixed words on which
pattern p matches a prefix u of w and  last(c·u)·(w without u)  lies in K."""
from __future__ import annotations

from .automata import DFA, NFA
from .charset import CSet, minterms
from .regex import RexUnsupported, charsets, is_plain, walk, expand_refs, EPS


class Alphabet:
    def __init__(self, nodes, extra_sets=()):
        sets = []
        for n in nodes:
            sets.extend(charsets(n))
        sets.extend(extra_sets)
        sets.append(CSet.of(10))          # newline is always distinguished (anchors)
        uniq = list({s.r: s for s in sets}.values())
        self.blocks = minterms(uniq)
        self.k = len(self.blocks)
        self.BOS = self.k
        self.nsym = self.k + 1
        self._cache = {}

    def syms(self, cs: CSet):
        key = cs.r
        r = self._cache.get(key)
        if r is None:
            out = []
            for i, b in enumerate(self.blocks):
                inter = b.intersect(cs)
                if inter.empty():
                    continue
                if inter.size() != b.size():
                    raise RexUnsupported("character set %r is not a union of minterm blocks" % (cs,))
                out.append(i)
            r = frozenset(out)
            self._cache[key] = r
        return r

    def sym_of(self, cp):
        for i, b in enumerate(self.blocks):
            if b.contains(cp):
                return i
        raise ValueError(cp)

    @property
    def text_syms(self):
        return frozenset(range(self.k))

    @property
    def all_syms(self):
        return frozenset(range(self.nsym))

    # ---- standard languages ----------------------------------------------
    def All(self):
        """every context-prefixed word: one arbitrary symbol, then text symbols"""
        d = [[1] * self.nsym, [1] * self.k + [2], [2] * self.nsym]
        return DFA(self.nsym, d, 0, {1})

    def first_in(self, symset):
        """context-prefixed words whose context symbol lies in symset"""
        d = [[1 if c in symset else 2 for c in range(self.nsym)], [1] * self.k + [2], [2] * self.nsym]
        return DFA(self.nsym, d, 0, {1})

    def empty_rest(self):
        """words c with no remaining text"""
        d = [[1] * self.nsym, [2] * self.nsym, [2] * self.nsym]
        return DFA(self.nsym, d, 0, {1})

    def nonempty_rest(self):
        return self.All().minus(self.empty_rest())

    def rest_starts_with(self, symset):
        d = [[1] * self.nsym, [2 if c in symset else 3 for c in range(self.nsym)], [2] * self.k + [3], [3] * self.nsym]
        return DFA(self.nsym, d, 0, {2})

    def word_to_string(self, word, variant=0):
        """(context char or None for BOS, remaining text) for a context-prefixed word"""
        def ch(sym):
            return chr(self.blocks[sym].sample(variant))
        ctx = None if word[0] == self.BOS else ch(word[0])
        return ctx, "".join(ch(s) for s in word[1:])


class Lang:
    def __init__(self, alphabet: Alphabet):
        self.A = alphabet

    # ---- plain (assertion-free) regex -> eps-NFA over text symbols ---------
    def plain_nfa(self, node):
        N = NFA(self.A.nsym)

        def build(n):
            k = n[0]
            s, t = N.new(), N.new()
            if k == "eps":
                N.eps[s].add(t)
            elif k == "set":
                N.trans[s].append((self.A.syms(n[1]), t))
            elif k == "cat":
                cur = s
                for c in n[1]:
                    a, b = build(c)
                    N.eps[cur].add(a)
                    cur = b
                N.eps[cur].add(t)
            elif k == "alt":
                for c in n[1]:
                    a, b = build(c)
                    N.eps[s].add(a)
                    N.eps[b].add(t)
            elif k == "star":
                a, b = build(n[1])
                N.eps[s].update((a, t))
                N.eps[b].update((a, t))
            elif k == "group":
                a, b = build(n[2])
                N.eps[s].add(a)
                N.eps[b].add(t)
            else:
                raise RexUnsupported("not plain: %s" % k)
            return s, t
        s, t = build(node)
        N.start, N.acc = s, {t}
        return N

    def rest_plain(self, node, R: DFA) -> DFA:
        """Rest(node, R) for an assertion-free node: run node's NFA on a prefix of the text while
        remembering the last symbol, then hand (last symbol · remainder) to R."""
        P = self.plain_nfa(node)
        M = NFA(self.A.nsym)
        S0 = M.new()
        pid = {}

        def st(q, last):
            key = (q, last)
            if key not in pid:
                pid[key] = M.new()
            return pid[key]
        rid = {}

        def rs(r):
            if r not in rid:
                rid[r] = M.new()
            return rid[r]
        # R part
        for r in range(R.n):
            rs(r)
        for r in range(R.n):
            by_t = {}
            for c in range(self.A.k):        # text symbols only after the context symbol
                by_t.setdefault(R.delta[r][c], set()).add(c)
            for t, cs in by_t.items():
                M.trans[rid[r]].append((frozenset(cs), rid[t]))
            if r in R.acc:
                M.acc.add(rid[r])
        for last in range(self.A.nsym):
            M.trans[S0].append((frozenset([last]), st(P.start, last)))
            for q in range(len(P.trans)):
                me = st(q, last)
                for t in P.eps[q]:
                    M.eps[me].add(st(t, last))
                for syms, t in P.trans[q]:
                    for a in syms:
                        M.trans[me].append((frozenset([a]), st(t, a)))
                if q in P.acc:
                    M.eps[me].add(rid[R.delta[R.start][last]])
        M.start = S0
        return M.determinize()

    # ---- general sequence with assertions ----------------------------------
    def rest(self, node, R: DFA) -> DFA:
        A = self.A
        k = node[0]
        if is_plain(node):
            return self.rest_plain(node, R)
        if k == "cat":
            # group maximal plain runs
            items = node[1]
            cur = R
            i = len(items)
            while i > 0:
                j = i
                while j > 0 and is_plain(items[j - 1]):
                    j -= 1
                if j < i:
                    run = items[j:i]
                    cur = self.rest_plain(run[0] if len(run) == 1 else ("cat", run), cur)
                    i = j
                else:
                    cur = self.rest(items[i - 1], cur)
                    i -= 1
            return cur
        if k == "alt":
            out = None
            for c in node[1]:
                d = self.rest(c, R)
                out = d if out is None else out.union(d)
            return out
        if k == "group":
            return self.rest(node[2], R)
        if k == "la":
            inner = self.rest(node[1], A.All())
            if node[2]:
                inner = A.All().minus(inner)
            return inner.intersect(R)
        if k == "lb":
            inner, neg = node[1], node[2]
            if inner[0] == "set":
                S = A.syms(inner[1])
            elif inner[0] == "at" and inner[1] in ("bol", "bos"):
                S = frozenset([A.BOS]) | (A.syms(CSet.of(10)) if inner[1] == "bol" else frozenset())
            else:
                raise RexUnsupported("look-behind other than a single character class or ^")
            if neg:
                S = A.all_syms - S
            return A.first_in(S).intersect(R)
        if k == "at":
            kind = node[1]
            nl = A.syms(CSet.of(10))
            if kind == "bos":
                return A.first_in(frozenset([A.BOS])).intersect(R)
            if kind == "bol":
                return A.first_in(frozenset([A.BOS]) | nl).intersect(R)
            if kind == "eos":
                return A.empty_rest().intersect(R)
            if kind == "eol_m":
                return A.empty_rest().union(A.rest_starts_with(nl)).intersect(R)
            if kind == "eol":
                # end of string, or just before a final newline
                d = [[1] * A.nsym, [2 if c in nl else 3 for c in range(A.nsym)], [3] * A.nsym, [3] * A.nsym]
                return DFA(A.nsym, d, 0, {1, 2}).intersect(R)
            raise RexUnsupported("anchor %s" % kind)
        if k == "star":
            raise RexUnsupported("assertion inside a repetition")
        raise RexUnsupported("node %s" % k)

    def matches(self, node) -> DFA:
        """context-prefixed words on which the pattern matches at the current position"""
        return self.rest(node, self.A.All())


def zero_width_alternatives(node):
    """For a pattern of shape  (X*?)(B1|...|Bn)  [the text matcher]: the alternatives Bi that can
    only match the empty string, in order, up to the first one that can consume text."""
    if node[0] != "cat" or len(node[1]) < 2:
        raise RexUnsupported("not of the shape lazy-star followed by alternatives")
    head, tail = node[1][0], node[1][1]
    h = head[2] if head[0] == "group" else head
    if not (h[0] == "star" and h[2]):
        raise RexUnsupported("leading part is not a lazy star")
    t = tail[2] if tail[0] == "group" else tail
    if t[0] != "alt":
        raise RexUnsupported("second part is not an alternation")
    return h, t[1]


def consumes(node):
    """can the node match a non-empty string?"""
    return any(x[0] == "set" for x in walk(strip_lookaround(node)))


def strip_lookaround(n):
    k = n[0]
    if k in ("la", "lb", "at"):
        return EPS
    if k in ("cat", "alt"):
        return (k, [strip_lookaround(c) for c in n[1]])
    if k == "star":
        return ("star", strip_lookaround(n[1]), n[2])
    if k == "group":
        return ("group", n[1], strip_lookaround(n[2]))
    return n
