"""Real `re` patterns (parsed by CPython's own re._parser) as a small normalised AST."""
from __future__ import annotations

import re
import re._parser as sre_parse
import re._constants as C

from .charset import CSet, category


class RexUnsupported(Exception):
    """Pattern feature outside the rules of DESIGN 2.2: reported as undecided, never guessed."""


# node kinds: ("set", CSet) ("cat", [n]) ("alt", [n]) ("star", n, lazy) ("group", idx, n)
#             ("la", n, neg) ("lb", n, neg) ("at", kind) ("ref", idx) ("eps",)

def parse(pattern: str, flags: int = 0):
    tree = sre_parse.parse(pattern, flags)
    flags = tree.state.flags
    return conv_seq(list(tree), flags), flags


def conv_seq(items, flags):
    out = [conv(op, av, flags) for op, av in items]
    if len(out) == 1:
        return out[0]
    return ("cat", out)


def case_closure(cs: CSet) -> CSet:
    if cs.size() > 400:
        return cs
    extra = []
    for lo, hi in cs.r:
        for cp in range(lo, hi + 1):
            ch = chr(cp)
            for v in (ch.lower(), ch.upper(), ch.swapcase()):
                if len(v) == 1:
                    extra.append((ord(v), ord(v)))
    return cs.union(CSet(extra))


def conv_in(av, flags) -> CSet:
    neg = False
    cs = CSet()
    for op, a in av:
        if op is C.NEGATE:
            neg = True
        elif op is C.LITERAL:
            cs = cs.union(CSet.of(a))
        elif op is C.RANGE:
            cs = cs.union(CSet([(a[0], a[1])]))
        elif op is C.CATEGORY:
            cs = cs.union(conv_category(a, flags))
        else:
            raise RexUnsupported("set item %s" % op)
    if flags & re.IGNORECASE:
        cs = case_closure(cs)
    if neg:
        cs = cs.complement()
    return cs


def conv_category(a, flags) -> CSet:
    name = str(a)
    table = {"CATEGORY_WORD": ("word", False), "CATEGORY_NOT_WORD": ("word", True),
             "CATEGORY_SPACE": ("space", False), "CATEGORY_NOT_SPACE": ("space", True),
             "CATEGORY_DIGIT": ("digit", False), "CATEGORY_NOT_DIGIT": ("digit", True)}
    if name not in table:
        raise RexUnsupported("category %s" % name)
    nm, neg = table[name]
    cs = category(nm, flags)
    return cs.complement() if neg else cs


def conv(op, av, flags):
    if op is C.LITERAL:
        cs = CSet.of(av)
        if flags & re.IGNORECASE:
            cs = case_closure(cs)
        return ("set", cs)
    if op is C.NOT_LITERAL:
        cs = CSet.of(av)
        if flags & re.IGNORECASE:
            cs = case_closure(cs)
        return ("set", cs.complement())
    if op is C.ANY:
        return ("set", CSet.full() if flags & re.DOTALL else CSet.of(10).complement())
    if op is C.IN:
        return ("set", conv_in(av, flags))
    if op is C.BRANCH:
        return ("alt", [conv_seq(list(b), flags) for b in av[1]])
    if op is C.SUBPATTERN:
        idx, add, dele, p = av
        f2 = (flags | add) & ~dele
        inner = conv_seq(list(p), f2)
        return ("group", idx, inner) if idx is not None else inner
    if op in (C.MAX_REPEAT, C.MIN_REPEAT) or str(op) == "POSSESSIVE_REPEAT":
        lo, hi, p = av
        inner = conv_seq(list(p), flags)
        lazy = op is C.MIN_REPEAT
        return repeat(inner, lo, hi, lazy)
    if op is C.AT:
        name = str(av)
        kind = {"AT_BEGINNING": "bol" if flags & re.MULTILINE else "bos", "AT_BEGINNING_STRING": "bos",
                "AT_BEGINNING_LINE": "bol", "AT_END": "eol_m" if flags & re.MULTILINE else "eol",
                "AT_END_LINE": "eol_m", "AT_END_STRING": "eos"}.get(name)
        if kind is None:
            raise RexUnsupported("anchor %s" % name)
        return ("at", kind)
    if op in (C.ASSERT, C.ASSERT_NOT):
        direction, p = av
        inner = conv_seq(list(p), flags)
        neg = op is C.ASSERT_NOT
        return ("la" if direction > 0 else "lb", inner, neg)
    if op is C.GROUPREF:
        return ("ref", av)
    if str(op) == "ATOMIC_GROUP":
        return conv_seq(list(av), flags)
    raise RexUnsupported("regex op %s" % op)


EPS = ("eps",)


def repeat(inner, lo, hi, lazy):
    inf = hi == C.MAXREPEAT
    parts = [inner] * lo
    if inf:
        parts.append(("star", inner, lazy))
    else:
        if hi - lo > 8:
            raise RexUnsupported("bounded repeat {%d,%d}" % (lo, hi))
        for _ in range(hi - lo):
            parts.append(("alt", [EPS, inner] if lazy else [inner, EPS]))
    if not parts:
        return EPS
    return parts[0] if len(parts) == 1 else ("cat", parts)


def walk(n):
    yield n
    k = n[0]
    if k in ("cat", "alt"):
        for c in n[1]:
            yield from walk(c)
    elif k == "star":
        yield from walk(n[1])
    elif k == "group":
        yield from walk(n[2])
    elif k in ("la", "lb"):
        yield from walk(n[1])


def charsets(n):
    return [x[1] for x in walk(n) if x[0] == "set"]


def is_plain(n):
    return not any(x[0] in ("la", "lb", "at", "ref") for x in walk(n))


def expand_refs(n):
    """Back-references to a group that is a finite alternation of literal strings are expanded
    into a union over the alternatives (the only back-reference in the lexer is of this shape)."""
    refs = {x[1] for x in walk(n) if x[0] == "ref"}
    if not refs:
        return n
    if len(refs) != 1:
        raise RexUnsupported("several back-references")
    idx = refs.pop()
    grp = next((x for x in walk(n) if x[0] == "group" and x[1] == idx), None)
    if grp is None or grp[2][0] != "alt":
        raise RexUnsupported("back-reference to a non-finite group")
    alts = grp[2][1]
    for a in alts:
        if not all(x[0] in ("cat", "set") and (x[0] != "set" or x[1].size() == 1) for x in walk(a)):
            raise RexUnsupported("back-reference to a group that is not a set of literal strings")

    def subst(m, alt):
        k = m[0]
        if k == "group" and m[1] == idx:
            return alt
        if k == "ref":
            return alt
        if k in ("cat", "alt"):
            return (k, [subst(c, alt) for c in m[1]])
        if k == "star":
            return ("star", subst(m[1], alt), m[2])
        if k == "group":
            return ("group", m[1], subst(m[2], alt))
        if k in ("la", "lb"):
            return (k, subst(m[1], alt), m[2])
        return m
    return ("alt", [subst(n, a) for a in alts])
