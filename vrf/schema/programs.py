"""Schema program families: one schematic template per construct kind x flag combination x position.
Children are holes  ${holeN()}  (arbitrary balanced content that may write, call other render
callables, or raise); expectations come from the *template's* flags, not from the generated code."""
from .core import SchemaProgram as P

UNCH = {"top": "unchanged"}

CORE = [
    P("plain-def", '<%def name="d(a)">x ${hole1()} y</%def>top ${hole2()} ${d(1)}'),
    P("buffered-def", '<%def name="d(a)" buffered="True">x ${hole1()} y</%def>top ${hole2()}${d(1)}', expect={"render_d": UNCH}),
    P("filtered-def", '<%def name="d(a)" filter="h">x ${hole1()} y</%def>top ${d(2)}'),
    P("buffered-filtered-def", '<%def name="d(a)" buffered="True" filter="h,trim">x ${hole1()} y</%def>${d(1)}', expect={"render_d": UNCH}),
    P("text-filter", 'a <%text filter="h">raw ${x}</%text> ${hole1()} b'),
    P("text-plain", 'a <%text>raw ${x} <%def></%text> ${hole1()} b'),
    P("for-loop", '% for i in seq:\n a ${loop.index} ${hole1()}\n% endfor\n ${hole2()}'),
    P("for-loop-nested", '% for i in seq:\n% for j in i:\n ${loop.index} ${loop.parent.index} ${hole1()}\n% endfor\n ${loop.index} ${hole2()}\n% endfor\n'),
    P("for-break-return", '% for i in seq:\n ${loop.index}\n% if i:\n<% break %>\n% elif hole1():\n<% return STOP_RENDERING %>\n% endif\n ${hole2()}\n% endfor\nafter ${hole3()}'),
    P("call-tag", '<%def name="d()">${hole0()}</%def><%call expr="d()" args="z">body ${hole1()} ${z}<%def name="inner()">in ${hole2()}</%def></%call>${hole3()}'),
    P("ns-call", '<%def name="d(x)">${hole0()}</%def><%self:d x="a${arghole1()}b">body ${hole2()}</%self:d>${hole3()}'),
    P("call-in-loop", '<%def name="d()">${hole0()}</%def>\n% for i in seq:\n<%call expr="d()">b ${hole1()}</%call> ${loop.index}\n% endfor\n${hole2()}'),
    P("include", 'a<%include file="o.html"/>${hole1()}<%include file="o.html" args="q=hole2()"/>', lookup_files={"/schema/o.html": "x"}),
    P("nested-def", '<%def name="outer()">o ${hole1()}<%def name="inner()">i ${hole2()}</%def>${inner()}</%def>${outer()}'),
    P("block", 'a<%block name="b1">in ${hole1()}</%block><%block>anon ${hole2()}</%block><%block name="b2" filter="h">f ${hole3()}</%block>'),
    P("control", '% if c:\n a ${hole1()}\n% elif d:\n b\n% else:\n c\n% endif\n% while w:\n ${hole2()}\n% endwhile\n% try:\n ${hole3()}\n% except:\n e ${hole4()}\n% endtry\n'),
    P("decorated-def", '<%! deco1 = lambda fn: (lambda context, *a, **k: fn(*a, **k)) %><%def name="d()" decorator="deco1">x ${hole1()}</%def>${d()}'),
    P("call-in-buffered-def", '<%def name="t()">${hole0()}</%def><%def name="d()" buffered="True">x <%call expr="t()">b ${hole1()}</%call> ${hole2()}</%def>${d()}', expect={"render_d": UNCH}),
    P("page-args", '<%page args="a, b=2"/>x ${a} ${hole1()}<% c = hole2() %>${c}'),
    P("capture", 'a ${capture(hole1)} ${hole2()}'),
    # an exception inside a call with content, caught in the same body: the next construct must not see a stale caller
    P("call-in-try", '<%def name="d()">${hole0()}</%def>\n% try:\n<%call expr="d()">b ${hole1()}</%call>\n% except:\ncaught ${hole2()}\n% endtry\n${hole3()}'),
    P("ns-call-in-try", '<%def name="d(x)">${hole0()}</%def>\n% try:\n<%self:d x="${arghole1()}">b ${hole2()}</%self:d>\n% except:\n${hole3()}\n% endtry\n${hole4()}'),
]


def family(tier):
    return list(CORE)
