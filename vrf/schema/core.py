"""E3 `schema`: schematic templates compiled by the *real* compiler; every generated function is
verified against the runtime contracts with the induction hypothesis for holes (R3)."""
from __future__ import annotations

import ast
import itertools
import time

from ..core import Result, DISCHARGED, VIOLATED, UNDECIDED, ERROR
from ..pyvc import spec as S
from ..pyvc.spec import Contract, Clause, _mk
from ..pyvc.types import parse_ty
from ..pyvc.engine import ModCtx, Engine, walk_defs
from ..pyvc.state import Unsupported

_counter = itertools.count()

BAL_MOD = ["{c}._buffer_stack", "{c}.caller_stack", "ptr({c}.caller_stack.nextcaller)",
           "heap('list:Str')", "heap('f:FastEncodingBuffer.data')", "heap('f:FastEncodingBuffer.write')",
           "heap('f:FastEncodingBuffer.encoding')", "heap('f:FastEncodingBuffer.errors')", "heap('f:FastEncodingBuffer.delim')",
           "fresh_heap('list:LoopContext')", "heap('f:LoopContext.index')", "fresh_heap('f:LoopContext.parent')",
           "fresh_heap('f:LoopContext._iterable')", "fresh_heap('f:LoopStack.stack')",
           "heap('f:Namespace.inherits')", "heap('f:Namespace.name')", "heap('f:Namespace.context')",
           "heap('f:Namespace.template')", "heap('f:Namespace._templateuri')", "heap('f:Namespace.callables')",
           "fresh_heap('f:Context._with_template')", "fresh_heap('f:Context._buffer_stack')",
           "fresh_heap('f:Context.caller_stack')", "fresh_heap('f:Context._data')", "fresh_heap('f:Context._kwargs')",
           "fresh_heap('f:Context.namespaces')", "fresh_heap('f:Context._outputting_as_unicode')",
           "G.nraised", "G.last_raised", "G.ncalls", "G.last_called", "G.last_ctx",
           "G.verdicts", "G.last_verdict", "G.last_judged", "G.inh_callable", "G.inh_ctx", "G.inh_truthy"]


def stack_posts(c, pushes_frame, top):
    """postconditions (normal and exceptional exit) of a generated callable over Context expression c.
    top: 'extended' | 'unchanged' | 'one-item' """
    top_e = "{c}._buffer_stack[len({c}._buffer_stack) - 1].data".format(c=c)
    posts = [
        ("buffer-stack-restored", "{c}._buffer_stack == old({c}._buffer_stack)"),
        ("caller-stack-restored", "{c}.caller_stack == old({c}.caller_stack)"),
        ("caller-restored", "same({c}.caller_stack.nextcaller, old({c}.caller_stack.nextcaller))"),
        ("existing-buffers-keep-their-writer",
         "forall(lambda b: implies(0 < b and b < old(alloc), same(bufdata(b), old(bufdata(b))) and same(bufwrite(b), old(bufwrite(b))) and bufenc(b) == old(bufenc(b))))"),
        ("buffers-below-the-top-untouched",
         "forall(lambda i: content({c}._buffer_stack[i].data) == old(content({c}._buffer_stack[i].data)), 0, len({c}._buffer_stack) - 1)"),
    ]
    if top == "extended":
        posts.append(("output-only-appended", "prefix_of(old(content(%s)), content(%s))" % (top_e, top_e)))
    elif top == "unchanged":
        posts.append(("nothing-written-to-the-callers-buffer", "content(%s) == old(content(%s))" % (top_e, top_e)))
    return [(l, e.format(c=c)) for l, e in posts]


def exc_posts(c, pushes_frame, top):
    """on an exception: stacks restored; what was written directly stays (prefix), abandoned buffers are gone"""
    p = stack_posts(c, pushes_frame, "extended" if top != "unchanged" else "unchanged")
    return p


WRITER_IS_TOP = Clause("writes-go-to-the-current-top-buffer",
                       "len({c}._buffer_stack) >= 1 and same(__M_writer, {c}._buffer_stack[len({c}._buffer_stack) - 1].data) and same({c}._buffer_stack[len({c}._buffer_stack) - 1].write, {c}._buffer_stack[len({c}._buffer_stack) - 1].data)")
HOLE_PRE = Clause("caller-is-reset-between-constructs", "{c}.caller_stack.nextcaller is None")


def name_type(nm):
    if nm == "context":
        return "Context"
    if nm == "__M_writer":
        return "Writer"
    if nm == "__M_buf":
        return "FastEncodingBuffer"
    if nm == "__M_loop":
        return "LoopStack"
    if nm == "__M_locals":
        return "Dict[Str,Any]"
    if nm.startswith("hole") or nm.startswith("arghole"):
        return "Fun[balanced]"
    if nm.startswith("filt"):
        return "Fun[pure_filter]"
    if nm.startswith("deco"):
        return "Fun[decorator]"
    return "Any"


class GenFunction:
    def __init__(self, qual, node, parents):
        self.qual, self.node, self.parents = qual, node, parents


def collect_functions(tree):
    out = []

    def rec(body, prefix, parents):
        for n in walk_defs(body):
            if isinstance(n, ast.FunctionDef):
                q = prefix + n.name
                out.append(GenFunction(q, n, list(parents)))
                rec(n.body, q + ".", parents + [n])
    rec(tree.body, "", [])
    return out


def bound_names(fn):
    names = {a.arg for a in fn.args.args + fn.args.kwonlyargs + fn.args.posonlyargs}
    if fn.args.vararg:
        names.add(fn.args.vararg.arg)
    if fn.args.kwarg:
        names.add(fn.args.kwarg.arg)
    todo = list(fn.body)
    while todo:
        n = todo.pop()
        if isinstance(n, ast.FunctionDef):
            names.add(n.name)
            continue
        if isinstance(n, ast.Lambda):
            continue
        if isinstance(n, ast.Name) and isinstance(n.ctx, ast.Store):
            names.add(n.id)
        if isinstance(n, ast.ExceptHandler) and n.name:
            names.add(n.name)
        todo.extend(ast.iter_child_nodes(n))
    return names


def loaded_names(fn):
    out = set()
    for n in ast.walk(fn):
        if isinstance(n, ast.Name) and isinstance(n.ctx, ast.Load):
            out.add(n.id)
    return out


def loops_of(fn):
    from ..pyvc.engine import own_nodes
    loops = [n for n in own_nodes(fn) if isinstance(n, (ast.For, ast.While))]
    return sorted(loops, key=lambda n: (n.lineno, n.col_offset))


def make_contract(modname, gf: GenFunction, expect, ctxname="context"):
    """generic contract of one generated function.  expect: dict with 'top' and 'pushes_frame'."""
    fn = gf.node
    params = {}
    for a in fn.args.args:
        params[a.arg] = name_type(a.arg)
    if fn.args.vararg:
        params["*" + fn.args.vararg.arg] = "Star"
    if fn.args.kwarg:
        params["**" + fn.args.kwarg.arg] = "Star"
    mine = bound_names(fn)
    captures = {}
    for nm in sorted(loaded_names(fn) - mine):
        if any(nm in bound_names(p) for p in gf.parents):
            captures[nm] = name_type(nm)
    c = ctxname
    mod = [m.format(c=c) for m in BAL_MOD]
    top = expect.get("top", "extended")
    pf = expect.get("pushes_frame", True)
    ens = stack_posts(c, pf, top)
    exc = exc_posts(c, pf, top)
    loops = {}
    for k, lp in enumerate(loops_of(fn)):
        inv = [
            ("loop:buffer-stack", "{c}._buffer_stack == pre({c}._buffer_stack)"),
            ("loop:caller-stack", "{c}.caller_stack == pre({c}.caller_stack)"),
            ("loop:caller-reset", "{c}.caller_stack.nextcaller is None"),
            ("loop:existing-buffers", "forall(lambda b: implies(0 < b and b < old(alloc), same(bufdata(b), old(bufdata(b))) and same(bufwrite(b), old(bufwrite(b))) and bufenc(b) == old(bufenc(b))))"),
            ("loop:writer", "same(__M_writer, pre(__M_writer))"),
            ("loop:below-top", "forall(lambda i: content({c}._buffer_stack[i].data) == old(content({c}._buffer_stack[i].data)), 0, len(old({c}._buffer_stack)) - 1)"),
            ("loop:top-extended", "implies(len({c}._buffer_stack) == len(old({c}._buffer_stack)), prefix_of(old(content({c}._buffer_stack[len({c}._buffer_stack) - 1].data)), content({c}._buffer_stack[len({c}._buffer_stack) - 1].data)))"),
        ]
        if "__M_loop" in mine or "__M_loop" in captures:
            inv.append(("loop:loop-stack", "__M_loop.stack == pre(__M_loop.stack)"))
            if "loop" in mine or "loop" in captures:
                inv.append(("loop:loop-is-innermost", "implies(len(__M_loop.stack) > 0, same(loop, __M_loop.stack[len(__M_loop.stack) - 1]))"))
        loops[k] = {"inv": [(l, e.format(c=c), "P") for l, e in inv], "modifies": mod}
    locs = {nm: name_type(nm) for nm in mine if name_type(nm) != "Any"}
    con = _mk("%s:%s" % (modname, gf.qual), params=params, returns="Any",
              requires=[("a-buffer-exists", "len(%s._buffer_stack) >= 1" % c),
                        ("caller-none-or-truthy", "isnone({c}.caller_stack.nextcaller) or truthy({c}.caller_stack.nextcaller)".format(c=c)),
                        ("wf-stack", "allocated(%s._buffer_stack)" % c, "I"),
                        ("writer-inv", "forall(lambda i: same({c}._buffer_stack[i].write, {c}._buffer_stack[i].data), 0, len({c}._buffer_stack))".format(c=c), "I"),
                        ("top-buffer-has-its-own-data", "forall(lambda i: not same({c}._buffer_stack[i].data, {c}._buffer_stack[len({c}._buffer_stack) - 1].data), 0, len({c}._buffer_stack) - 1)".format(c=c), "I")]
              + ([("captured-writer-is-top", WRITER_IS_TOP.expr.format(c=c))] if "__M_writer" in captures and expect.get("writer_captured_valid") else [])
              + ([("called-with-caller-reset", HOLE_PRE.expr.format(c=c))] if (not pf and any(nm.startswith("hole") for nm in mine)) else [])
              + [("render-has-a-template", "%s._with_template is not None" % c)],
              ensures=ens, raises={"*": {"ensures": exc}}, modifies=mod, loops=loops, captures=captures, locals=locs,
              props=expect.get("props", []), native_skip=True)
    con.opaque_attrs = True
    con.opaque_call_spec = "balanced"
    con.opaque_iter_spec = "opaque_iter"
    con.local_call_requires = {"__M_writer": [Clause(WRITER_IS_TOP.label, WRITER_IS_TOP.expr.format(c=c))]}
    for nm in mine | set(captures):
        if nm.startswith("hole"):
            con.local_call_requires[nm] = [Clause(HOLE_PRE.label, HOLE_PRE.expr.format(c=c))]
    return con


def _is_loop_enter(stmt):
    return (isinstance(stmt, ast.Assign) and isinstance(stmt.value, ast.Call)
            and isinstance(stmt.value.func, ast.Attribute) and stmt.value.func.attr == "_enter"
            and isinstance(stmt.value.func.value, ast.Name) and stmt.value.func.value.id == "__M_loop")


class GenEngine(Engine):
    """Engine for generated functions: adds the per-construct obligation that a `% for` which
    entered a loop context has left it again when the construct ends, however it ends."""

    def ex(self, stmts, st):
        import z3
        from ..pyvc import ops
        if len(stmts) >= 2 and _is_loop_enter(stmts[0]):
            ls = self.lookup("__M_loop", st)
            loopv = self.lookup("loop", st)
            if ls is not None and ls.ty.kind == "obj":
                before = st.list_get(st.get_field(ls, "stack")).t
                for kind, st2, p in self.ex1(stmts[0], st):
                    if kind != "next":
                        yield kind, st2, p
                        continue
                    for k2, st3, p2 in self.ex1(stmts[1], st2):
                        now = st3.list_get(st3.get_field(ls, "stack")).t
                        self.oblige(st3, now == before, "loop-stack-restored-after-for", "P", "construct",
                                    "after the `%% for` construct starting at generated line %d ends (%s), the loop stack is what it was before it"
                                    % (stmts[0].lineno, {"next": "normally", "raise": "by an exception", "return": "by return",
                                                         "break": "by break", "continue": "by continue"}[k2]))
                        cur = self.lookup("loop", st3)
                        if loopv is not None and cur is not None and loopv.ty.is_ref and cur.ty.is_ref:
                            self.oblige(st3, cur.t == loopv.t, "loop-name-reverts-after-for", "P", "construct",
                                        "after the `%% for` construct at generated line %d, `loop` is the enclosing loop again" % stmts[0].lineno)
                        if k2 == "next":
                            yield from self.ex(stmts[2:], st3)
                        else:
                            yield k2, st3, p2
                return
        yield from super().ex(stmts, st)


class SchemaProgram:
    def __init__(self, name, source, expect=None, template_kwargs=None, lookup_files=None, note=""):
        self.name, self.source = name, source
        self.expect = expect or {}          # function qualname -> {'top':..., 'pushes_frame':...}
        self.template_kwargs = template_kwargs or {}
        self.lookup_files = lookup_files or {}
        self.note = note

    def compile(self):
        from mako.template import Template
        from mako.lookup import TemplateLookup
        lk = None
        if self.lookup_files:
            lk = TemplateLookup()
            for uri, text in self.lookup_files.items():
                lk.put_string(uri, text)
        t = Template(self.source, lookup=lk, uri="/schema/%s" % self.name, **self.template_kwargs)
        return t.code


def verify_program(prog: SchemaProgram, prefix, only=None, label_filter=None):
    """Compile the schematic template with the real compiler and verify every generated function.
    Returns (results, info)."""
    from ..pyvc.verify import verify_function
    t0 = time.time()
    info = {"program": prog.name, "source": prog.source, "functions": []}
    try:
        code = prog.compile()
    except Exception as e:
        return [Result("%sschema[%s].compile" % (prefix, prog.name), UNDECIDED, function="mako.codegen",
                       output="the schematic template no longer compiles: %r" % e, detail=prog.source[:200])], info
    info["generated"] = code
    modname = "gen%d" % next(_counter)
    try:
        mod = ModCtx.register_generated(modname, code)
    except SyntaxError as e:
        return [Result("%sschema[%s].module-syntax" % (prefix, prog.name), VIOLATED, function="mako.codegen",
                       detail="the generated module is not valid Python: %s" % e, witness={"template": prog.source},
                       replayed=True, replay={"how": "ast.parse(Template(source).code)", "error": repr(e)})], info
    funcs = collect_functions(mod.tree)
    keys = []
    S.GLOBALS["%s:UNDEFINED" % modname] = ("Any", "")
    S.GLOBALS["%s:STOP_RENDERING" % modname] = ("Str", "")
    S.GLOBALS["%s:_template_uri" % modname] = ("Str", "")
    for gf in funcs:
        exp = dict(prog.expect.get(gf.qual, {}))
        first = next((s for s in gf.node.body if not isinstance(s, ast.Expr)), None)
        src0 = ast.unparse(first) if first is not None else ""
        exp.setdefault("pushes_frame", "_push_frame()" in src0)
        exp.setdefault("top", "extended")
        exp.setdefault("writer_captured_valid", False)
        key = "%s:%s" % (modname, gf.qual)
        S.CONTRACTS[key] = make_contract(modname, gf, exp)
        keys.append((key, gf))
    results = []
    try:
        for key, gf in keys:
            if only and gf.qual not in only:
                continue
            rs, E = verify_function(key, "%sschema[%s]." % (prefix, prog.name), engine_cls=GenEngine,
                                    only_labels=label_filter)
            for r in rs:
                r.function = "generated:%s (template %s)" % (gf.qual, prog.name)
            results.extend(rs)
            info["functions"].append(gf.qual)
    finally:
        for key, _ in keys:
            S.CONTRACTS.pop(key, None)
        for g in ("UNDEFINED", "STOP_RENDERING", "_template_uri"):
            S.GLOBALS.pop("%s:%s" % (modname, g), None)
        ModCtx._cache.pop(modname, None)
    info["time"] = time.time() - t0
    return results, info


def list_functions(prog: SchemaProgram):
    try:
        code = prog.compile()
        return [gf.qual for gf in collect_functions(ast.parse(code))]
    except Exception:
        return []
