"""C13 — An exception at any point leaves the render state consistent"""
from vrf.propkit import run_pyvc, run_schema, contracts_for, BASE_TRUST, BASE_ASSUME
from vrf.schema.programs import family

LEVEL = "proof"
META = {
    "level": "proof",
    "technique": "contract-based deductive verification: sidecar pre/postconditions, frames and loop invariants on the real runtime functions AND on every function the real compiler generates for a family of schematic templates (holes = induction hypothesis); VCs from the AST, discharged by z3/cvc5",
    "level_text": 'Exceptional postconditions of capture, supports_caller, _include_file, _exec_template are discharged for every raise point of the callee (induction hypothesis R3).',
    "level_note": 'Trusted: the pyvc encoding of Python semantics (DESIGN 3.1), z3/cvc5, assumed contracts listed in the evidence, the induction hypothesis for opaque render callables (R3). Native small-scope runs of the same contracts are bounded stand-ins, never counted as proved.',
}


def run(rep, tier):
    rep.trust(*BASE_TRUST)
    rep.assume(*BASE_ASSUME)
    run_pyvc(rep, contracts_for("C13"), native_limit=150 if tier == "quick" else 600)
    run_schema(rep, family(tier), labels="exceptional")
