"""C14 — Lookup serves fresh, stable, correctly prioritised templates over time."""
import time

import z3

from vrf.core import Result, DISCHARGED, VIOLATED, UNDECIDED
from vrf.propkit import run_pyvc, contracts_for, BASE_TRUST, BASE_ASSUME

LEVEL = "proof"
META = {
    "level": "proof",
    "technique": "contract-based deductive verification: pre/postconditions, frames, a loop invariant and ghost state (file system, build counter, lock count) on the real get_template/_check/_load/put_template and LRUCache functions; VCs from their AST discharged by z3/cvc5; the freshness rule as a linear-arithmetic lemma over reals",
    "level_text": "For all collections, directory lists, mtimes and clock values: a cached hit returns the same object without building iff its compile time is >= the file's mtime, otherwise reloads; without filesystem_checks no file-system probe happens; a miss is served from the first directory that has the file; _load builds exactly once under the mutex, leaves the failed URI out of the collection, and the mutex is released on every exit.",
    "level_note": "Trusted: pyvc, z3/cvc5; the file system as an uninterpreted state that is stable during one call (sequential view; schedules are C16, not claimed); assumed contracts for os.stat / isfile / posixpath / Template construction (its own obligations are C09/C15); the lock modelled as a counter. The op-sequence monitor is a bounded stand-in.",
}


def freshness_lemma(rep):
    """C14.fresh: if the file's real mtime is at least one whole second after the compile moment,
    the whole-second mtime that os.stat reports is strictly greater than the stamped compile time."""
    t0 = time.time()
    m, t, s = z3.Real("real_mtime"), z3.Real("t_compile"), z3.Real("stamp")
    fl = z3.ToInt(m)
    goal = z3.Implies(z3.And(m >= t + 1, s <= t, t >= 0), z3.Not(s >= z3.ToReal(fl)))
    sv = z3.Solver()
    sv.add(z3.Not(goal))
    r = sv.check()
    rep.add(Result("C14.fresh.arith", DISCHARGED if r == z3.unsat else (VIOLATED if r == z3.sat else UNDECIDED), backend="z3",
                   function="mako.lookup:TemplateLookup._check", time_s=time.time() - t0,
                   detail="real_mtime >= t_compile + 1 and _modified_time <= t_compile  =>  not (_modified_time >= floor(real_mtime)); "
                          "with _check's contract the stale object is then never returned",
                   witness=str(sv.model()) if r == z3.sat else None))


def bounded(rep, tier):
    from vrf.core import BOUNDED_OK
    from vrf.bounded.lru_monitor import lru_sequences, lookup_sequences
    t0 = time.time()
    L = 4 if tier == "quick" else 6
    n, bad = lru_sequences(L)
    bound = "every sequence of <= %d set/get operations over capacity+3 keys, capacity in {1,2,4}, counter clock" % L
    if bad:
        rep.add(Result("C14.lru-sequences", VIOLATED, klass="B", backend="native-oracle", function="mako.util:LRUCache", bound=bound, evaluations=n,
                       detail=bad[0]["problem"], witness=bad[0], replayed=True, replay={"failures": bad[:3]}, time_s=time.time() - t0))
    else:
        rep.add(Result("C14.lru-sequences", BOUNDED_OK, klass="B", backend="native-oracle", function="mako.util:LRUCache", bound=bound, evaluations=n,
                       time_s=time.time() - t0, detail="never more than 1.5n entries; only the least recently fetched evicted, and only when over the bound"))
    t1 = time.time()
    L2 = 4 if tier == "quick" else 5
    n2, bad2 = lookup_sequences(L2)
    bound2 = "every sequence of <= %d get_template calls over n+3 URIs, collection_size n in {1,2}, filesystem_checks on/off" % L2
    if bad2:
        rep.add(Result("C14.lookup-lru-sequences", VIOLATED, klass="B", backend="native-oracle", function="mako.lookup:TemplateLookup.get_template", bound=bound2,
                       evaluations=n2, detail=bad2[0]["problem"], witness=bad2[0], replayed=True, replay={"failures": bad2[:3]}, time_s=time.time() - t1))
    else:
        rep.add(Result("C14.lookup-lru-sequences", BOUNDED_OK, klass="B", backend="native-oracle", function="mako.lookup:TemplateLookup.get_template", bound=bound2,
                       evaluations=n2, time_s=time.time() - t1, detail="each lookup renders its own file's content; the cache never exceeds 1.5n"))
    t2 = time.time()
    from vrf.bounded.lru_monitor import freshness_sequences
    L3 = 3 if tier == "quick" else 5
    n3, bad3 = freshness_sequences(L3)
    bound3 = "every sequence of <= %d operations {touch file with mtime + 2 s, get_template} over 2 URIs, collection_size in {-1, 1, 2, 4}, filesystem_checks on/off" % L3
    if bad3:
        rep.add(Result("C14.freshness-sequences", VIOLATED, klass="B", backend="native-oracle", function="mako.lookup:TemplateLookup._check", bound=bound3, evaluations=n3,
                       detail=bad3[0]["problem"], witness=bad3[0], replayed=True, replay={"failures": bad3[:3]}, time_s=time.time() - t2))
    else:
        rep.add(Result("C14.freshness-sequences", BOUNDED_OK, klass="B", backend="native-oracle", function="mako.lookup:TemplateLookup._check", bound=bound3, evaluations=n3,
                       time_s=time.time() - t2, detail="a modified file is reloaded with checks on, whatever the collection size; unchanged files return the same object"))
    fails = [r for r in rep.results if r.klass == "B" and r.status == VIOLATED]
    if fails:
        for r in rep.results:
            if r.klass == "P" and not r.replayed and (r.status == VIOLATED or (r.status == UNDECIDED and r.cand)) and "LRUCache" in r.oid:
                r.replayed = True
                r.replay = dict(r.replay or {}, native_input=fails[0].witness, how=fails[0].backend)


def run(rep, tier):
    rep.trust(*BASE_TRUST)
    rep.assume(*BASE_ASSUME)
    rep.assume("module._modified_time is stamped with time.time() at code generation, which is not later than the moment the constructor returns")
    rep.assume("A-clock: timeit.default_timer does not go backwards",
               "the lookup contracts see _collection as a plain dict (collection_size=-1); with an LRUCache the same code runs through LRUCache.__setitem__/__getitem__, whose contracts are proved separately; their composition is covered by the bounded lookup sequences only")
    run_pyvc(rep, contracts_for("C14"), native_limit=0)
    freshness_lemma(rep)
    bounded(rep, tier)
