"""C14 — Lookup serves fresh, stable, correctly prioritised templates over time."""
import time

import z3

from vrf.core import Result, DISCHARGED, VIOLATED, UNDECIDED
from vrf.propkit import run_pyvc, contracts_for, BASE_TRUST, BASE_ASSUME

LEVEL = "proof"
META = {
    "level": "proof",
    "technique": "contract-based deductive verification: pre/postconditions, frames, a loop invariant and ghost state (file system, build counter, lock count) on the real get_template/_check/_load/put_template and LRUCache functions; VCs from their AST discharged by z3/cvc5; the freshness rule as a linear-arithmetic lemma over reals",
    "level_text": "For all collections, directory lists, mtimes and clock values: a cached hit returns the same object without building iff its compile time is >= the file's mtime, otherwise reloads; without filesystem_checks no file-system probe happens; a miss is served from the first directory that has the file; _load builds exactly once under the mutex, leaves the failed URI out of the collection, and the mutex is released on every exit.",
    "level_note": "Trusted: pyvc, z3/cvc5; the file system as an uninterpreted state that is stable during one call (sequential view; schedules are C16, not claimed); assumed contracts for os.stat / isfile / posixpath / Template construction (its own obligations are C09/C15); the lock modelled as a counter. The op-sequence monitor is a bounded stand-in.",
}


def freshness_lemma(rep):
    """C14.fresh: if the file's real mtime is at least one whole second after the compile moment,
    the whole-second mtime that os.stat reports is strictly greater than the stamped compile time."""
    t0 = time.time()
    m, t, s = z3.Real("real_mtime"), z3.Real("t_compile"), z3.Real("stamp")
    fl = z3.ToInt(m)
    goal = z3.Implies(z3.And(m >= t + 1, s <= t, t >= 0), z3.Not(s >= z3.ToReal(fl)))
    sv = z3.Solver()
    sv.add(z3.Not(goal))
    r = sv.check()
    rep.add(Result("C14.fresh.arith", DISCHARGED if r == z3.unsat else (VIOLATED if r == z3.sat else UNDECIDED), backend="z3",
                   function="mako.lookup:TemplateLookup._check", time_s=time.time() - t0,
                   detail="real_mtime >= t_compile + 1 and _modified_time <= t_compile  =>  not (_modified_time >= floor(real_mtime)); "
                          "with _check's contract the stale object is then never returned",
                   witness=str(sv.model()) if r == z3.sat else None))


def run(rep, tier):
    rep.trust(*BASE_TRUST)
    rep.assume(*BASE_ASSUME)
    rep.assume("module._modified_time is stamped with time.time() at code generation, which is not later than the moment the constructor returns")
    run_pyvc(rep, contracts_for("C14"), native_limit=0)
    freshness_lemma(rep)
