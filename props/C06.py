"""C06 — Inheritance chains dispatch self/next/parent; blocks render once"""
from vrf.propkit import run_pyvc, contracts_for, BASE_TRUST, BASE_ASSUME

LEVEL = "proof"
META = {
    "level": "proof",
    "technique": "contract-based deductive verification: sidecar pre/postconditions, frames and loop invariants on the real functions, VCs generated from their AST, discharged by z3/cvc5",
    "level_text": 'The render entry (_render_context, _populate_self_namespace) is verified to run the callable returned by the inheritance set-up (base-most body) with its context; _inherit_from appends a base at the end of the chain and the deeper answer wins; self.attr / next.attr / parent.attr answer with the first namespace toward the base whose module has the attribute, whatever its value; a named block is accepted only outside defs and calls and under a name not yet taken by another def or block of the template (visitBlockTag, _check_name_exists).',
    "level_note": 'Trusted: the pyvc encoding of Python semantics (DESIGN 3.1), z3/cvc5, assumed contracts listed in the evidence, the induction hypothesis for opaque render callables (R3). Native small-scope runs of the same contracts are bounded stand-ins, never counted as proved.',
}


def bounded(rep, tier):
    import time
    from vrf.core import Result, VIOLATED, BOUNDED_OK
    from vrf.propkit import pool_map
    from vrf.bounded import inherit_grid as G
    t0 = time.time()
    ns = 60 if tier == "quick" else 6000
    outs = [b for o in pool_map(G.run_case, [(s,) for s in range(ns)]) for b in o]
    bound = "%d x 12 random chains of length 1-4: defs, named and anonymous blocks, module attributes, self/next/parent/local calls, next.body() chaining, static and dynamic <%%inherit>" % ns
    if outs:
        rep.add(Result("C06.inherit-grid", VIOLATED, klass="B", backend="native-model", function="mako.runtime / mako.codegen (inheritance)", bound=bound, evaluations=ns * 12,
                       detail="expected %r, got %r" % (outs[0]["expected"][:120], outs[0]["got"][:120]), witness=outs[0], replayed=True, replay={"failures": outs[:2]}, time_s=time.time() - t0))
    else:
        rep.add(Result("C06.inherit-grid", BOUNDED_OK, klass="B", backend="native-model", function="mako.runtime / mako.codegen (inheritance)", bound=bound, evaluations=ns * 12,
                       time_s=time.time() - t0, detail="every chain renders what the statement's model prescribes"))
    t15 = time.time()
    n3, bad3 = G.include_cases()
    if bad3:
        rep.add(Result("C06.include-from-inheriting", VIOLATED, klass="B", backend="native-model", function="mako.runtime:_include_file", bound="included chain of length 1 and 2 x colliding / distinct block name", evaluations=n3,
                       detail=str(bad3[0])[:250], witness=bad3[0], replayed=True, replay={"failures": bad3}, time_s=time.time() - t15))
    else:
        rep.add(Result("C06.include-from-inheriting", BOUNDED_OK, klass="B", backend="native-model", function="mako.runtime:_include_file", bound="included chain of length 1 and 2 x colliding / distinct block name", evaluations=n3,
                       time_s=time.time() - t15, detail="an included template is a chain of its own: its named blocks render at their position"))
    t1 = time.time()
    n, bad = G.compile_rejections()
    if bad:
        rep.add(Result("C06.block-rules", VIOLATED, klass="B", backend="native-oracle", function="mako.codegen:_Identifiers.visitBlockTag", bound="7 templates", evaluations=n,
                       detail=str(bad[0])[:250], witness=bad[0], replayed=True, replay={"failures": bad}, time_s=time.time() - t1))
    else:
        rep.add(Result("C06.block-rules", BOUNDED_OK, klass="B", backend="native-oracle", function="mako.codegen:_Identifiers.visitBlockTag", bound="7 templates", evaluations=n,
                       time_s=time.time() - t1, detail="duplicate block names and named blocks inside defs/calls rejected at compile time; anonymous blocks accepted"))


def run(rep, tier):
    rep.trust(*BASE_TRUST)
    rep.assume(*BASE_ASSUME)
    run_pyvc(rep, contracts_for("C06"), native_limit=150 if tier == "quick" else 600)
    bounded(rep, tier)
    from vrf.propkit import link_bounded_witness
    link_bounded_witness(rep)
