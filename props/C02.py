"""C02 — Expression substitution applies the filter pipeline in the documented order."""
import ast
import itertools
import re
import time

from vrf.core import Result, DISCHARGED, VIOLATED, UNDECIDED, BOUNDED_OK, read_repo
from vrf.propkit import run_pyvc, pool_map, link_bounded_witness, BASE_TRUST, BASE_ASSUME

META = {
    "level": "proof",
    "technique": "contract-based deductive verification: the real create_filter_callable against a recursively defined spec function wrap_filters (fold over the effective filter list D + P + local with the two meanings of n), loop invariant and unfolding axioms, the flag table read from filters.py on every run, VCs discharged by z3/cvc5; regex obligations (meaning of the two patterns, no exponential ambiguity in the expression scanner's patterns)",
    "level_text": "For all filter lists, page filters, default filters and targets: the emitted expression is f_k(...f_1(target)) over exactly the list default_filters + page filters + local filters, with n among the local filters removing both other sources and n among the page filters removing the defaults only; flag names denote the documented functions, decode.<enc> denotes filters.decode.<enc>, any other name (or call with arguments) denotes itself.",
    "level_note": "Proved for the emitter of ${} expressions and for visitExpression (the line written is __M_writer(<pipeline over D, P and the local filters>) whichever of the three are empty); write_def_finish is under contract too (a def or block with filter= passes its collected content once through exactly those filters, a buffered one then through buffer_filters; neither default_filters nor the page filters take part), and so is the clause of Template.__init__ that keeps the default filters as given (an empty list stays empty); <%text filter=> is covered by the bounded site grid only. The expression scanner (parse_until_text) is outside the verifier's reach (regex cascade over a string with three counters): bounded spelling grid + the regex ambiguity obligation. Assumed: DEFAULT_ESCAPES is not mutated at run time; re.match as uninterpreted predicate/group functions whose meaning for the two literals is the C02.regex obligation (enumeration, bounded).",
}

KEYS = ["mako.codegen:_GenerateRenderMethod.create_filter_callable", "mako.codegen:_GenerateRenderMethod.visitExpression",
        "mako.codegen:_GenerateRenderMethod.write_def_finish",
        "mako.template:Template.__init__##default filters"]


def regex_literals():
    """the two re.match literals inside create_filter_callable"""
    tree = ast.parse(read_repo("mako/codegen.py"))
    pats = []
    for n in ast.walk(tree):
        if isinstance(n, ast.FunctionDef) and n.name == "create_filter_callable":
            for c in ast.walk(n):
                if isinstance(c, ast.Call) and isinstance(c.func, ast.Attribute) and c.func.attr == "match" and c.args \
                        and isinstance(c.args[0], ast.Constant):
                    pats.append(c.args[0].value)
    return pats


def regex_obligations(rep):
    fn = "mako.codegen:_GenerateRenderMethod.create_filter_callable"
    pats = regex_literals()
    t0 = time.time()
    dec = [p for p in pats if p.startswith("decode")]
    call = [p for p in pats if "(" in p and not p.startswith("decode")]
    if len(dec) != 1 or len(call) != 1:
        rep.add(Result("C02.regex", UNDECIDED, klass="L", function=fn, output="expected one decode pattern and one call pattern, found %r" % pats))
        return
    bad, n = [], 0
    rd, rc = re.compile(dec[0]), re.compile(call[0])
    # decode.<encoding>: exactly the names 'decode.' + at least one character
    for ln in range(0, 10):
        for t in itertools.product("dec.o8-", repeat=min(ln, 4)):
            for s in ("".join(t), "decode." + "".join(t), "decode" + "".join(t), "xdecode." + "".join(t)):
                n += 1
                exp = s.startswith("decode.") and len(s) > 7
                if bool(rd.match(s)) != exp:
                    bad.append({"pattern": dec[0], "string": s, "expected_match": exp})
        if ln >= 4:
            break
    # name(args): group 1 the text before the first '(' , group 2 the parenthesised rest
    idents = ["f", "fc", "ns.f", "a_b", "filters.x"]
    for ident in idents:
        for ln in range(0, 6):
            for t in itertools.product("a,'() ", repeat=ln):
                args = "".join(t)
                depth, ok = 0, True
                for ch in args:
                    depth += ch == "("
                    depth -= ch == ")"
                    ok &= depth >= 0
                if not ok or depth != 0:
                    continue
                s = "%s(%s)" % (ident, args)
                n += 1
                m = rc.match(s)
                if not m or m.group(1) != ident or m.group(2) != "(" + args + ")":
                    bad.append({"pattern": call[0], "string": s, "groups": m.groups() if m else None})
        n += 1
        if rc.match(ident):
            bad.append({"pattern": call[0], "string": ident, "problem": "a plain name is taken for a call"})
    rep.add(Result("C02.regex", DISCHARGED if not bad else VIOLATED, klass="L", backend="enum", function=fn, time_s=time.time() - t0,
                   detail="re_matches/re_group for %r and %r mean 'decode.<something>' and 'name(args)' on %d strings (bounded validation of the assumed regex meaning)" % (dec[0], call[0], n),
                   witness=bad[:2] or None, replayed=bool(bad), replay={"failures": bad[:3]} if bad else None))


def scanner_eda(rep):
    """the regular expressions of parse_until_text must not be exponentially ambiguous"""
    from vrf.rex import regex as R
    from vrf.rex.lang import Alphabet
    from vrf.rex.eda import Glushkov, eda_witness
    src = read_repo("mako/lexer.py")
    tree = ast.parse(src)
    fn = next(n for n in ast.walk(tree) if isinstance(n, ast.FunctionDef) and n.name == "parse_until_text")
    pats = []
    for c in ast.walk(fn):
        if isinstance(c, ast.Call) and isinstance(c.func, ast.Attribute) and c.func.attr == "match" and c.args:
            a = c.args[0]
            fl = 0
            if len(c.args) > 1:
                fl = int(eval(compile(ast.Expression(c.args[1]), "<f>", "eval"), {"re": re}))
            if isinstance(a, ast.Constant):
                pats.append((a.value, fl))
            elif isinstance(a, ast.BinOp) and isinstance(a.left, ast.Constant):
                for text_re in (r"\||}", r"%>"):          # the two call sites: ${...} and <% ... %>
                    pats.append((a.left.value % text_re, fl))
    if len(pats) < 4:
        rep.add(Result("C02.scan.eda", UNDECIDED, klass="L", function="mako.lexer:Lexer.parse_until_text", output="patterns not found: %r" % pats))
        return
    for i, (pat, fl) in enumerate(pats):
        t0 = time.time()
        oid = "C02.scan.eda[%d]" % i
        try:
            n, _ = R.parse(pat, fl)
            n = R.expand_refs(n)
            A = Alphabet([n])
            w = eda_witness(Glushkov(n, A))
        except R.RexUnsupported as e:
            rep.add(Result(oid, UNDECIDED, klass="L", function="mako.lexer:Lexer.parse_until_text", output="pattern outside the rex rules: %s" % e, detail=pat[:80]))
            continue
        if w is None:
            rep.add(Result(oid, DISCHARGED, klass="L", backend="rex-eda", function="mako.lexer:Lexer.parse_until_text", time_s=time.time() - t0,
                           detail="no exponential ambiguity in %r" % pat[:70]))
        else:
            pre, pump = w
            s = lambda ws: "".join(chr(A.blocks[x].sample()) for x in ws)
            from props.C01 import time_pump
            timing = time_pump(pat, fl, s(pre), s(pump))
            rep.add(Result(oid, VIOLATED if timing["exponential"] else UNDECIDED, klass="L", backend="rex-eda", function="mako.lexer:Lexer.parse_until_text",
                           time_s=time.time() - t0, detail="exponentially ambiguous repetition in %r" % pat[:80],
                           witness={"prefix": s(pre), "pump": s(pump)}, replayed=timing["exponential"], replay=timing))


def flag_table_obligation(rep):
    """finite, complete: every documented flag name - n included - is a key of the table that keeps flag names out of the
    names a template demands from the context (Expression / TextTag / DefTag / BlockTag.undeclared_identifiers subtract the
    table's keys); the table literal is read from filters.py on every run"""
    import ast as _ast
    import os
    t0 = time.time()
    src = open(os.path.join(os.environ.get("MAKO_REPO", "/repo"), "mako", "filters.py")).read()
    keys = None
    for node in _ast.walk(_ast.parse(src)):
        if isinstance(node, _ast.Assign) and any(isinstance(tg, _ast.Name) and tg.id == "DEFAULT_ESCAPES" for tg in node.targets) and isinstance(node.value, _ast.Dict):
            keys = [k.value for k in node.value.keys if isinstance(k, _ast.Constant)]
    documented = ["x", "h", "u", "trim", "entity", "unicode", "str", "n"]
    fn = "mako.filters:DEFAULT_ESCAPES"
    if keys is None:
        rep.add(Result("C02.flag-table", UNDECIDED, klass="L", function=fn, output="DEFAULT_ESCAPES is no longer a dict literal in filters.py"))
        return
    missing = [f for f in documented if f not in keys]
    if missing:
        w = {"missing_flags": missing, "template": "${v | %s}" % missing[0], "how": "rendered with strict_undefined=True the flag name is looked up in the context: NameError"}
        replayed = False
        try:
            from mako.template import Template
            Template(w["template"], strict_undefined=True).render_unicode(v="x")
        except NameError as e:
            replayed, w["raised"] = True, "NameError: %s" % e
        except Exception as e:
            w["raised"] = "%s: %s" % (type(e).__name__, e)
        rep.add(Result("C02.flag-table", VIOLATED, klass="P", backend="finite-table", function=fn, detail="documented flag(s) %r are not keys of DEFAULT_ESCAPES: a template using them demands them from the context" % missing,
                       witness=w, replayed=replayed, replay=w, time_s=time.time() - t0))
    else:
        rep.add(Result("C02.flag-table", DISCHARGED, klass="P", backend="finite-table", function=fn, detail="all 8 documented flag names are keys of the table", time_s=time.time() - t0))


def bounded(rep, tier):
    from vrf.bounded import filter_grid as G
    for oid, cases, fn, bound, what in (
            ("C02.pipeline-grid", list(G.pipeline_cases()), G.run_pipeline,
             "7 default_filters settings x 7 <%page expression_filter> settings x 25 local filter lists (non-commuting callables, flags, calls with arguments, n in every position)",
             "every output equals f_local(P(D(value))) with the two meanings of n"),
            ("C02.site-grid", G.site_cases(), G.run_site, "filter= on def / anonymous block / named block / <%text>, with D and P configured, buffer_filters on a buffered def; 8 filter lists",
             "filter= and buffer_filters apply the named functions in order, without D and P"),
            ("C02.spelling-grid", list(G.spelling_cases()), G.run_spelling,
             "31 expression atoms (four with a backslash-newline continuation inside the literal) containing | } quotes comments newlines inside brackets or strings x 4 paddings x 4 filter spellings, and all ordered pairs of 14 atoms",
             "every expression is scanned whole and evaluated to the value Python gives it")):
        t0 = time.time()
        outs = [o for o in pool_map(fn, cases) if o]
        if outs:
            rep.add(Result(oid, VIOLATED, klass="B", backend="native-oracle", function="generated", bound=bound, evaluations=len(cases),
                           detail="%s" % {k: v for k, v in outs[0].items() if k in ("template", "expected", "got", "problem")}, witness=outs[0], replayed=True,
                           replay={"failures": outs[:3]}, time_s=time.time() - t0))
        else:
            rep.add(Result(oid, BOUNDED_OK, klass="B", backend="native-oracle", function="generated", bound=bound, evaluations=len(cases),
                           time_s=time.time() - t0, detail=what))


def run(rep, tier):
    rep.trust(*BASE_TRUST)
    rep.assume(*BASE_ASSUME)
    rep.assume("mako.filters.DEFAULT_ESCAPES is not mutated at run time (its literal is read from the source on every run)",
               "str % tuple and str.join are uninterpreted injective-agnostic functions: the proof shows the same function applied to the same operands, not the characters produced")
    run_pyvc(rep, KEYS, native_limit=0)
    regex_obligations(rep)
    flag_table_obligation(rep)
    scanner_eda(rep)
    bounded(rep, tier)
    link_bounded_witness(rep)
