"""C03 — Control lines and Python blocks execute with Python semantics; `loop`."""
import time

from vrf.core import Result, DISCHARGED, VIOLATED, UNDECIDED, ERROR, BOUNDED_OK
from vrf.propkit import run_pyvc, run_schema, contracts_for, pool_map, BASE_TRUST, BASE_ASSUME
from vrf.schema.programs import CORE

LEVEL = "proof"
META = {
    "level": "proof",
    "technique": "contract-based deductive verification: contracts on LoopStack/LoopContext (z3) and on the functions the real compiler generates for schematic `% for`/`% if`/`% while`/`% try` templates (loop-stack restoration on every exit of the construct, `loop` rebinding), plus a bounded comparison of control templates with the same statements run natively",
    "level_text": "LoopContext/LoopStack are verified against the statement's definitions of index/first/last/even/odd/reverse_index/cycle/parent for all iterables and stack depths; for every schematic for-construct the generated code is proved to leave the loop stack and the name `loop` as they were when the construct ends normally, by break, by return or by an exception.",
    "level_note": "Trusted: pyvc encoding, z3/cvc5, R3 (holes stand for arbitrary content), the schema family's coverage of the emitters' branches. Bounded stand-ins (not counted): native small-scope runs of the runtime contracts; generated control-structure templates (depth <= 3) compared with native execution of the same Python.",
}

LOOP_PROGRAMS = ("for-loop", "for-loop-nested", "for-break-return", "call-in-loop", "control")


def control_grid_chunk(args):
    from vrf.bounded.control_grid import run_chunk
    return run_chunk(args)


def run(rep, tier):
    rep.trust(*BASE_TRUST)
    rep.assume(*BASE_ASSUME)
    run_pyvc(rep, contracts_for("C03"), native_limit=150 if tier == "quick" else 600)
    run_schema(rep, [p for p in CORE if p.name in LOOP_PROGRAMS], labels="all")
    from vrf.bounded.control_grid import run_grid
    run_grid(rep, tier)
