"""C03 — Control lines and Python blocks execute with Python semantics"""
from vrf.propkit import run_pyvc, contracts_for, BASE_TRUST, BASE_ASSUME

LEVEL = "proof"
META = {
    "level": "proof",
    "technique": "contract-based deductive verification: sidecar pre/postconditions, frames and loop invariants on the real functions, VCs generated from their AST, discharged by z3/cvc5",
    "level_text": 'LoopStack/LoopContext functions are verified against contracts taken from the statement (index/first/last/even/odd/reverse_index/cycle/parent; enter/exit restore the enclosing loop) for all stack depths and iterables.',
    "level_note": 'Trusted: the pyvc encoding of Python semantics (DESIGN 3.1), z3/cvc5, assumed contracts listed in the evidence, the induction hypothesis for opaque render callables (R3). Native small-scope runs of the same contracts are bounded stand-ins, never counted as proved.',
}


def run(rep, tier):
    rep.trust(*BASE_TRUST)
    rep.assume(*BASE_ASSUME)
    run_pyvc(rep, contracts_for("C03"), native_limit=150 if tier == "quick" else 600)
