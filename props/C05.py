"""C05 — defs write at the call site; buffering, capture, calls with content."""
from vrf.propkit import run_pyvc, run_schema, contracts_for, BASE_TRUST, BASE_ASSUME
from vrf.schema.programs import family

LEVEL = "proof"
META = {
    "level": "proof",
    "technique": "contract-based deductive verification: sidecar pre/postconditions, frames and loop invariants on the real runtime functions AND on every function the real compiler generates for a family of schematic templates (holes = induction hypothesis); VCs from the AST, discharged by z3/cvc5",
    "level_text": "Every obligation generated from the current source of the buffer-stack, caller-stack, capture and supports_caller functions is discharged by an SMT solver for all stack depths and contents, on normal and exceptional exits; callers are checked against callee contracts only.",
    "level_note": "Trusted: the pyvc encoding of Python semantics (DESIGN 3.1), z3/cvc5, the induction hypothesis 'balanced' for opaque render callables, collections.deque modelled as a list. Native small-scope runs of the same contracts are bounded stand-ins and are not counted as proved.",
}


def run(rep, tier):
    rep.trust(*BASE_TRUST)
    rep.assume(*BASE_ASSUME)
    run_pyvc(rep, contracts_for("C05"), native_limit=150 if tier == "quick" else 600)
    run_schema(rep, family(tier), labels="normal")
