"""C05 — defs write at the call site; buffering, capture, calls with content."""
from vrf.propkit import run_pyvc, run_schema, contracts_for, BASE_TRUST, BASE_ASSUME
from vrf.schema.programs import family

LEVEL = "proof"
META = {
    "level": "proof",
    "technique": "contract-based deductive verification: sidecar pre/postconditions, frames and loop invariants on the real runtime functions AND on every function the real compiler generates for a family of schematic templates (holes = induction hypothesis); VCs from the AST, discharged by z3/cvc5",
    "level_text": "Every obligation generated from the current source of the buffer-stack, caller-stack, capture and supports_caller functions is discharged by an SMT solver for all stack depths and contents, on normal and exceptional exits; callers are checked against callee contracts only.",
    "level_note": "Trusted: the pyvc encoding of Python semantics (DESIGN 3.1), z3/cvc5, the induction hypothesis 'balanced' for opaque render callables, collections.deque modelled as a list. Native small-scope runs of the same contracts are bounded stand-ins and are not counted as proved.",
}


def attr_mixtures(rep, tier):
    import time
    from vrf.core import Result, VIOLATED, BOUNDED_OK
    from vrf.propkit import pool_map
    from vrf.bounded import attr_grid as G
    t0 = time.time()
    outs = pool_map(G.run_chunk, [(i, 16) for i in range(16)])
    n = sum(o[0] for o in outs)
    bad = [b for o in outs for b in o[1]]
    bound = "attribute values of a call with content built from 1-2 pieces (and 3 with a whitespace-only piece) out of 15: literals, blank-only text, leading/trailing blanks, ${} values, quotes, # and %"
    if bad:
        rep.add(Result("C05.attribute-mixtures", VIOLATED, klass="B", backend="native-oracle", function="mako.parsetree:Tag._parse_attributes", bound=bound, evaluations=n,
                       detail="attribute %r arrives as %r, expected %r" % (bad[0]["attribute"], bad[0]["got"], bad[0]["expected"]), witness=bad[0], replayed=True,
                       replay={"failures": bad[:3]}, time_s=time.time() - t0))
    else:
        rep.add(Result("C05.attribute-mixtures", BOUNDED_OK, klass="B", backend="native-oracle", function="mako.parsetree:Tag._parse_attributes", bound=bound, evaluations=n,
                       time_s=time.time() - t0, detail="literal text as strings, ${} as values, mixtures concatenated in order"))


def run(rep, tier):
    rep.trust(*BASE_TRUST)
    rep.assume(*BASE_ASSUME)
    run_pyvc(rep, contracts_for("C05"), native_limit=150 if tier == "quick" else 600)
    run_schema(rep, family(tier), labels="normal")
    attr_mixtures(rep, tier)
    from vrf.propkit import link_bounded_witness
    link_bounded_witness(rep, only=lambda r: "_parse_attributes" in r.oid)
