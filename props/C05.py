"""C05 — defs write at the call site; buffering, capture, calls with content."""
import time
from vrf.core import Result, VIOLATED, BOUNDED_OK
from vrf.propkit import run_pyvc, run_schema, contracts_for, BASE_TRUST, BASE_ASSUME
from vrf.schema.programs import family

LEVEL = "proof"
META = {
    "level": "proof",
    "technique": "contract-based deductive verification: sidecar pre/postconditions, frames and loop invariants on the real runtime functions AND on every function the real compiler generates for a family of schematic templates (holes = induction hypothesis); VCs from the AST, discharged by z3/cvc5",
    "level_text": "Every obligation generated from the current source of the buffer-stack, caller-stack, capture and supports_caller functions is discharged by an SMT solver for all stack depths and contents, on normal and exceptional exits; callers are checked against callee contracts only. Tag._parse_attributes against the recursive spec attr_pieces (literal text as strings, ${} as values, mixtures in order) and write_def_finish (a def or block with filter= passes its collected content once through exactly those filters; a buffered def returns it, after buffer_filters) are verified for all attribute texts and filter lists.",
    "level_note": "Trusted: the pyvc encoding of Python semantics (DESIGN 3.1), z3/cvc5, the induction hypothesis 'balanced' for opaque render callables, collections.deque modelled as a list. Native small-scope runs of the same contracts are bounded stand-ins and are not counted as proved.",
}


def attr_mixtures(rep, tier):
    import time
    from vrf.core import Result, VIOLATED, BOUNDED_OK
    from vrf.propkit import pool_map
    from vrf.bounded import attr_grid as G
    t0 = time.time()
    outs = pool_map(G.run_chunk, [(i, 16) for i in range(16)])
    n = sum(o[0] for o in outs)
    bad = [b for o in outs for b in o[1]]
    bound = "attribute values of a call with content built from 1-2 pieces (and 3 with a whitespace-only piece) out of 15: literals, blank-only text, leading/trailing blanks, ${} values, quotes, # and %"
    if bad:
        rep.add(Result("C05.attribute-mixtures", VIOLATED, klass="B", backend="native-oracle", function="mako.parsetree:Tag._parse_attributes", bound=bound, evaluations=n,
                       detail="attribute %r arrives as %r, expected %r" % (bad[0]["attribute"], bad[0]["got"], bad[0]["expected"]), witness=bad[0], replayed=True,
                       replay={"failures": bad[:3]}, time_s=time.time() - t0))
    else:
        rep.add(Result("C05.attribute-mixtures", BOUNDED_OK, klass="B", backend="native-oracle", function="mako.parsetree:Tag._parse_attributes", bound=bound, evaluations=n,
                       time_s=time.time() - t0, detail="literal text as strings, ${} as values, mixtures concatenated in order"))


def filter_once(rep, tier):
    """bounded stand-in for 'a def or block with filter= passes its whole content once through those filters': non-commuting
    filter callables on defs and blocks, also with default_filters and <%page expression_filter> configured"""
    from vrf.bounded import filter_grid as G
    from vrf.propkit import pool_map
    t0 = time.time()
    cases = [c for c in G.site_cases() if c[0] != "text"]
    outs = [o for o in pool_map(G.run_site, cases) if o]
    bound = "filter= on def / anonymous block / named block, with default_filters and expression_filter configured, buffer_filters on buffered defs; 8 filter lists"
    if outs:
        rep.add(Result("C05.filter-once-grid", VIOLATED, klass="B", backend="native-oracle", function="mako.codegen:_GenerateRenderMethod.write_def_finish", bound=bound,
                       evaluations=len(cases), detail=str({k: outs[0][k] for k in ("template", "expected", "got")})[:300], witness=outs[0], replayed=True,
                       replay={"failures": outs[:3]}, time_s=time.time() - t0))
    else:
        rep.add(Result("C05.filter-once-grid", BOUNDED_OK, klass="B", backend="native-oracle", function="mako.codegen:_GenerateRenderMethod.write_def_finish", bound=bound,
                       evaluations=len(cases), time_s=time.time() - t0, detail="the content goes once through the listed filters, in order, and through nothing else"))


def signature_grid(rep, tier):
    """bounded stand-in for 'binds its arguments by Python's calling rules': re-emitted signatures against inspect.signature"""
    from vrf.bounded import signature_grid as G
    from vrf.propkit import pool_map
    from vrf.core import Findings
    t0 = time.time()
    cases = list(G.signatures())
    outs = [o for o in pool_map(G.run_signature, cases) if o]
    known = {e["witness_class"]: e for e in Findings().all_known("C05")}
    rest = []
    for o in outs:
        if o["bare_star"] and "bare-star-dropped" in known:
            if not any(k.startswith(known["bare-star-dropped"]["what"][:60]) for k in rep.known_confirmed):
                rep.known_confirmed.append("%s [%s: %s]" % (known["bare-star-dropped"]["what"], o["signature"], o["problem"][:100]))
        else:
            rest.append(o)
    bound = "%d signatures: 0-3 positional (with defaults), none / *r / bare *, every ordered choice of 0-3 keyword-only parameters with and without defaults, with and without **kw" % len(cases)
    if rest:
        rep.add(Result("C05.signature-grid", VIOLATED, klass="B", backend="native-oracle", function="mako.ast:FunctionDecl.get_argument_expressions", bound=bound,
                       evaluations=len(cases), detail="%s: %s" % (rest[0]["signature"], rest[0]["problem"][:200]), witness=rest[0], replayed=True,
                       replay={"failures": rest[:3]}, time_s=time.time() - t0))
    else:
        rep.add(Result("C05.signature-grid", BOUNDED_OK, klass="B", backend="native-oracle", function="mako.ast:FunctionDecl.get_argument_expressions", bound=bound,
                       evaluations=len(cases), time_s=time.time() - t0,
                       detail="re-emitted signature and binding of a call equal Python's (%d bare-star signatures are the known finding)" % (len(outs) - len(rest))))


def body_args_grid(rep, tier):
    """bounded stand-in for 'body(**args) ... run in the calling scope': what caller.body(...) binds for the args= of both call forms"""
    from vrf.bounded import signature_grid as G
    from vrf.propkit import pool_map
    t0 = time.time()
    cases = G.body_args_cases()
    outs = [o for o in pool_map(G.run_body_args, cases) if o]
    bound = "%d cases: 11 args= signatures / calls (positional, defaults, *rest, keyword-only, **kw) x {<%%ns:def args=>, <%%call args=>}, the same names also present in the context" % len(cases)
    if outs:
        rep.add(Result("C05.body-args-grid", VIOLATED, klass="B", backend="native-oracle", function="mako.parsetree:CallTag / CallNamespaceTag", bound=bound, evaluations=len(cases),
                       detail="%s args=%r: %s" % (outs[0]["form"], outs[0]["args"], outs[0]["got"][:160]), witness=outs[0], replayed=True, replay={"failures": outs[:3]}, time_s=time.time() - t0))
    else:
        rep.add(Result("C05.body-args-grid", BOUNDED_OK, klass="B", backend="native-oracle", function="mako.parsetree:CallTag / CallNamespaceTag", bound=bound, evaluations=len(cases),
                       time_s=time.time() - t0, detail="caller.body(...) binds the body's parameters as Python binds them; context values of the same names do not shadow them"))


def run(rep, tier):
    rep.trust(*BASE_TRUST)
    rep.assume(*BASE_ASSUME)
    run_pyvc(rep, contracts_for("C05"), native_limit=150 if tier == "quick" else 600)
    run_schema(rep, family(tier), labels="normal")
    attr_mixtures(rep, tier)
    filter_once(rep, tier)
    signature_grid(rep, tier)
    body_args_grid(rep, tier)
    from vrf.propkit import link_bounded_witness
    link_bounded_witness(rep, only=lambda r: "_parse_attributes" in r.oid or "write_def_finish" in r.oid)
