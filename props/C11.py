"""C11 — Compile-time errors name the template and the line of the fault."""
import time

from vrf.core import Result, VIOLATED, BOUNDED_OK, Findings
from vrf.propkit import run_pyvc, pool_map, contracts_for, link_bounded_witness, BASE_TRUST, BASE_ASSUME

META = {
    "level": "proof",
    "technique": "contract-based deductive verification: the carriers of an error position on the real code - the lexer's line/column bookkeeping (match_reg), Node.__init__ / Node.exception_kwargs, pyparser._adjust_lineno (template line = construct line + offset + Python's line - 1, every other field as given) and the CompileException / SyntaxException constructors - each against its contract, VCs from their AST discharged by z3/cvc5",
    "level_text": "For all texts, positions and node fields: the line the lexer reports for a match is the line of the match start and the column its 1-based offset in that line; a parse-tree node hands on exactly its own source, line, column and filename; a Python syntax error is re-based onto the template line that holds the offending Python line and nothing else is changed; the exception objects carry those four values unchanged.",
    "level_note": "Errors raised while generating code carry the offending node's own position (postconditions on _check_name_exists, _Identifiers.visitBlockTag and write_namespaces.NSDefVisitor.visitDefOrBase); which position the other raise sites pass (start of the construct vs. where the scan gave up) is not under contract: bounded fault-planting grid (44 fault classes - one per raise site of a compile error - x 6 prefixes x CRLF x indentation x 4 construction paths). Known finding: an unclosed tag is reported at the end of the text, not where the tag begins (pinned by test_lexer.test_unclosed_tag). Assumed: CPython's SyntaxError.lineno is the offending line of the embedded code.",
}


def bounded(rep, tier):
    from vrf.bounded import fault_grid as G
    known = {e["witness_class"]: e for e in Findings().all_known("C11")}
    t0 = time.time()
    cs = list(G.cases())
    outs = [o for o in pool_map(G.run_case, cs) if o]
    unknown = []
    nk = 0
    for o in outs:
        if o["fault"] == "unterminated-tag" and "unclosed-tag-position" in known and "line" in o["problem"]:
            nk += 1
            if nk == 1:
                rep.known_confirmed.append("%s [%s]" % (known["unclosed-tag-position"]["what"], o["problem"][:100]))
        else:
            unknown.append(o)
    bound = "%d fault classes x %d prefixes (blank lines, text, multi-line constructs, continuation lines, comments) x LF/CRLF x indentation x {string, file, lookup, module directory}" % (len(G.FAULTS), len(G.PREFIXES))
    if unknown:
        w = dict(unknown[0])
        rep.add(Result("C11.fault-grid", VIOLATED, klass="B", backend="native-oracle", function="mako.lexer / mako.pyparser / mako.parsetree", bound=bound, evaluations=len(cs) * 4,
                       detail="%s: %s" % (w["fault"], w["problem"][:250]), witness=w, replayed=True, replay={"failures": unknown[:3]}, time_s=time.time() - t0))
    else:
        rep.add(Result("C11.fault-grid", BOUNDED_OK, klass="B", backend="native-oracle", function="mako.lexer / mako.pyparser / mako.parsetree", bound=bound, evaluations=len(cs) * 4,
                       time_s=time.time() - t0, detail="every planted fault raised SyntaxException/CompileException with the template's filename and source, the fault's line and the construct's column, identically on the four paths (%d known-finding cases excluded)" % nk))


def run(rep, tier):
    rep.trust(*BASE_TRUST)
    rep.assume(*BASE_ASSUME)
    rep.assume("CPython reports the offending line of embedded Python in SyntaxError.lineno (1-based within the parsed code)",
               "line numbers in exception_kwargs and on exception objects are ints")
    run_pyvc(rep, contracts_for("C11"), native_limit=0)
    bounded(rep, tier)
    link_bounded_witness(rep)
