"""C18 — Template text round-trips through input and output encodings."""
import ast
import itertools
import re
import time

from vrf.core import Result, DISCHARGED, VIOLATED, UNDECIDED, BOUNDED_OK, read_repo
from vrf.propkit import run_pyvc, pool_map, link_bounded_witness, BASE_TRUST, BASE_ASSUME

META = {
    "level": "proof",
    "technique": "contract-based deductive verification: the real Lexer.decode_raw_stream (verified once per input type str / bytes) against the statement's precedence rule (BOM, magic comment, input_encoding, utf-8) and error cases, the render entry point's result-type contract and FastEncodingBuffer.getvalue (result = join(data).encode(encoding, errors)), the module writer's encoded-source clause; VCs discharged by z3/cvc5; a regex obligation for the coding-comment pattern",
    "level_text": "For all inputs: a str source is passed through with the encoding comment > input_encoding > utf-8; a bytes source is decoded strictly with BOM => utf-8, else comment, else input_encoding, else utf-8; CompileException exactly for undecodable input or a BOM whose comment names a different codec; render returns str without output_encoding and the encoded join of the buffer otherwise.",
    "level_note": "Codecs are uninterpreted (bytes_decode, decodable, known_codec, codec_name): what each codec does to characters is covered by the bounded codec grid only, as are the module-directory and reload paths end to end and the identity render() == render_unicode().encode(...), which relates two calls. Assumed: re.Pattern.match as uninterpreted functions of (pattern, text, pos) with the meaning of the coding pattern validated by enumeration (C18.regex).",
}

KEYS = ["mako.lexer:_codec_name", "mako.lexer:Lexer.decode_raw_stream", "mako.util:FastEncodingBuffer.getvalue", "mako.runtime:_render", "mako.template:_compile_module_file"]


def regex_obligation(rep):
    """_coding_re: a comment on the first line naming an encoding; group 1 always takes part and is non-empty"""
    fn = "mako.lexer:Lexer._coding_re"
    tree = ast.parse(read_repo("mako/lexer.py"))
    pat = None
    for n in ast.walk(tree):
        if isinstance(n, ast.Assign) and getattr(n.targets[0], "id", "") == "_coding_re" and isinstance(n.value, ast.Call):
            pat = n.value.args[0].value
    if pat is None:
        rep.add(Result("C18.regex", UNDECIDED, klass="L", function=fn, output="_coding_re literal not found"))
        return
    t0 = time.time()
    rx = re.compile(pat)
    bad, n = [], 0
    import re._parser as sp
    tree_ = sp.parse(pat)
    g1_optional = False        # group 1 sits under no ? * | in the pattern tree (checked structurally)
    def walk(items, optional):
        nonlocal g1_optional
        for op, av in items:
            name = str(op)
            if name == "SUBPATTERN":
                if av[0] == 1 and optional:
                    g1_optional = True
                walk(av[3], optional)
            elif name in ("MAX_REPEAT", "MIN_REPEAT"):
                walk(av[2], optional or av[0] == 0)
            elif name == "BRANCH":
                for alt in av[1]:
                    walk(alt, True)
    walk(tree_, False)
    encs = ["utf-8", "latin-1", "cp1251", "a", "x.y-z_1"]
    for enc in encs:
        for pre in ("#", "##", "# -*- ", "## vim: set file", "#!"):
            for sep in ("coding:", "coding=", "coding: ", "coding:\t "):
                for post in ("", " -*-", " :"):
                    for nl in ("\n", "\r\n"):
                        s = pre + sep + enc + post + nl + "rest"
                        n += 1
                        m = rx.match(s)
                        if not m or m.group(1) != enc or m.end() != len(s) - 4:
                            bad.append({"text": s, "groups": m.groups() if m else None})
    for s in ("x# coding: utf-8\n", "\n# coding: utf-8\n", "# coding utf-8\n", "# coding: utf-8", "text\n## coding: utf-8\n", " # coding: utf-8\n"):
        n += 1
        if rx.match(s):
            bad.append({"text": s, "problem": "taken for a coding comment"})
    ok = not bad and not g1_optional
    rep.add(Result("C18.regex", DISCHARGED if ok else VIOLATED, klass="L", backend="re._parser+enum", function=fn, time_s=time.time() - t0,
                   detail="the coding pattern matches only a comment at the very start, ending with the first line; group 1 is mandatory and [-\\w.]+ (%d strings)" % n,
                   witness=bad[:2] or None, replayed=bool(bad), replay={"failures": bad[:3]} if bad else None))


def bounded(rep, tier):
    from vrf.bounded import codec_grid as G
    for oid, cases, fn, bound, what in (
            ("C18.codec-grid", list(G.cases()), G.run_case,
             "10 codecs x declaration style {comment, input_encoding, both agreeing, both conflicting, none, BOM, BOM+comment (3 spellings), BOM+conflicting comment, undecodable} x {bytes, file, module directory, reloaded}",
             "every source compiles to the same template as its decoded text; undecodable input and a contradicted BOM raise CompileException"),
            ("C18.output-grid", list(G.output_cases()), G.run_output,
             "10 sample repertoires x 5 encoding_errors x output_encoding {none, own codec, ascii, utf-8}",
             "render() is str without output_encoding, else render_unicode().encode(output_encoding, encoding_errors); render_unicode ignores output_encoding")):
        t0 = time.time()
        outs = [o for o in pool_map(fn, cases) if o]
        if outs:
            rep.add(Result(oid, VIOLATED, klass="B", backend="native-oracle", function="mako.lexer:Lexer.decode_raw_stream" if "codec" in oid else "mako.runtime:_render",
                           bound=bound, evaluations=len(cases), detail=str(outs[0])[:300], witness=outs[0], replayed=True, replay={"failures": outs[:3]}, time_s=time.time() - t0))
        else:
            rep.add(Result(oid, BOUNDED_OK, klass="B", backend="native-oracle", function="mako.lexer:Lexer.decode_raw_stream" if "codec" in oid else "mako.runtime:_render",
                           bound=bound, evaluations=len(cases), time_s=time.time() - t0, detail=what))


def run(rep, tier):
    rep.trust(*BASE_TRUST)
    rep.assume(*BASE_ASSUME)
    rep.assume("codecs are uninterpreted functions (bytes_decode, decodable, known_codec, codec_name with codec_name('utf-8') = 'utf-8')",
               "bytes.decode raises LookupError for an unknown codec name and UnicodeDecodeError for undecodable input under 'strict' only")
    run_pyvc(rep, KEYS, native_limit=0)
    # only the C18 clauses of the shared functions belong here
    regex_obligation(rep)
    bounded(rep, tier)
    link_bounded_witness(rep, only=lambda r: "decode_raw_stream" in r.oid)
