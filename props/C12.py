"""C12 — Runtime tracebacks and compile warnings map to template lines."""
import time

from vrf.core import Result, VIOLATED, BOUNDED_OK
from vrf.propkit import run_pyvc, pool_map, contracts_for, link_bounded_witness, BASE_TRUST, BASE_ASSUME

META = {
    "level": "proof",
    "technique": "contract-based deductive verification: the line accounting of the real PythonPrinter (a ghost count of newlines written; invariant 'lineno is the generated line about to be written' through write_blanks / write_indented_block / writeline; start_source records the first template line for that generated line; each line of a code block maps to its own template line: loop invariant) and the lexer's line/column bookkeeping in match_reg; VCs from their AST discharged by z3/cvc5",
    "level_text": "For all call sequences and inputs of the printer: the line counter equals 1 + newlines written + lines buffered after every operation, so the key start_source writes into the source map is the generated line the next statement lands on; a <% %> block's i-th line is mapped to template line start+i; earlier map entries are never overwritten. For the lexer: the line reported for a match is the line of the match start, the counter adds the newlines of the consumed text.",
    "level_note": "From the source map to what RichTraceback, the error templates, format_exceptions and the warning hooks display (metadata serialisation, full_line_map, frame walking, warning re-location) is outside the contracts: bounded traceback / chain / re-entrant-frame / warning grids on five construction paths (module directory absolute and relative). Known finding: frames of generated code ahead of a render function's first construct (def stubs, hoisted lookups) are reported at template line 0. Assumed: _flush_adjusted_lines writes each buffered line with one newline and empties the buffer (its re-margining is C19), _indent_line keeps a line's newlines, StringIO.write appends.",
}


def split_known(rep, outs):
    """a case whose only deviation is a frame reported at template line 0 is the known finding `preamble-frame-line-0`;
    anything else (also together with such a frame) stays a violation"""
    from vrf.core import Findings
    known = {e["witness_class"]: e for e in Findings().all_known("C12")}
    rest = []
    for o in outs:
        if "problem" not in o and o.get("line0") and "preamble-frame-line-0" in known:
            if not any(k.startswith(known["preamble-frame-line-0"]["what"][:60]) for k in rep.known_confirmed):
                rep.known_confirmed.append("%s [%s]" % (known["preamble-frame-line-0"]["what"], o["line0"][0][:160]))
        elif "problem" not in o and o.get("line0"):
            rest.append(dict(o, problem="; ".join(o["line0"][:2])))
        else:
            rest.append(o)
    return rest


def bounded(rep, tier):
    from vrf.bounded import traceback_grid as G
    paths = ("string", "file", "lookup", "moddir", "moddir-rel")
    t0 = time.time()
    jobs = [(k[0], p) for k in G.CONSTRUCTS for p in paths]
    outs = split_known(rep, [o for o in pool_map(G.run_fault, jobs) if o])
    bound = "%d construct kinds (expression, multi-line expression, code block line, control lines, def/block bodies, call argument, filter, after multi-line text and continuation lines) x 5 construction paths (string, file, lookup, module directory given absolute / relative to the working directory); RichTraceback records, text/html error templates, format_exceptions" % len(G.CONSTRUCTS)
    if outs:
        for o in outs:
            o.pop("template", None)
        rep.add(Result("C12.traceback-grid", VIOLATED, klass="B", backend="native-oracle", function="mako.exceptions:RichTraceback", bound=bound, evaluations=len(jobs),
                       detail=outs[0]["problem"][:300], witness=outs[0], replayed=True, replay={"failures": outs[:3]}, time_s=time.time() - t0))
    else:
        rep.add(Result("C12.traceback-grid", BOUNDED_OK, klass="B", backend="native-oracle", function="mako.exceptions:RichTraceback", bound=bound, evaluations=len(jobs),
                       time_s=time.time() - t0, detail="every planted fault reported with the template's name, source and line; Python frames unchanged"))
    t1 = time.time()
    chains = split_known(rep, [o for o in (G.run_chain(p) for p in ("string", "file", "moddir")) if o])
    if chains:
        rep.add(Result("C12.chain", VIOLATED, klass="B", backend="native-oracle", function="mako.exceptions:RichTraceback", bound="inherit + namespace + include chain x 3 paths", evaluations=3,
                       detail=chains[0]["problem"][:300], witness=chains[0], replayed=True, replay={"failures": chains}, time_s=time.time() - t1))
    else:
        rep.add(Result("C12.chain", BOUNDED_OK, klass="B", backend="native-oracle", function="mako.exceptions:RichTraceback", bound="inherit + namespace + include chain x 3 paths", evaluations=3,
                       time_s=time.time() - t1, detail="each of the four templates active in one traceback is reported with its own line"))
    t3 = time.time()
    rjobs = [(k, p) for k in G.REENTRANT for p in ("string", "file", "moddir")]
    routs = split_known(rep, [o for o in pool_map(G.run_reentrant, rjobs) if o])
    rb = "%d re-entrant frame sequences (template A, template B, template A again) x 3 paths" % len(G.REENTRANT)
    if routs:
        rep.add(Result("C12.reentrant", VIOLATED, klass="B", backend="native-oracle", function="mako.exceptions:RichTraceback._init", bound=rb, evaluations=len(rjobs),
                       detail=routs[0]["problem"][:300], witness=routs[0], replayed=True, replay={"failures": routs[:3]}, time_s=time.time() - t3))
    else:
        rep.add(Result("C12.reentrant", BOUNDED_OK, klass="B", backend="native-oracle", function="mako.exceptions:RichTraceback._init", bound=rb, evaluations=len(rjobs),
                       time_s=time.time() - t3, detail="every record carries its own template's source and line text; source/lineno are the innermost template frame's"))
    t2 = time.time()
    wjobs = [(k[0], p, a) for k in G.WARN_TEMPLATES for p in paths for a in ("always", "once", "error")]
    wouts = [o for o in pool_map(G.run_warning, wjobs) if o]
    wb = "4 warning sources (module-level warn(), invalid escape in expression / code block / control line) x 5 paths x filter actions {always, once, error}"
    if wouts:
        rep.add(Result("C12.warning-grid", VIOLATED, klass="B", backend="native-oracle", function="mako.template:_show_warnings_as", bound=wb, evaluations=len(wjobs),
                       detail=wouts[0]["problem"][:300], witness=wouts[0], replayed=True, replay={"failures": wouts[:3]}, time_s=time.time() - t2))
    else:
        rep.add(Result("C12.warning-grid", BOUNDED_OK, klass="B", backend="native-oracle", function="mako.template:_show_warnings_as", bound=wb, evaluations=len(wjobs),
                       time_s=time.time() - t2, detail="each warning shown exactly once against the template's file and line"))


def run(rep, tier):
    rep.trust(*BASE_TRUST)
    rep.assume(*BASE_ASSUME)
    keys = [k for k in contracts_for("C12")]
    run_pyvc(rep, keys, native_limit=0)
    bounded(rep, tier)
    link_bounded_witness(rep)
