"""C09 — Template lookup never escapes its configured directories."""
import ast
import re
import time

import z3

from vrf.core import Result, DISCHARGED, VIOLATED, UNDECIDED, ERROR, BOUNDED_OK, read_repo
from vrf.propkit import run_pyvc, pool_map, BASE_TRUST, BASE_ASSUME

LEVEL = "proof"
META = {
    "level": "proof",
    "technique": "contract-based deductive verification: contracts with ghost event counters on Template.__init__ (URI guard before any file access; module path), get_template/_load, adjust_uri and _lookup_template (VCs from the AST, z3/cvc5), a regex obligation that the lookup and the Template normalise a URI alike, and a glue lemma deriving containment from those postconditions and the assumed path contract A-path",
    "level_text": "For all URIs and directory lists: every Template the lookup constructs has passed the guard 'normalised URI does not start with ..' (proved to come before any file read, directory creation or module write), the relative path the lookup joins is the same function of the URI that the guard tests, and the module file is created only at abspath(join(normpath(module_directory), u_norm + '.py')); containment then follows from A-path.",
    "level_note": "Assumed: A-path (posixpath: d normalised, u without leading '/', normpath(u) not starting with '..' => normpath(join(d,u)) lexically inside d; validated exhaustively on <= 4/6-segment URIs each run, bounded), symbolic links are outside lexical containment, templates placed with put_template carry whatever filename the caller gave them. Trusted: pyvc, z3/cvc5, re._parser.",
}

KEYS = ["mako.template:Template.__init__", "mako.lookup:TemplateLookup.get_template", "mako.lookup:TemplateLookup._load",
        "mako.lookup:TemplateLookup.adjust_uri", "mako.runtime:_lookup_template", "mako.template:_compile_module_file"]


def agree_obligations(rep):
    """the lookup's  re.sub(P, '', s)  is  s.lstrip('/')  (so both sides normalise alike)"""
    import re._parser as sre_parse
    import re._constants as C
    from vrf.bounded.pathsweep import lstrip_lemma
    src = read_repo("mako/lookup.py")
    tree = ast.parse(src)
    pat = None
    for n in ast.walk(tree):
        if isinstance(n, ast.FunctionDef) and n.name == "get_template":
            for c in ast.walk(n):
                if isinstance(c, ast.Call) and isinstance(c.func, ast.Attribute) and c.func.attr == "sub" and c.args \
                        and isinstance(c.args[0], ast.Constant):
                    pat = c.args[0].value
                    repl = c.args[1].value if isinstance(c.args[1], ast.Constant) else None
    fn = "mako.lookup:TemplateLookup.get_template"
    if pat is None:
        rep.add(Result("C09.agree.regex", UNDECIDED, function=fn, output="the lookup no longer strips leading slashes with re.sub(<literal>, ...)"))
        return None
    t = sre_parse.parse(pat)
    items = list(t)
    shape_ok = (len(items) == 2 and items[0][0] is C.AT and str(items[0][1]) == "AT_BEGINNING"
                and items[1][0] is C.MAX_REPEAT and items[1][1][0] == 1 and items[1][1][1] == C.MAXREPEAT
                and len(items[1][1][2]) == 1 and items[1][1][2][0] == (C.LITERAL, ord("/")) and repl == "")
    n, bad = lstrip_lemma(pat)
    ok = shape_ok and not bad
    rep.add(Result("C09.agree.regex", DISCHARGED if ok else VIOLATED, klass="L", backend="re._parser+enum", function=fn,
                   detail="re.sub(%r, '', s) is s.lstrip('/'): anchored greedy run of '/' replaced by '' (tree shape) and equal on all %d strings of length <= 6 over {/ a . \\}" % (pat, n),
                   witness=bad[:2] or None, replayed=bool(bad), replay={"strings": bad[:3]} if bad else None))
    return pat


def glue_lemma(rep, pat):
    """containment from the discharged postconditions + the two lemmas (a two-line proof over contracts)"""
    t0 = time.time()
    S = z3.StringSort()
    normpath = z3.Function("normpath", S, S)
    pjoin = z3.Function("pjoin", S, S, S)
    repl = z3.Function("str_replace_all", S, S, S, S)
    lstrip = z3.Function("str_lstrip", S, S, S)
    resub = z3.Function("re_sub", S, S, S, S)
    inside = z3.Function("inside", S, S, z3.BoolSort())
    uri, d, filename = z3.Strings("uri d filename")
    bs, sl, P, E, dd = z3.StringVal("\\"), z3.StringVal("/"), z3.StringVal(pat), z3.StringVal(""), z3.StringVal("..")
    w_lookup = resub(P, E, repl(uri, bs, sl))           # get_template: invariant u-is-the-normalised-uri
    w_templ = lstrip(repl(uri, bs, sl), sl)             # Template.__init__: u_norm before normpath
    s = z3.String("s")
    L1 = z3.ForAll([s], resub(P, E, s) == lstrip(s, sl))                                    # C09.agree.regex
    u, dv = z3.Strings("u dv")
    APATH = z3.ForAll([u, dv], z3.Implies(z3.Not(z3.PrefixOf(dd, normpath(u))), inside(normpath(pjoin(dv, u)), dv)))   # A-path
    hyp = [L1, APATH,
           filename == normpath(normpath(pjoin(d, w_lookup))),     # _load: constructed-for-this-file, get_template: srcfile
           z3.ForAll([s], normpath(normpath(s)) == normpath(s)),   # normpath idempotent (part of A-path validation)
           z3.Not(z3.PrefixOf(dd, normpath(w_templ)))]             # Template.__init__: uri-accepted-only-inside-the-root
    goal = inside(filename, d)
    sv = z3.Solver()
    sv.set("timeout", 10000)
    sv.add(*hyp)
    sv.add(z3.Not(goal))
    r = sv.check()
    rep.add(Result("C09.contain", DISCHARGED if r == z3.unsat else UNDECIDED, backend="z3", time_s=time.time() - t0,
                   function="mako.lookup:TemplateLookup.get_template",
                   detail="filename of every template the lookup constructs lies inside the directory it was joined to: from get_template's "
                          "invariant (u = re.sub(P,'',uri.replace('\\\\','/'))), _load's postcondition (filename = normpath(srcfile), uri passed on), "
                          "Template.__init__'s postcondition (guard on normpath(uri.replace('\\\\','/').lstrip('/'))), C09.agree.regex and A-path"))


def single_door(rep):
    """runtime.py and lookup.py reach a Template for a URI only through lookup.get_template / the lookup's own constructors"""
    bad = []
    for f in ("mako/runtime.py",):
        tree = ast.parse(read_repo(f))
        for n in ast.walk(tree):
            if isinstance(n, ast.Call):
                fn = n.func
                nm = fn.attr if isinstance(fn, ast.Attribute) else getattr(fn, "id", "")
                if nm in ("Template", "ModuleTemplate", "open", "read_file", "read_python_file"):
                    bad.append("%s:%d %s(...)" % (f, n.lineno, nm))
    sites = []
    tree = ast.parse(read_repo("mako/lookup.py"))
    for n in ast.walk(tree):
        if isinstance(n, ast.FunctionDef):
            for c in ast.walk(n):
                if isinstance(c, ast.Call) and getattr(c.func, "id", "") == "Template":
                    sites.append(n.name)
    ok = not bad and sorted(set(sites)) == ["_load", "put_string"]
    rep.add(Result("C09.single-door", DISCHARGED if ok else UNDECIDED, klass="L", backend="ast-scan", function="mako.runtime / mako.lookup",
                   detail="runtime.py constructs no Template and opens no file itself; lookup.py constructs Templates only in _load (file, guarded) and put_string (text)",
                   output="unexpected: %s; constructor sites: %s" % (bad, sites)))


def bounded(rep, tier):
    from vrf.bounded.pathsweep import apath_chunk, uri_sweep
    t0 = time.time()
    nseg = 4 if tier == "quick" else 6
    jobs = [(k, part, 16) for k in range(1, nseg + 1) for part in range(16)]
    outs = pool_map(apath_chunk, jobs)
    n = sum(o[0] for o in outs)
    bad = [b for o in outs for b in o[1]]
    bound = "all relative paths of <= %d segments over 9 segment forms x {/, //} x trailing slash x 9 directory spellings" % nseg
    if bad:
        rep.add(Result("C09.A-path.validation", ERROR, klass="B", backend="posixpath", function="posixpath", bound=bound, evaluations=n,
                       output="the assumed contract A-path is false: %r" % bad[:2]))
    else:
        rep.add(Result("C09.A-path.validation", BOUNDED_OK, klass="B", backend="posixpath", function="posixpath", bound=bound,
                       evaluations=n, time_s=time.time() - t0, detail="no counter-example to A-path"))
    t1 = time.time()
    n2, bad2 = uri_sweep(2 if tier == "quick" else 3, module_directory=True, seed=rep.seed)
    bound2 = "every URI of <= %d segments over 11 segment forms x 4 leading spellings x 3 directory spellings through a real TemplateLookup (module_directory on) with an audit hook on open()" % (2 if tier == "quick" else 3)
    if bad2:
        rep.add(Result("C09.uri-sweep", VIOLATED, klass="B", backend="native-audit", function="mako.lookup:TemplateLookup.get_template",
                       bound=bound2, evaluations=n2, detail="a URI reaches outside the configured directory: %r" % bad2[0],
                       witness=bad2[0], replayed=True, replay={"failures": bad2[:3]}, time_s=time.time() - t1))
    else:
        rep.add(Result("C09.uri-sweep", BOUNDED_OK, klass="B", backend="native-audit", function="mako.lookup:TemplateLookup.get_template",
                       bound=bound2, evaluations=n2, time_s=time.time() - t1,
                       detail="every returned filename and every opened file lies inside the directory; no outside content rendered"))


def run(rep, tier):
    rep.trust(*BASE_TRUST)
    rep.assume(*BASE_ASSUME)
    rep.assume("A-path (posixpath): for d normalised and u without leading '/', not normpath(u).startswith('..') implies normpath(join(d, u)) lies lexically inside d; abspath preserves that",
               "symbolic links are outside lexical containment; put_template entries carry the caller's filename")
    run_pyvc(rep, KEYS, native_limit=0)
    pat = agree_obligations(rep)
    if pat is not None:
        glue_lemma(rep, pat)
    single_door(rep)
    bounded(rep, tier)
    # a failing URI found by the sweep is the replayed input for the deductive obligations that failed with it
    sweep = [r for r in rep.results if r.oid == "C09.uri-sweep" and r.status == VIOLATED]
    failing = [r for r in rep.results if r.klass == "P" and (r.status == VIOLATED or (r.status == UNDECIDED and r.cand))]
    if failing and not sweep and tier == "quick":
        # a deductive obligation failed: look harder for the input that shows it
        from vrf.bounded.pathsweep import uri_sweep
        n3, bad3 = uri_sweep(3, module_directory=False)
        if bad3:
            rep.add(Result("C09.uri-sweep.deep", VIOLATED, klass="B", backend="native-audit", function="mako.lookup:TemplateLookup.get_template",
                           bound="URIs of <= 3 segments", evaluations=n3, detail="a URI reaches outside the configured directory: %r" % bad3[0],
                           witness=bad3[0], replayed=True, replay={"failures": bad3[:3]}))
            sweep = [rep.results[-1]]
    if sweep:
        for r in rep.results:
            if r.klass == "P" and not r.replayed and (r.status == VIOLATED or (r.status == UNDECIDED and r.cand)):
                r.replayed = True
                r.replay = dict(r.replay or {}, native_input=sweep[0].witness,
                                how="TemplateLookup(directories=[d]).get_template(uri) over a scratch tree, audit hook on open()")
