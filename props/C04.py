"""C04 — Names resolve through scopes ... context isolation, reserved names"""
from vrf.propkit import run_pyvc, contracts_for, BASE_TRUST, BASE_ASSUME

LEVEL = "proof"
META = {
    "level": "proof",
    "technique": "contract-based deductive verification: sidecar pre/postconditions, frames and loop invariants on the real functions, VCs generated from their AST, discharged by z3/cvc5",
    "level_text": 'Run time: Context data access, copy/isolation functions, kwargs and the reserved-name guard of the render entry point are verified for all dict contents; frame conditions prove that template code paths do not alter the data seen by other scopes. Compile time: for every visitor of _Identifiers (code, expressions, control lines, include, text, page, call, def; children under the induction hypothesis) the names demanded from the context are exactly those a node reads without binding them, minus context and what is already declared or local, and what a node binds becomes local / an argument; the stub of a top-level def hands on the body locals exactly when the template body has any; _Identifiers.__init__ lets a scope use what its parent declared, bound or took as arguments (nested: also what the parent demands) and binds no reserved name; write_variable_declares looks up exactly the names read and not bound, taken as arguments, `loop` or outside the limiting set - imported namespaces first, then the context, then UNDEFINED or (strict) NameError - and declares names from the context before the defs whose argument defaults may read them.',
    "level_note": 'Trusted: the pyvc encoding of Python semantics (DESIGN 3.1), z3/cvc5, assumed contracts listed in the evidence, the induction hypothesis for opaque render callables (R3). Native small-scope runs of the same contracts are bounded stand-ins, never counted as proved.',
}


def grids(rep, tier):
    import time
    from vrf.core import Result, VIOLATED, BOUNDED_OK
    from vrf.propkit import pool_map
    from vrf.bounded.scope_grid import cases, run_case, reserved_grid
    t0 = time.time()
    outs = [o for o in pool_map(run_case, list(cases())) if o is not None]
    bad = [o for o in outs if o[0] in ("bad", "error")]
    skipped = sum(1 for o in outs if o[0] == "skipped")
    bound = "binding-site sets (empty, singles, all pairs, 7 larger sets over context / page arg / body assignment / def argument / enclosing-def local / loop target / module-level / imported def) x 12 read sites x strict_undefined on/off; %d combinations where the statement is silent skipped" % skipped
    if bad:
        b = bad[0]
        w = {"bindings": list(b[1][0]), "read_site": b[1][1], "strict_undefined": b[1][2], "template": b[2], "problem": b[3]}
        rep.add(Result("C04.scope-grid", VIOLATED, klass="B", backend="native-oracle", function="generated", bound=bound, evaluations=len(outs),
                       detail="name resolved against the stated order: %s" % b[3], witness=w, replayed=True,
                       replay={"failures": [{"bindings": list(x[1][0]), "read_site": x[1][1], "strict_undefined": x[1][2], "template": x[2], "problem": x[3]} for x in bad[:3]]},
                       time_s=time.time() - t0))
    else:
        rep.add(Result("C04.scope-grid", BOUNDED_OK, klass="B", backend="native-oracle", function="generated", bound=bound, evaluations=len(outs),
                       time_s=time.time() - t0, detail="every read resolved to the binding the stated order selects (or UNDEFINED / NameError under strict_undefined)"))
    t1 = time.time()
    n, bad2 = reserved_grid()
    bound2 = "reserved names x 8 assignment forms x enable_loop on/off, and x 5 render entry points"
    if bad2:
        rep.add(Result("C04.reserved-grid", VIOLATED, klass="B", backend="native-oracle", function="mako.codegen:_Identifiers / mako.runtime:Context", bound=bound2,
                       evaluations=n, detail=bad2[0]["problem"], witness=bad2[0], replayed=True, replay={"failures": bad2[:3]}, time_s=time.time() - t1))
    else:
        rep.add(Result("C04.reserved-grid", BOUNDED_OK, klass="B", backend="native-oracle", function="mako.codegen:_Identifiers / mako.runtime:Context", bound=bound2,
                       evaluations=n, time_s=time.time() - t1, detail="every assignment form and every render entry point raised NameConflictError"))

    # names that only look bound: comprehension variables, lambda and function parameters, function locals
    from vrf.bounded.scope_grid import nonbinding_cases, run_nonbinding
    from vrf.core import Findings
    t2 = time.time()
    nb = nonbinding_cases()
    outs3 = [o for o in pool_map(run_nonbinding, nb) if o]
    known = {e["witness_class"]: e for e in Findings().all_known("C04")}
    unknown = []
    for o in outs3:
        if o["kind"].endswith("-in-block") and ("comprehension" in o["kind"] or "generator" in o["kind"]) and "block-level-comprehension-variable" in known:
            if not any(k.startswith(known["block-level-comprehension-variable"]["what"][:60]) for k in rep.known_confirmed):
                rep.known_confirmed.append("%s [%s]" % (known["block-level-comprehension-variable"]["what"], o["template"].replace("\n", " / ")[:100]))
        else:
            unknown.append(o)
    bound3 = "10 constructs that mention a name in a binding position without binding it in the enclosing scope x {body, def, block} x strict_undefined, followed by a read of the name"
    if unknown:
        rep.add(Result("C04.non-binding-grid", VIOLATED, klass="B", backend="native-oracle", function="mako.pyparser:FindIdentifiers / mako.codegen:_Identifiers", bound=bound3,
                       evaluations=len(nb), detail="%s: %s" % (unknown[0]["kind"], unknown[0]["got"]), witness=unknown[0], replayed=True, replay={"failures": unknown[:3]}, time_s=time.time() - t2))
    else:
        rep.add(Result("C04.non-binding-grid", BOUNDED_OK, klass="B", backend="native-oracle", function="mako.pyparser:FindIdentifiers / mako.codegen:_Identifiers", bound=bound3,
                       evaluations=len(nb), time_s=time.time() - t2, detail="the later read resolves to the context (%d cases of the known finding excluded)" % (len(outs3) - len(unknown))))

    # a name read only inside a nested function / lambda / comprehension (also one that reuses it as loop variable)
    from vrf.bounded.scope_grid import inner_read_cases, run_inner_read
    t5 = time.time()
    ir = inner_read_cases()
    outs5 = [o for o in pool_map(run_inner_read, ir) if o]
    b5 = "12 constructs whose only read of a context name is inside a nested function, lambda, parameter default or comprehension iterable (six reuse the name as the comprehension variable) x {body, def, block} x strict_undefined"
    if outs5:
        rep.add(Result("C04.inner-read-grid", VIOLATED, klass="B", backend="native-oracle", function="mako.pyparser:FindIdentifiers / mako.codegen:_Identifiers", bound=b5,
                       evaluations=len(ir), detail="%s: %s" % (outs5[0]["kind"], outs5[0]["got"]), witness=outs5[0], replayed=True, replay={"failures": outs5[:3]}, time_s=time.time() - t5))
    else:
        rep.add(Result("C04.inner-read-grid", BOUNDED_OK, klass="B", backend="native-oracle", function="mako.pyparser:FindIdentifiers / mako.codegen:_Identifiers", bound=b5,
                       evaluations=len(ir), time_s=time.time() - t5, detail="every inner read resolves to the context value"))

    # names read or bound only in an else / elif / finally / handler clause of a statement in a <% %> block
    from vrf.bounded import reemit_grid as RG
    t4 = time.time()
    stm = [s for s in RG.STMTS if "else:" in s or "finally:" in s or "elif" in s]
    outs4 = [o for o in pool_map(RG.identifiers_case, stm) if o]
    b4 = "%d statement forms with else / elif / finally / except clauses (for, while, try, if, nested)" % len(stm)
    if outs4:
        rep.add(Result("C04.clause-grid", VIOLATED, klass="B", backend="symtable-oracle", function="mako.pyparser:FindIdentifiers", bound=b4, evaluations=len(stm),
                       detail=str(outs4[0])[:300], witness=outs4[0], replayed=True, replay={"failures": outs4[:3]}, time_s=time.time() - t4))
    else:
        rep.add(Result("C04.clause-grid", BOUNDED_OK, klass="B", backend="symtable-oracle", function="mako.pyparser:FindIdentifiers", bound=b4, evaluations=len(stm),
                       time_s=time.time() - t4, detail="names read in any clause and not bound are demanded from the context; names bound in any clause are local"))


def run(rep, tier):
    rep.trust(*BASE_TRUST)
    rep.assume(*BASE_ASSUME)
    run_pyvc(rep, contracts_for("C04"), native_limit=150 if tier == "quick" else 600)
    grids(rep, tier)
    from vrf.propkit import link_bounded_witness
    link_bounded_witness(rep, only=lambda r: "write_def_decl" in r.oid)
