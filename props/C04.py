"""C04 — Names resolve through scopes ... context isolation, reserved names"""
from vrf.propkit import run_pyvc, contracts_for, BASE_TRUST, BASE_ASSUME

LEVEL = "proof"
META = {
    "level": "proof",
    "technique": "contract-based deductive verification: sidecar pre/postconditions, frames and loop invariants on the real functions, VCs generated from their AST, discharged by z3/cvc5",
    "level_text": 'Context data access, copy/isolation functions, kwargs and the reserved-name guard of the render entry point are verified for all dict contents; frame conditions prove that template code paths do not alter the data seen by other scopes.',
    "level_note": 'Trusted: the pyvc encoding of Python semantics (DESIGN 3.1), z3/cvc5, assumed contracts listed in the evidence, the induction hypothesis for opaque render callables (R3). Native small-scope runs of the same contracts are bounded stand-ins, never counted as proved.',
}


def run(rep, tier):
    rep.trust(*BASE_TRUST)
    rep.assume(*BASE_ASSUME)
    run_pyvc(rep, contracts_for("C04"), native_limit=150 if tier == "quick" else 600)
