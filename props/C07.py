"""C07 — Namespaces and includes reach other templates with the right context and URI"""
from vrf.propkit import run_pyvc, contracts_for, BASE_TRUST, BASE_ASSUME

LEVEL = "proof"
META = {
    "level": "proof",
    "technique": "contract-based deductive verification: sidecar pre/postconditions, frames and loop invariants on the real functions, VCs generated from their AST, discharged by z3/cvc5",
    "level_text": "_include_file, _kwargs_for_include, _lookup_template and the context-cleaning functions are verified: include arguments come from args first and context second, the includer's data is untouched, the context an included template's chain starts from carries none of the includer's self/parent/next (call-site precondition on _populate_self_namespace), lookups are relative to the calling template.",
    "level_note": 'Trusted: the pyvc encoding of Python semantics (DESIGN 3.1), z3/cvc5, assumed contracts listed in the evidence, the induction hypothesis for opaque render callables (R3). Native small-scope runs of the same contracts and the include-from-an-inheriting-template grid are bounded stand-ins, never counted as proved.',
}


def run(rep, tier):
    rep.trust(*BASE_TRUST)
    rep.assume(*BASE_ASSUME)
    run_pyvc(rep, contracts_for("C07"), native_limit=150 if tier == "quick" else 600)
    # bounded stand-in: an include written in a template that takes part in an inheritance chain is still a chain of its own
    import time
    from vrf.core import Result, VIOLATED, BOUNDED_OK
    from vrf.bounded import inherit_grid as G
    from vrf.propkit import link_bounded_witness
    t0 = time.time()
    n, bad = G.include_cases()
    bound = "included chain of length 1 and 2 x colliding / distinct block name, included from an inheriting template"
    if bad:
        rep.add(Result("C07.include-independent", VIOLATED, klass="B", backend="native-model", function="mako.runtime:_include_file", bound=bound, evaluations=n,
                       detail=str(bad[0])[:250], witness=bad[0], replayed=True, replay={"failures": bad}, time_s=time.time() - t0))
    else:
        rep.add(Result("C07.include-independent", BOUNDED_OK, klass="B", backend="native-model", function="mako.runtime:_include_file", bound=bound, evaluations=n,
                       time_s=time.time() - t0, detail="the included template's named blocks render at their position; the includer's parent/next are not visible to it"))
    # import= names come ahead of context variables, with and without strict_undefined, at every read site
    from vrf.bounded.scope_grid import cases as scope_cases, run_case as scope_run
    from vrf.propkit import pool_map
    t1 = time.time()
    ic = [c for c in scope_cases() if "imported" in c[0]]
    io = [o for o in pool_map(scope_run, ic) if o is not None and o[0] in ("bad", "error")]
    b1 = "%d templates: an imported def's name also bound in the context / page args / body / module level, read at 13 kinds of site, strict_undefined on and off" % len(ic)
    if io:
        w = {"bindings": list(io[0][1][0]), "read_site": io[0][1][1], "strict_undefined": io[0][1][2], "template": io[0][2], "problem": io[0][3]}
        rep.add(Result("C07.import-precedence", VIOLATED, klass="B", backend="native-oracle", function="mako.codegen:write_variable_declares / mako.runtime:Namespace._populate", bound=b1,
                       evaluations=len(ic), detail=io[0][3], witness=w, replayed=True, replay={"failures": [w]}, time_s=time.time() - t1))
    else:
        rep.add(Result("C07.import-precedence", BOUNDED_OK, klass="B", backend="native-oracle", function="mako.codegen:write_variable_declares / mako.runtime:Namespace._populate", bound=b1,
                       evaluations=len(ic), time_s=time.time() - t1, detail="the imported def wins over the context at every read site, whatever strict_undefined says"))
    link_bounded_witness(rep, only=lambda r: "_include_file" in r.oid)
