"""C19 — Embedded Python keeps its meaning through analysis and re-emission."""
import ast
import time

from vrf.core import Result, DISCHARGED, VIOLATED, UNDECIDED, BOUNDED_OK
from vrf.propkit import pool_map, link_bounded_witness

META = {
    "level": "other",
    "technique": "the functions this property rests on (an AST-to-source generator with one visitor per node type, an AST scope walker, a line-oriented re-margining scanner) were not brought within the contract verifier's reach; what is decided without a bound is the operator table (every entry checked against the parser, a finite domain enumerated completely); everything else is a bounded stand-in: expressions generated from CPython's ast grammar re-emitted and compared tree-for-tree, scope analysis compared with symtable, re-margined blocks compared with native execution",
    "level_text": "Complete over its finite domain: every operator symbol the source generator can emit parses to the operator class it is listed under, and every binary/unary/boolean/comparison operator class of this Python has an entry or is covered by the round-trip fallback. Bounded: random expressions to depth 3-5 (all node kinds of the stated grammar) re-emit to the same tree and evaluate to the same value as argument default and as filter argument; statement forms of the stated grammar demand from the context exactly the names symtable reports as read-but-unbound; blocks at 6 margins (spaces/tabs) with multi-line strings, continuations and comments give the native result.",
    "level_note": "Bounded stand-in, not proof. Outside the stated grammar and observed: class bodies and `del` are not scanned by FindIdentifiers. Trusted oracles: ast.parse / ast.dump, symtable, exec.",
}


def operator_tables(rep):
    t0 = time.time()
    from mako import _ast_util as U
    bad, n = [], 0
    for table, fmt in ((U.BINOP_SYMBOLS, "a %s b"), (U.BOOLOP_SYMBOLS, "a %s b"), (U.CMPOP_SYMBOLS, "a %s b"), (U.UNARYOP_SYMBOLS, "%s a")):
        for cls, sym in table.items():
            n += 1
            node = ast.parse(fmt % sym, mode="eval").body
            op = node.op if hasattr(node, "op") else node.ops[0]
            if type(op) is not cls:
                bad.append("%s listed under %s parses to %s" % (sym, cls.__name__, type(op).__name__))
    # classes without an entry must be handled by the fallback: checked by round trip
    from mako import pyparser
    missing = []
    for base, table, fmt in ((ast.operator, U.BINOP_SYMBOLS, "a %s b"), (ast.unaryop, U.UNARYOP_SYMBOLS, "%s a"), (ast.cmpop, U.CMPOP_SYMBOLS, "a %s b"), (ast.boolop, U.BOOLOP_SYMBOLS, "a %s b")):
        for cls in base.__subclasses__():
            if cls in table:
                continue
            n += 1
            sym = {"Pow": "**", "MatMult": "@"}.get(cls.__name__)
            if sym is None:
                missing.append(cls.__name__)
                continue
            tree = ast.parse(fmt % sym, mode="eval").body
            try:
                back = ast.parse(pyparser.ExpressionGenerator(tree).value().strip(), mode="eval").body
                if ast.dump(back) != ast.dump(tree):
                    bad.append("%s re-emitted with another meaning" % sym)
            except Exception as e:
                bad.append("%s cannot be re-emitted: %s" % (sym, type(e).__name__))
    ok = not bad and not missing
    rep.add(Result("C19.operator-tables", DISCHARGED if ok else VIOLATED, klass="P", backend="enum-complete", function="mako._ast_util:SourceGenerator", time_s=time.time() - t0,
                   detail="all %d operator classes of this interpreter: listed symbols parse to their class, unlisted ones (Pow, MatMult) round-trip" % n,
                   witness=(bad + missing)[:3] or None, replayed=bool(bad), replay={"failures": bad[:5]} if bad else None))


def bounded(rep, tier):
    from vrf.bounded import reemit_grid as G
    nseed, depth = (60, 3) if tier == "quick" else (3000, 5)
    for oid, jobs, fn, bound, what, func in (
            ("C19.reemit-grid", [(s, depth if s % 3 else depth - 1) for s in range(nseed)], G.reemit_case,
             "%d x 40 random expressions to depth %d over names, constants, attribute/subscript/slices, calls with * and **, unary/binary/boolean/comparison operators incl. ** and @, conditional expressions, lambdas (all parameter kinds), tuples/lists/sets/dicts incl. unpacking, comprehensions, f-strings, :=" % (nseed, depth),
             "every re-emitted expression parses back to the tree it came from", "mako.pyparser:ExpressionGenerator"),
            ("C19.position-grid", [(s, 2) for s in range(nseed)], G.template_position_case,
             "%d x 12 closed expressions as <%%def> argument default and as filter-call argument, rendered" % nseed,
             "each evaluates to the value Python gives the expression as written", "mako.ast:FunctionArgs / ArgumentList")):
        t0 = time.time()
        outs = [x for o in pool_map(fn, jobs) for x in o]
        if outs:
            rep.add(Result(oid, VIOLATED, klass="B", backend="native-oracle", function=func, bound=bound, evaluations=len(jobs) * 12,
                           detail=str(outs[0])[:300], witness=outs[0], replayed=True, replay={"failures": outs[:3]}, time_s=time.time() - t0))
        else:
            rep.add(Result(oid, BOUNDED_OK, klass="B", backend="native-oracle", function=func, bound=bound, evaluations=len(jobs) * 12, time_s=time.time() - t0, detail=what))
    t1 = time.time()
    outs = [o for o in pool_map(G.identifiers_case, G.STMTS) if o]
    b2 = "%d statement forms (assignments, augmented assignment, for/while/if/try/with, imports, defs with every parameter kind and defaults, lambdas, nested functions, comprehensions of every kind, f-strings, annotations, global)" % len(G.STMTS)
    if outs:
        rep.add(Result("C19.identifiers-grid", VIOLATED, klass="B", backend="symtable-oracle", function="mako.pyparser:FindIdentifiers", bound=b2, evaluations=len(G.STMTS),
                       detail=str(outs[0])[:300], witness=outs[0], replayed=True, replay={"failures": outs[:3]}, time_s=time.time() - t1))
    else:
        rep.add(Result("C19.identifiers-grid", BOUNDED_OK, klass="B", backend="symtable-oracle", function="mako.pyparser:FindIdentifiers", bound=b2, evaluations=len(G.STMTS),
                       time_s=time.time() - t1, detail="names demanded from the context = names symtable reports as read but not bound by the code"))
    t15 = time.time()
    ns = 40 if tier == "quick" else 4000
    outs = [x for o in pool_map(G.scope_random_case, list(range(ns))) for x in o]
    b25 = "%d x 25 random nested-scope programs (defs, lambdas with every parameter kind and defaults, comprehensions) over a pool of four names, so that inner bindings collide with outer reads" % ns
    if outs:
        rep.add(Result("C19.scope-random-grid", VIOLATED, klass="B", backend="symtable-oracle", function="mako.pyparser:FindIdentifiers", bound=b25, evaluations=ns * 25,
                       detail=str(outs[0])[:300], witness=outs[0], replayed=True, replay={"failures": outs[:3]}, time_s=time.time() - t15))
    else:
        rep.add(Result("C19.scope-random-grid", BOUNDED_OK, klass="B", backend="symtable-oracle", function="mako.pyparser:FindIdentifiers", bound=b25, evaluations=ns * 25,
                       time_s=time.time() - t15, detail="names demanded from the context = symtable's read-but-unbound names"))
    # signatures: what a def / block signature is re-emitted as (shared with C05)
    from vrf.bounded import signature_grid as SG
    from vrf.core import Findings
    t17 = time.time()
    sc = list(SG.signatures())
    souts = [o for o in pool_map(SG.run_signature, sc) if o]
    known5 = {e["witness_class"]: e for e in Findings().all_known("C05")}
    srest = [o for o in souts if not (o["bare_star"] and "bare-star-dropped" in known5)]
    b17 = "%d signatures: positional parameters with defaults, *r / bare *, ordered choices of keyword-only parameters with and without defaults, **kw" % len(sc)
    if srest:
        rep.add(Result("C19.signature-grid", VIOLATED, klass="B", backend="native-oracle", function="mako.ast:FunctionDecl.get_argument_expressions", bound=b17, evaluations=len(sc),
                       detail="%s: %s" % (srest[0]["signature"], srest[0]["problem"][:200]), witness=srest[0], replayed=True, replay={"failures": srest[:3]}, time_s=time.time() - t17))
    else:
        rep.add(Result("C19.signature-grid", BOUNDED_OK, klass="B", backend="native-oracle", function="mako.ast:FunctionDecl.get_argument_expressions", bound=b17, evaluations=len(sc),
                       time_s=time.time() - t17, detail="re-emitted signatures equal inspect.signature of the text as written (%d bare-star signatures: known finding listed under C05)" % (len(souts) - len(srest))))
    t2 = time.time()
    margins = ["", " ", "  ", "    ", "\t", "            ", "\t\t", "      "]
    jobs = [(i, m) for i in range(len(G.BLOCKS)) for m in margins]
    outs = [o for o in pool_map(G.margin_case, jobs) if o]
    b3 = "%d blocks (multi-line strings, backslash continuations, comments at several margins, nested compound statements, blank lines) x margins of 0-12 spaces and 1-2 tabs" % len(G.BLOCKS)
    if outs:
        rep.add(Result("C19.margin-grid", VIOLATED, klass="B", backend="native-oracle", function="mako.pygen:adjust_whitespace / PythonPrinter._flush_adjusted_lines", bound=b3,
                       evaluations=len(jobs), detail=str(outs[0])[:300], witness=outs[0], replayed=True, replay={"failures": outs[:3]}, time_s=time.time() - t2))
    else:
        rep.add(Result("C19.margin-grid", BOUNDED_OK, klass="B", backend="native-oracle", function="mako.pygen:adjust_whitespace / PythonPrinter._flush_adjusted_lines", bound=b3,
                       evaluations=len(jobs), time_s=time.time() - t2, detail="control flow and every string literal as Python reads the block at that indentation"))


def run(rep, tier):
    rep.trust("CPython 3.12: ast.parse / ast.dump / ast.unparse, symtable and exec as the reference semantics of embedded Python")
    rep.assume("the expression and statement generators cover the node kinds of the stated grammar (listed in the bounds)")
    from vrf.core import read_repo
    rep.function("mako._ast_util:SourceGenerator (operator tables)", read_repo("mako/_ast_util.py"))
    operator_tables(rep)
    bounded(rep, tier)
    link_bounded_witness(rep)
