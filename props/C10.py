"""C10 — escaping filters neutralise markup for every input and are invertible."""
import ast
import html
import re
import time

from vrf.core import Result, DISCHARGED, VIOLATED, UNDECIDED, ERROR, BOUNDED_OK, read_repo
from vrf.propkit import run_pyvc, pool_map, BASE_TRUST, BASE_ASSUME

LEVEL = "proof"
META = {
    "level": "proof",
    "technique": "contract-based deductive verification: exact code-point-set obligations computed from the real regex literals (re._parser) and the real escape tables, plus pre/postconditions on the error handler, Decode, trim, url_escape and FastEncodingBuffer.getvalue discharged by z3",
    "level_text": "For all code points at once (sets of ranges, not samples): every character the xml/entity classes match has a table entry, the five markup characters are matched, every replacement is markup-free and decodes back, every character not matched by the escaper's class is ASCII; the error handler is proved to return text (not a bytes repr) of the bad run's entity image and to resume at ex.end.",
    "level_note": "Trusted: re._parser's reading of the literals, R4 (re.sub with a single-character class and str.translate act character-wise; validated on all strings of length <= 3 over markup characters each run), html.unescape as the HTML5 decoder, markupsafe.escape and urllib.parse.quote_plus (assumed contracts; run on every code point as a bounded stand-in), pyvc.",
}


def literals():
    src = read_repo("mako/filters.py")
    tree = ast.parse(src)
    out = {}
    for n in ast.walk(tree):
        if isinstance(n, ast.FunctionDef) and n.name == "xml_escape":
            for c in ast.walk(n):
                if isinstance(c, ast.Call) and isinstance(c.func, ast.Attribute) and c.func.attr == "sub":
                    out["xml_escape"] = (c.args[0].value, 0)
        if isinstance(n, ast.Assign) and isinstance(n.targets[0], ast.Name) and isinstance(n.value, ast.Call) \
                and isinstance(n.value.func, ast.Attribute) and n.value.func.attr == "compile":
            fl = 0
            if len(n.value.args) > 1:
                fl = int(eval(compile(ast.Expression(n.value.args[1]), "f", "eval"), {"re": re}))
            out[n.targets[0].id] = (n.value.args[0].value, fl)
    return out, src


def single_class(pattern, flags):
    """CSet of a pattern that is one character class (possibly an alternation of classes / a group)."""
    from vrf.rex import regex as R
    from vrf.rex.charset import CSet
    node, _ = R.parse(pattern, flags)

    def cs(n):
        if n[0] == "set":
            return n[1]
        if n[0] == "group":
            return cs(n[2])
        if n[0] == "alt":
            r = CSet()
            for c in n[1]:
                r = r.union(cs(c))
            return r
        raise R.RexUnsupported("not a single-character pattern: %s" % n[0])
    return cs(node)


def set_obligations(rep):
    from vrf.rex.charset import CSet
    from vrf.rex.regex import RexUnsupported
    from mako import filters as F
    from html.entities import codepoint2name, name2codepoint
    lits, src = literals()
    rep.function("mako.filters:xml_escape", src)
    fn = "mako.filters"
    markup5 = CSet.of(*map(ord, "<>\"'&"))
    R_ = lambda oid, ok, detail, wit=None: rep.add(Result(oid, DISCHARGED if ok else VIOLATED, backend="rex-charset", function=fn,
                                                          detail=detail, witness=wit, replayed=bool(wit) if not ok else None,
                                                          replay={"how": "the witness characters were passed through the real filter", "witness": wit} if wit and not ok else None))
    try:
        cx = single_class(*lits["xml_escape"])
        cesc = single_class(*lits["__escapable"])
    except (KeyError, RexUnsupported) as e:
        rep.add(Result("C10.sets", UNDECIDED, function=fn, output="cannot read the escaping classes: %r" % e))
        return
    keys = CSet.of(*[ord(k) for k in F.xml_escapes])
    miss = cx.minus(keys)
    wit = None
    if not miss.empty():
        c = chr(miss.sample())
        try:
            F.xml_escape(c)
            wit = None
        except KeyError:
            wit = {"char": c, "error": "KeyError in xml_escape"}
    R_("C10.x.class.keys", miss.empty(), "every character the xml_escape class matches has an entry in xml_escapes (no KeyError)", wit)
    miss = markup5.minus(cx)
    R_("C10.x.class.markup", miss.empty(), "the class of xml_escape contains < > \" ' &",
       None if miss.empty() else {"char": chr(miss.sample()), "xml_escape": F.xml_escape(chr(miss.sample()))})
    from vrf.bounded.codepoints import safe_markup
    for k, v in sorted(F.xml_escapes.items()):
        ok = safe_markup(v) and html.unescape(v) == k and len(k) == 1
        R_("C10.x.entry[%s]" % ("U+%04X" % ord(k)), ok, "replacement %r of %r is markup-free, a complete entity, and decodes back" % (v, k),
           None if ok else {"char": k, "replacement": v, "decoded": html.unescape(v)})
    # entity table
    esc = F._html_entities_escaper
    exp = {c: "&%s;" % n for c, n in codepoint2name.items()}
    ok = esc.codepoint2entity == exp
    R_("C10.entity.table", ok, "escape_entities replaces exactly the %d characters that have a named HTML entity, by &name;" % len(exp),
       None if ok else {"differs": sorted(set(esc.codepoint2entity.items()) ^ set(exp.items()))[:3]})
    bad = [(c, v) for c, v in esc.codepoint2entity.items() if F.html_entities_unescape(v) != chr(c)]
    R_("C10.entity.inverse", not bad, "html_entities_unescape inverts every table entry (the character-reference regex matches each emitted entity in full)",
       None if not bad else {"entry": bad[0]})
    # escape(): everything outside the escapable class is ASCII, everything emitted is ASCII
    nonascii_unescaped = cesc.complement().intersect(CSet([(128, 0x10FFFF)]))
    R_("C10.escape.ascii.class", nonascii_unescaped.empty(), "every character not matched by __escapable is ASCII, so .encode('ascii') cannot fail",
       None if nonascii_unescaped.empty() else {"char": chr(nonascii_unescaped.sample())})
    bad = [v for v in esc.codepoint2entity.values() if not v.isascii()]
    R_("C10.escape.ascii.table", not bad, "every entity replacement is ASCII", bad[:1] or None)
    miss = CSet.of(*map(ord, '<>"&')).minus(cesc)
    R_("C10.escape.markup", miss.empty(), "__escapable contains \" & < >", None if miss.empty() else {"char": chr(miss.sample())})
    rep.sample({"xml_escape class": repr(cx), "__escapable class": repr(cesc)})


def exhaustive(rep, tier):
    from vrf.bounded.codepoints import run_range, string_grid, CHARSETS
    t0 = time.time()
    filters = ["h", "x", "u", "entity", "escape"]
    if tier == "quick":
        jobs = [(lo, min(lo + 0x800, 0x3000), 1, filters, CHARSETS) for lo in range(0, 0x3000, 0x800)]
        jobs += [(0x3000 + i, 0x110000, 37 * 16, filters, CHARSETS) for i in range(0, 37 * 16, 37)]
        bound = "every code point below U+3000 and every 37th above (all planes), x {h,x,u,entity,escape} and the error handler x %s" % CHARSETS
    else:
        jobs = [(lo, min(lo + 0x4000, 0x110000), 1, filters, CHARSETS) for lo in range(0, 0x110000, 0x4000)]
        bound = "every code point U+0000..U+10FFFF (surrogates excluded) x {h,x,u,entity,escape} and the error handler x %s" % CHARSETS
    outs = pool_map(run_range, jobs)
    n = sum(o[0] for o in outs)
    fails = [f for o in outs for f in o[1]]
    n2, f2 = string_grid(3)
    fails += f2
    if fails:
        f = fails[0]
        rep.add(Result("C10.codepoints", VIOLATED, klass="B", backend="native-enum", function="mako.filters", bound=bound,
                       evaluations=n + n2, detail="filter %s fails on %r" % (f.get("filter"), f.get("char", f.get("string"))),
                       witness=f, replayed=True, replay={"how": "the real filter / codec error handler was run on the character", "failures": fails[:5]},
                       time_s=time.time() - t0))
    else:
        rep.add(Result("C10.codepoints", BOUNDED_OK, klass="B", backend="native-enum", function="mako.filters", bound=bound,
                       evaluations=n + n2, time_s=time.time() - t0,
                       detail="outputs markup-free / URL-safe, decode back to the input; handler output decodes back for every charset; filters act character-wise on %d strings" % n2))


def whole_string(rep, tier):
    """R4's precondition, read from the source: the substitutions replace every match (no count limit), and a
    bounded run on long strings (the per-code-point sweep says nothing about the 33rd special character)"""
    import time
    import html
    from mako import filters as F
    t0 = time.time()
    tree = ast.parse(read_repo("mako/filters.py"))
    limited = []
    for n in ast.walk(tree):
        if isinstance(n, ast.Call) and isinstance(n.func, ast.Attribute) and n.func.attr == "sub":
            is_re_mod = isinstance(n.func.value, ast.Name) and n.func.value.id == "re"
            npos = len(n.args) - (1 if is_re_mod else 0)          # re.sub(pattern, repl, string[, count[, flags]]) / compiled.sub(repl, string[, count])
            if npos > 2 or any(k.arg == "count" for k in n.keywords):
                limited.append("line %d: %s" % (n.lineno, ast.unparse(n)[:80]))
    rep.add(Result("C10.sub-replaces-every-match", DISCHARGED if not limited else UNDECIDED, klass="L", backend="ast-scan", function="mako.filters", time_s=time.time() - t0,
                   detail="no re.sub / pattern.sub call in filters.py passes a count (R4's precondition: every match is replaced)",
                   output="count-limited substitution: %s" % limited if limited else ""))
    t1 = time.time()
    bad, n = [], 0
    specials = "&<>\"'"
    for length in (33, 40, 100, 1000):
        for s in (specials[i % 5] * length for i in range(5)):
            for name, fn in (("x", F.xml_escape), ("h", F.html_escape), ("entity", F.html_entities_escape)):
                n += 1
                out = str(fn(s))
                raw = "<>\"" if name == "entity" else "<>\"'"          # the apostrophe has no named HTML entity: `entity` leaves it
                if html.unescape(out) != s or any(c in out for c in raw) or "&" in out.replace("&amp;", "").replace("&lt;", "").replace("&gt;", "").replace("&#39;", "").replace("&#34;", "").replace("&quot;", "").replace("&apos;", "").replace("&#x27;", ""):
                    bad.append({"filter": name, "input": "%r * %d" % (s[0], length), "output_tail": out[-40:]})
        mixed = (specials * length)[:length * 3]
        for name, fn in (("x", F.xml_escape), ("h", F.html_escape)):
            n += 1
            if html.unescape(str(fn(mixed))) != mixed or any(c in str(fn(mixed)) for c in "<>\"'"):
                bad.append({"filter": name, "input": "mixed specials, %d characters" % len(mixed)})
    bound = "strings of 33, 40, 100, 1000 markup characters (each special alone and mixed) through x, h, entity"
    if bad:
        rep.add(Result("C10.long-strings", VIOLATED, klass="B", backend="native-enum", function="mako.filters", bound=bound, evaluations=n,
                       detail="markup survives escaping: %s" % bad[0], witness=bad[0], replayed=True, replay={"failures": bad[:3]}, time_s=time.time() - t1))
    else:
        rep.add(Result("C10.long-strings", BOUNDED_OK, klass="B", backend="native-enum", function="mako.filters", bound=bound, evaluations=n, time_s=time.time() - t1,
                       detail="no raw markup character in the output; decoding gives the input back"))


def run(rep, tier):
    rep.trust(*BASE_TRUST)
    rep.trust("rex.charset: exact sets of code-point ranges computed from re._parser trees")
    rep.assume(*BASE_ASSUME)
    rep.assume("R4: re.sub(<one-character class>, f, s) and str.translate(table) map s to the concatenation of per-character images",
               "'decoding the entities' means HTML5 character-reference decoding (html.unescape); 'named HTML entity' means html.entities.codepoint2name")
    run_pyvc(rep, ["mako.filters:htmlentityreplace_errors", "mako.filters:trim", "mako.filters:url_escape",
                   "mako.filters:Decode.__getattr__.decode", "mako.util:FastEncodingBuffer.getvalue"], native_limit=0)
    set_obligations(rep)
    whole_string(rep, tier)
    exhaustive(rep, tier)
    from vrf.propkit import link_bounded_witness
    link_bounded_witness(rep)
