"""C08 — A template means the same on every compilation and rendering path."""
import ast
import re
import time

import z3

from vrf.core import Result, DISCHARGED, VIOLATED, UNDECIDED, BOUNDED_OK, Findings, read_repo
from vrf.propkit import run_pyvc, pool_map, link_bounded_witness, BASE_TRUST, BASE_ASSUME

META = {
    "level": "proof",
    "technique": "contract-based deductive verification: the ModuleInfo registry constructor (registered under the module name and file, other entries untouched), the argument sourcing of the render entry points (_kwargs_for_callable), the module path and rewrite decision of Template.__init__/_compile_from_file, each against its contract with VCs discharged by z3/cvc5; an SMT obligation for the injectivity of the module id",
    "level_text": "For all templates and registries: constructing a template registers its own source and module under its module name without touching other entries, so Template.source/.code answer with the template's own text as long as module names are distinct; the render entry points hand the callable exactly the named arguments found in the data; module files are written to and loaded from the path derived from the URI. The injectivity obligation on the module id fails (known finding).",
    "level_note": "Equality of output across the eight paths relates different executions and is outside single-call contracts: bounded path grid x hash seeds. Known finding: module_id = re.sub(r'\\W','_',uri) is not injective, so two live templates whose URIs differ only in non-word characters answer Template.source/.code with each other's text.",
}

KEYS = ["mako.template:ModuleInfo.__init__", "mako.runtime:_kwargs_for_callable", "mako.template:Template.__init__", "mako.template:Template._compile_from_file"]


def module_id_injective(rep):
    """module ids of distinct URIs are distinct - the premise of 'source/code are the template's own'"""
    t0 = time.time()
    fn = "mako.template:Template.__init__"
    src = read_repo("mako/template.py")
    pats = set(re.findall(r'self\.module_id = re\.sub\(r"([^"]+)", "([^"]*)", (\w+)', src))
    known = {e["witness_class"]: e for e in Findings().all_known("C08")}
    if not pats:
        rep.add(Result("C08.module-id.injective", UNDECIDED, function=fn, output="module_id is no longer computed with re.sub(<literal>)"))
        return
    (pat, repl, _), = list(pats)[:1] if len({p[:2] for p in pats}) == 1 else [(None, None, None)]
    if pat is None:
        rep.add(Result("C08.module-id.injective", UNDECIDED, function=fn, output="several different module id computations: %r" % pats))
        return
    # SMT: two different code-point sequences of length 3 with the same image under "replace every match of pat by repl"
    rx = re.compile(pat)
    is_match = z3.Function("is_match", z3.IntSort(), z3.BoolSort())
    sv = z3.Solver()
    cps = [ord(c) for c in "ab_-/. 9Z"]
    for c in cps:
        sv.add(is_match(c) == bool(rx.fullmatch(chr(c))))
    u = [z3.Int("u%d" % i) for i in range(3)]
    w = [z3.Int("w%d" % i) for i in range(3)]
    dom = lambda x: z3.Or([x == c for c in cps])
    img = lambda x: z3.If(is_match(x), ord(repl) if len(repl) == 1 else -1, x)
    sv.add(*[dom(x) for x in u + w])
    sv.add(z3.Or([a != b for a, b in zip(u, w)]))
    sv.add(*[img(a) == img(b) for a, b in zip(u, w)])
    r = sv.check()
    if r == z3.unsat:
        rep.add(Result("C08.module-id.injective", DISCHARGED, backend="z3", function=fn, time_s=time.time() - t0,
                       detail="no two URIs over the sample alphabet share a module id under re.sub(%r, %r)" % (pat, repl)))
        return
    m = sv.model()
    u1 = "".join(chr(m.eval(x, model_completion=True).as_long()) for x in u) + ".html"
    u2 = "".join(chr(m.eval(x, model_completion=True).as_long()) for x in w) + ".html"
    # replay on the real code
    from mako.lookup import TemplateLookup
    lk = TemplateLookup()
    lk.put_string(u1, "first")
    lk.put_string(u2, "second")
    t1, t2 = lk.get_template(u1), lk.get_template(u2)
    try:
        s1, s2 = t1.source, t2.source
    except Exception as e:
        s1 = s2 = "<%s: %s>" % (type(e).__name__, e)
    replayed = s1 != "first" or s2 != "second" or t1.module.__name__ == t2.module.__name__
    wit = {"uri_1": u1, "uri_2": u2, "module_ids": [t1.module.__name__, t2.module.__name__], "source_of_uri_1": s1}
    if replayed and "module-id-collision" in known:
        rep.known_confirmed.append("%s [witness %r / %r -> %r]" % (known["module-id-collision"]["what"], u1, u2, t1.module.__name__))
        rep.add(Result("C08.module-id.injective", BOUNDED_OK, klass="B", backend="z3+native", function=fn, bound="known finding (listed): the obligation fails for URIs that differ only in non-word characters",
                       evaluations=1, time_s=time.time() - t0, detail="not discharged: known finding module-id-collision"))
        return
    rep.add(Result("C08.module-id.injective", VIOLATED if replayed else UNDECIDED, backend="z3", function=fn, time_s=time.time() - t0,
                   detail="two different URIs get the same module id; with both templates alive Template.source answers with the other's text",
                   witness=wit, replayed=replayed, replay={"how": "TemplateLookup.put_string for both URIs, then Template.source", "result": wit}))


def bounded(rep, tier):
    from vrf.bounded import path_grid as G
    import os
    repo = os.environ.get("MAKO_REPO", "/repo")
    t0 = time.time()
    seeds = (0, 1) if tier == "quick" else (0, 1, 2, 3, 4, 5, 6, 7, 42, 12345, 99991)
    jobs = [(n, s, repo) for n in G.TEMPLATES for s in seeds]
    rs = pool_map(G.run_one, jobs)
    bad = G.compare(rs) + G.getdef_inherit_check() + G.getdef_args_check()
    bound = "%d templates x PYTHONHASHSEED %s x paths {string, file, module directory, reloaded, lookup, lookup with leading slash, modulename_callable, ModuleTemplate, mako-render, mako-render --output-encoding, --output-file} x {render, render_unicode, render_context, get_def}" % (len(G.TEMPLATES), list(seeds))
    if bad:
        rep.add(Result("C08.path-grid", VIOLATED, klass="B", backend="native-compare", function="mako.template:Template", bound=bound, evaluations=len(jobs) * 11,
                       detail=str(bad[0])[:300], witness=bad[0], replayed=True, replay={"failures": bad[:3]}, time_s=time.time() - t0))
    else:
        rep.add(Result("C08.path-grid", BOUNDED_OK, klass="B", backend="native-compare", function="mako.template:Template", bound=bound, evaluations=len(jobs) * 11,
                       time_s=time.time() - t0, detail="same output, own source, same generated module and same def answers on every path and seed"))
    t1 = time.time()
    known = {e["witness_class"]: e for e in Findings().all_known("C08")}
    col = G.collision_check()
    unknown = []
    for c in col:
        if re.sub(r"\W", "_", c["uris"][0]) == re.sub(r"\W", "_", c["uris"][1]) and "module-id-collision" in known:
            rep.known_confirmed.append("%s [%s]" % (known["module-id-collision"]["what"], c["problem"]))
        else:
            unknown.append(c)
    if unknown:
        rep.add(Result("C08.two-live-templates", VIOLATED, klass="B", backend="native-compare", function="mako.template:ModuleInfo", bound="3 URI pairs", evaluations=3,
                       detail=unknown[0]["problem"], witness=unknown[0], replayed=True, replay={"failures": unknown}, time_s=time.time() - t1))
    else:
        rep.add(Result("C08.two-live-templates", BOUNDED_OK, klass="B", backend="native-compare", function="mako.template:ModuleInfo", bound="3 URI pairs alive together (2 are the known finding's class)", evaluations=3,
                       time_s=time.time() - t1, detail="Template.source/.code are each template's own where module ids differ"))


def run(rep, tier):
    rep.trust(*BASE_TRUST)
    rep.assume(*BASE_ASSUME)
    rep.assume("ModuleInfo._modules is one process-wide map (a WeakValueDictionary seen as a dict: entries of collected templates vanish, which only removes keys)")
    run_pyvc(rep, KEYS, native_limit=0)
    module_id_injective(rep)
    bounded(rep, tier)
    link_bounded_witness(rep)
