"""C20 — Message extraction finds every translatable string at its template line."""
import ast
import time

import z3

from vrf.core import Result, DISCHARGED, VIOLATED, UNDECIDED, BOUNDED_OK, read_repo
from vrf.propkit import pool_map, link_bounded_witness, BASE_TRUST, BASE_ASSUME

META = {
    "level": "other",
    "technique": "contract-based deductive verification reaches only the line arithmetic here: the offset expressions of the real extract_nodes / BabelMakoExtractor.process_python / LinguaMakoExtractor.process_python are read from their AST on every run and the lemma 'reported line = template line of the call' is discharged by z3 for all node lines and positions inside the construct; the node-kind dispatch, the translator-comment window and the third-party extractors are covered by a bounded stand-in (planted calls, decoys, comments; Babel and Lingua)",
    "level_text": "Proved: for every node line n, every line k of the construct's code and every number of stripped leading lines, the line reported by the Babel and the Lingua path equals n + k, given that the python extractors report 1-based lines of the text they are handed. Bounded: every Python-bearing construct kind reports its planted call exactly once at its line, nothing is reported from text, <%text>, <%doc> or ## comments, translator comments attach to the construct immediately following only.",
    "level_note": "extract_nodes (a recursive generator over the parse tree that calls into Babel/Lingua) was not brought within the verifier's reach; the grid is a bounded stand-in and is not counted as proof. Assumed: babel.messages.extract.extract_python and lingua's python extractor report the 1-based line of a call within the text given to them (Lingua: plus the first-line argument).",
}


def arith(node, env):
    """integer expression AST -> z3 term (names and attribute chains are variables of `env`)"""
    if isinstance(node, ast.Constant) and isinstance(node.value, int):
        return z3.IntVal(node.value)
    if isinstance(node, (ast.Name, ast.Attribute)):
        key = ast.unparse(node)
        if key not in env:
            raise KeyError(key)
        return env[key]
    if isinstance(node, ast.BinOp) and isinstance(node.op, (ast.Add, ast.Sub)):
        a, b = arith(node.left, env), arith(node.right, env)
        return a + b if isinstance(node.op, ast.Add) else a - b
    raise KeyError(ast.dump(node)[:80])


def find_func(tree, cls, name):
    for n in ast.walk(tree):
        if isinstance(n, ast.ClassDef) and n.name == cls:
            for f in n.body:
                if isinstance(f, ast.FunctionDef) and f.name == name:
                    return f
    return None


def line_arith(rep):
    t0 = time.time()
    fn = "mako.ext.extract:MessageExtractor.extract_nodes"
    try:
        ex = find_func(ast.parse(read_repo("mako/ext/extract.py")), "MessageExtractor", "extract_nodes")
        bb = find_func(ast.parse(read_repo("mako/ext/babelplugin.py")), "BabelMakoExtractor", "process_python")
        lg = find_func(ast.parse(read_repo("mako/ext/linguaplugin.py")), "LinguaMakoExtractor", "process_python")
        # extract_nodes: every process_python(code, <offset expr>, ...) call; the text handed over is "\n" + code
        calls = [c for c in ast.walk(ex) if isinstance(c, ast.Call) and isinstance(c.func, ast.Attribute) and c.func.attr == "process_python"]
        prefixes = [c for c in ast.walk(ex) if isinstance(c, ast.Call) and getattr(c.func, "id", "") in ("StringIO", "BytesIO") and c.args
                    and isinstance(c.args[0], ast.BinOp) and isinstance(c.args[0].left, ast.Constant)]
        if not calls or not prefixes or any(p.args[0].left.value not in ("\n", b"\n") for p in prefixes):
            raise KeyError("the code handed to process_python is no longer '\\n' + code")
        n, k, off = z3.Ints("node_lineno k filter_offset")
        results = []
        for c in calls:
            env = {"node.lineno": n, "offset": off}
            code_lineno = arith(c.args[1], env)
            base_line = n + (off if "offset" in ast.unparse(c.args[1]) else 0)      # template line on which the handed text's first real line sits
            # Babel: yield (code_lineno + (lineno - 1), ...)
            ytuple = next(y.value for y in ast.walk(bb) if isinstance(y, ast.Yield) and isinstance(y.value, ast.Tuple))
            lineno_b = z3.Int("lineno_reported_by_babel")
            reported = arith(ytuple.elts[0], {"code_lineno": code_lineno, "lineno": lineno_b})
            sv = z3.Solver()
            sv.add(k >= 0, n >= 1, off >= 0, lineno_b == k + 2, reported != base_line + k)
            results.append(("babel", ast.unparse(c.args[1]), sv.check()))
            # Lingua: code_lineno += <count of stripped newlines>; extractor(..., code_lineno - 1); location = firstline + j
            aug = [a for a in ast.walk(lg) if isinstance(a, ast.AugAssign) and getattr(a.target, "id", "") == "code_lineno" and isinstance(a.op, ast.Add)]
            pcall = next(c2 for c2 in ast.walk(lg) if isinstance(c2, ast.Call) and isinstance(c2.func, ast.Attribute) and c2.func.attr == "python_extractor")
            s, j = z3.Ints("stripped_leading_newlines j")
            cl = code_lineno + (s if len(aug) == 1 else 0)
            firstline = arith(pcall.args[3], {"code_lineno": cl})
            sv2 = z3.Solver()
            # line j of the stripped source is line s + j of "\n" + code, i.e. line k = s + j - 2 of the construct's code
            sv2.add(s >= 1, j >= 1, n >= 1, off >= 0, firstline + j != base_line + (s + j - 2))
            results.append(("lingua", ast.unparse(c.args[1]), sv2.check()))
    except (KeyError, StopIteration) as e:
        rep.add(Result("C20.line-arith", UNDECIDED, function=fn, output="offset expressions not found in the expected shape: %s" % e))
        return
    for which, expr, r in results:
        oid = "C20.line-arith[%s:%s]" % (which, expr)
        rep.add(Result(oid, DISCHARGED if r == z3.unsat else VIOLATED if r == z3.sat else UNDECIDED, backend="z3", function=fn, time_s=time.time() - t0,
                       detail="for all node lines n, code lines k (and stripped leading lines): the line reported through the %s path for process_python(code, %s) is n + k" % (which, expr)))


def bounded(rep, tier):
    from vrf.bounded import extract_grid as G
    t0 = time.time()
    seeds = range(6 if tier == "quick" else 600)
    jobs = [(s, c, e, w) for s in seeds for c in (False, True) for e in ("ascii", "utf-8", "latin-1") for w in ("babel", "lingua") if not (w == "lingua" and e == "latin-1")]
    outs = [o for o in pool_map(G.run_case, jobs) if o]
    bound = "%d shuffled templates with one call in each of %d construct kinds (expression incl. multi-line and filter arguments, control lines, code and module blocks, def/block/page signatures and bodies, <%%call> expression and body, namespace-call argument, nested def), random filler and decoys, LF/CRLF, ascii/utf-8/latin-1, Babel and Lingua" % (len(list(seeds)), len(G.CONSTRUCTS))
    if outs:
        w = {k: v for k, v in outs[0].items() if k != "template"}
        rep.add(Result("C20.extract-grid", VIOLATED, klass="B", backend="native-oracle", function="mako.ext.extract:MessageExtractor.extract_nodes", bound=bound, evaluations=len(jobs),
                       detail=outs[0]["problem"][:300], witness=w, replayed=True, replay={"failures": outs[:2]}, time_s=time.time() - t0))
    else:
        rep.add(Result("C20.extract-grid", BOUNDED_OK, klass="B", backend="native-oracle", function="mako.ext.extract:MessageExtractor.extract_nodes", bound=bound, evaluations=len(jobs),
                       time_s=time.time() - t0, detail="every planted call reported exactly once with its message, function and line; no decoy reported"))
    t1 = time.time()
    cc = G.comment_cases()
    couts = [o for o in pool_map(G.run_comment, cc) if o]
    lc = G.lingering_cases()
    couts += [o for o in pool_map(G.run_lingering, lc) if o]
    cc = cc + lc
    cb = "8 construct kinds x comment distance {0, 1, 2 blank lines}; tagged comment before 4 message-less constructs x untagged comment x gap before a later message; Babel"
    if couts:
        w = {k: v for k, v in couts[0].items() if k != "template"}
        rep.add(Result("C20.comment-grid", VIOLATED, klass="B", backend="native-oracle", function="mako.ext.extract:MessageExtractor.extract_nodes", bound=cb, evaluations=len(cc),
                       detail=couts[0]["problem"][:300], witness=w, replayed=True, replay={"failures": couts[:2]}, time_s=time.time() - t1))
    else:
        rep.add(Result("C20.comment-grid", BOUNDED_OK, klass="B", backend="native-oracle", function="mako.ext.extract:MessageExtractor.extract_nodes", bound=cb, evaluations=len(cc),
                       time_s=time.time() - t1, detail="translator comments attach to the construct immediately following and to no later message"))


def run(rep, tier):
    rep.trust("CPython 3.12 (ast) as the reference for reading the offset expressions", "z3 5.1 for linear integer arithmetic")
    rep.assume("babel's extract_python and lingua's python extractor report the 1-based line of a call within the text they are given (lingua: added to its first-line argument)",
               "the node line numbers come from the lexer (C01/C11 contracts)")
    src = "\n".join(read_repo(f) for f in ("mako/ext/extract.py", "mako/ext/babelplugin.py", "mako/ext/linguaplugin.py"))
    rep.function("mako.ext.extract:MessageExtractor.extract_nodes + process_python (offset expressions)", src)
    line_arith(rep)
    bounded(rep, tier)
    link_bounded_witness(rep)
