"""C01 — literal text and the documented escapes are reproduced exactly; lexing is total and polynomial."""
import re
import time

from vrf.core import Result, DISCHARGED, VIOLATED, UNDECIDED, ERROR, BOUNDED_OK, read_repo
from vrf.propkit import run_pyvc, pool_map, BASE_TRUST, BASE_ASSUME

LEVEL = "proof"
META = {
    "level": "proof",
    "technique": "contract-based deductive verification: pre/postconditions on the real match_reg/match_text (VCs from their AST, z3) plus regular-language obligations on the lexer's real regex literals (re._parser trees -> exact automata over a minterm alphabet)",
    "level_text": "The position/line bookkeeping of match_reg and the emission rule of match_text are verified for all texts and positions; totality of the cascade, 'no matcher but the text matcher and end-of-input can match the empty string', 'a Text run never crosses a directive start' and the absence of exponentially ambiguous stars are decided exactly over all strings from the regex literals found in the current source.",
    "level_note": "Trusted: CPython's re._parser as the reading of each literal, the rex translation (self-validated against re.match on all words of length <= 3 every run), the Glushkov/product-automaton EDA test, 're backtracks polynomially on patterns without EDA', pyvc. The k-token sweep with the span-accounting monitor is a bounded stand-in (k=3 quick, k=4 thorough) and is not counted as proved.",
}


def lexer_patterns():
    """every pattern applied while Lexer.parse() runs: name -> (pattern, flags)"""
    from vrf.rex.extract import lexer_matchers, all_regex_literals
    order, table, src = lexer_matchers()
    pats = {}
    for name, ms in table.items():
        for i, m in enumerate(ms):
            if m.pattern is not None and "%s" not in m.pattern:
                pats["%s#%d" % (name, i)] = (m.pattern, m.flags or 0)
    # parse_until_text builds two patterns from its arguments; instantiate with the arguments of its callers
    for terms in ([r"%>"], [r"\|", r"}"], [r"}"]):
        tre = "|".join(terms)
        pats["parse_until_text.term[%s]" % tre] = (r"(%s)" % tre, 0)
        pats["parse_until_text.chunk[%s]" % tre] = (r"(.*?)(?=\"|\'|#|%s)" % tre, re.S)
    for f in ("mako/lexer.py", "mako/parsetree.py", "mako/ast.py", "mako/pygen.py"):
        for pat, fl, ln in all_regex_literals(f):
            if "%s" in pat:
                continue
            pats.setdefault("%s:%d" % (f, ln), (pat, fl))
    for q in ('"""', "'''"):
        pats["pygen.adjust_whitespace.until[%s]" % q] = (r".*?(?=%s|$)" % q, 0)
    return order, table, pats


def rex_obligations(rep, tier):
    from vrf.rex.kit import RexQuery, rex_result
    from vrf.rex.lang import zero_width_alternatives, consumes
    from vrf.rex.regex import RexUnsupported
    import re._parser as sre_parse
    t0 = time.time()
    order, table, pats = lexer_patterns()
    cascade = {name: (table[name][0].pattern, table[name][0].flags or 0) for name, _ in order}
    fn = "mako.lexer:Lexer.parse"
    rep.function(fn, "\n".join("%s %r %d" % (n, p, f) for n, (p, f) in cascade.items()))
    try:
        Q = RexQuery(cascade)
    except RexUnsupported as e:
        rep.add(Result("C01.cascade", UNDECIDED, function=fn, output="pattern outside the rex rules: %s" % e))
        return
    A, L = Q.A, Q.L
    # self-validation of the translation
    total, bad = Q.validate(maxlen=3 if tier == "quick" else 4, seed=rep.seed)
    if bad:
        rep.add(Result("C01.rex.selfcheck", ERROR, klass="L", backend="cpython-re", function=fn,
                       output="rex language differs from re.match: %r" % (bad[:3],)))
        return
    rep.add(Result("C01.rex.selfcheck", BOUNDED_OK, klass="B", backend="cpython-re", function=fn, evaluations=total,
                   bound="all context-prefixed words of length <= %d over the %d-block minterm alphabet" % (3 if tier == "quick" else 4, A.k),
                   detail="rex automata agree with re.match for every cascade matcher"))
    names = [n for n, _ in order]
    if names[-1] != "match_text" or names[0] != "match_end":
        rep.add(Result("C01.cascade.shape", UNDECIDED, function=fn, output="cascade no longer ends with match_text / starts with match_end: %s" % names))
        return
    # total
    ok = Q.matches("match_text").equals(A.All())
    rep.add(rex_result("C01.cascade.total", ok, "the text matcher matches at every position of every text (the 'assertion failed' fall-through is unreachable)", fn, t0=t0))
    # only match_end (at EOF) and match_text may match the empty string
    for n in names[1:-1]:
        tree = sre_parse.parse(*cascade[n])
        lo = tree.getwidth()[0]
        rep.add(rex_result("C01.cascade.nonempty[%s]" % n, lo >= 1,
                           "every match of %s consumes at least one character (min width %d)" % (n, lo), fn, backend="re._parser.getwidth"))
    end_only_eof = Q.matches("match_end").equals(A.empty_rest())
    rep.add(rex_result("C01.cascade.end-only-at-eof", end_only_eof, "match_end matches exactly when no text remains", fn))
    # region where the text matcher's preferred match is empty although text remains and no earlier matcher applies
    try:
        h, alts = zero_width_alternatives(Q.nodes["match_text"])
    except RexUnsupported as e:
        rep.add(Result("C01.cascade.noskip", UNDECIDED, function=fn, output=str(e)))
        return
    zw = None
    for a in alts:
        if consumes(a):
            break
        d = L.rest(a, A.All())
        zw = d if zw is None else zw.union(d)
    earlier = None
    for n in names[:-1]:
        earlier = Q.matches(n) if earlier is None else earlier.union(Q.matches(n))
    region = zw.intersect(A.nonempty_rest()).minus(earlier) if zw is not None else None
    empty_region = region is None or region.is_empty()
    rep._noskip_region = None if empty_region else (Q, region)
    # text.stops: a Text run never crosses the start of a directive (positions inside a run: context != BOS)
    stops = None
    for a in alts:
        d = L.rest(a, A.All())
        stops = d if stops is None else stops.union(d)
    nonbos = A.first_in(A.text_syms)
    for n in names[1:-1]:
        if n == "match_percent":
            continue    # '%%' after exotic whitespace: covered by the bounded sweep (see DESIGN)
        miss = Q.matches(n).intersect(nonbos).minus(stops)
        wit = None
        if not miss.is_empty():
            wit = [Q.word_string(w) for w in miss.witnesses(3)]
        r = rex_result("C01.text.stops[%s]" % n, miss.is_empty(),
                       "wherever %s can match inside a line/run, the text matcher stops (so Text never swallows that directive)" % n,
                       fn, witness=wit)
        if wit:
            # replay: a text run started one character earlier swallows the directive start
            from mako.lexer import Lexer
            from mako import parsetree as PT
            conf = []
            for ctx, text in wit:
                src = "x" + ctx + text
                try:
                    nodes = Lexer(src).parse().nodes
                    if nodes and isinstance(nodes[0], PT.Text) and len(nodes[0].content) > len("x" + ctx):
                        conf.append({"source": src, "first_text_node": nodes[0].content})
                except Exception as e:
                    pass
            r.replayed = bool(conf)
            r.replay = {"how": "Lexer('x' + witness).parse(): the first Text node extends past the directive start", "confirmed": conf}
        rep.add(r)
    # documented syntax is recognised: the language of each documented directive form (written
    # down from the syntax chapter, independent of the lexer's literals) is included in the
    # language of the matcher that must consume it
    SPEC = {
        "control-line": ("match_control_line", r"(?<=^)[\t ]*%(?!%)[^\r\n]*(?:\r?\n|\Z)", re.M),
        "comment-line": ("match_control_line", r"(?<=^)[\t ]*##[^\r\n]*(?:\r?\n|\Z)", re.M),
        "expression-start": ("match_expression", r"\$\{", 0),
        "doc-comment": ("match_comment", r"<%doc>.*?</%doc>", re.S),
        "python-block-start": ("match_python_block", r"<%!?[ \t\r\n]", 0),
        "closing-tag": ("match_tag_end", r"</%[a-z:]+>", 0),
        "percent-escape": ("match_percent", r"(?<=^)%%", re.M),
    }
    allp = dict(cascade)
    for k, (m, pat, fl) in SPEC.items():
        allp["spec:" + k] = (pat, fl)
    allp["spec:escaped-newline"] = (r"\\\r?\n", 0)
    try:
        Q2 = RexQuery(allp)
    except RexUnsupported as e:
        rep.add(Result("C01.spec", UNDECIDED, function=fn, output=str(e)))
        return
    # a backslash directly before a line break ends the Text run there, whatever precedes it (the documented
    # newline escape): every position where the documented form matches is a stopping position of the text matcher
    try:
        _h2, alts2 = zero_width_alternatives(Q2.nodes["match_text"])
    except RexUnsupported as e:
        rep.add(Result("C01.text.stops[escaped-newline]", UNDECIDED, function=fn, output=str(e)))
        return
    stops2 = None
    for a in alts2:
        d = Q2.L.rest(a, Q2.A.All())
        stops2 = d if stops2 is None else stops2.union(d)
    miss = Q2.matches("spec:escaped-newline").minus(stops2)
    wit = None if miss.is_empty() else [Q2.word_string(w) for w in miss.witnesses(3)]
    r = rex_result("C01.text.stops[escaped-newline]", miss.is_empty(),
                   "wherever a backslash stands directly before a line break, the text matcher stops (so the escape is recognised after any preceding character)", fn, witness=wit)
    if wit:
        from mako.template import Template
        conf = []
        for ctx, text in wit:
            src = "x" + ctx + text
            try:
                out = Template(src).render_unicode()
            except Exception as e:
                continue
            want_gone = "\\\n" if "\\\n" in src else "\\\r\n"
            if want_gone in out:
                conf.append({"source": src, "rendered": out})
        r.replayed = bool(conf)
        r.replay = {"how": "Template('x' + witness).render_unicode() still contains the backslash and the line break", "confirmed": conf}
    rep.add(r)
    # ... and nothing more: what a line-based / bracketed matcher consumes in one match is one
    # documented construct (full-match languages; preference between matches does not matter for an
    # inclusion).  A matcher that can run past its line terminator would swallow following text.
    ONLY = {
        "match_control_line": r"(?<=^)[\t ]*(?:%(?!%)|\#\#)(?:\\\r?\n|[^\r\n])*(?:\r?\n|\Z)",
        "match_percent": r"(?<=^)\s*%%+",
        "match_expression": r"\$\{",
        "match_python_block": r"<%!?",
        "match_tag_end": r"</%[\t ]*[^\t ]+?[\t ]*>",
    }
    for m, pat in ONLY.items():
        allp["only:" + m] = (pat, re.M)
    try:
        Q3 = RexQuery(allp)
    except RexUnsupported as e:
        rep.add(Result("C01.only", UNDECIDED, function=fn, output=str(e)))
        return
    for m, pat in ONLY.items():
        full_m = Q3.L.rest(Q3.nodes[m], Q3.A.empty_rest())
        full_s = Q3.L.rest(Q3.nodes["only:" + m], Q3.A.empty_rest())
        extra = full_m.minus(full_s)
        wit = None if extra.is_empty() else [Q3.word_string(w) for w in extra.witnesses(3)]
        r = rex_result("C01.only[%s]" % m, extra.is_empty(),
                       "every string %s can consume in one match is one documented construct %r" % (m, pat), fn, witness=wit)
        if wit:
            conf = []
            rx = re.compile(*cascade[m]) if cascade[m][1] else re.compile(cascade[m][0])
            for ctx, text in wit:
                mm = rx.match(ctx + text, len(ctx))
                if mm is not None and mm.end() == len(ctx + text):
                    conf.append({"string": ctx + text, "consumed": mm.group(0)})
            r.replayed = bool(conf)
            r.replay = {"how": "the lexer's own pattern consumes the whole witness in one match", "confirmed": conf}
        rep.add(r)
    for k, (m, pat, fl) in SPEC.items():
        miss = Q2.matches("spec:" + k).minus(Q2.matches(m))
        wit = None if miss.is_empty() else [Q2.word_string(w) for w in miss.witnesses(3)]
        r = rex_result("C01.spec[%s]" % k, miss.is_empty(),
                       "every text beginning with the documented form %r is matched by %s" % (pat, m), fn, witness=wit)
        if wit:
            confirm_inclusion_witness(r, wit, (pat, fl), cascade[m])
        rep.add(r)
    return


def confirm_inclusion_witness(r, wit, should_match, should_also_match):
    """replay on the real pattern objects: the first matches at the position, the second does not"""
    a = re.compile(*should_match) if should_match[1] else re.compile(should_match[0])
    b = re.compile(*should_also_match) if should_also_match[1] else re.compile(should_also_match[0])
    conf = []
    for ctx, text in wit:
        s_ = ctx + text
        if a.match(s_, len(ctx)) is not None and b.match(s_, len(ctx)) is None:
            conf.append({"string": s_, "position": len(ctx)})
    r.replayed = bool(conf)
    r.replay = {"how": "re.compile(<lexer literal>).match(string, position) is None although the documented form matches there",
                "confirmed": conf}


def noskip_result(rep):
    """Combine the regex-level region with the code-level contract of match_text."""
    from vrf.rex.kit import rex_result
    fn = "mako.lexer:Lexer.match_text"
    reg = getattr(rep, "_noskip_region", None)
    emit = [r for r in rep.results if r.oid == "C01.Lexer.match_text.post:empty-match-emits-the-skipped-character"]
    if reg is None:
        rep.add(rex_result("C01.cascade.noskip", True, "the text matcher never matches the empty string while text remains and no earlier matcher applies", fn))
        return
    Q, region = reg
    words = region.witnesses(6)
    srcs = [Q.word_string(w) for w in words]
    fails = []
    from mako.template import Template
    for ctx, text in srcs:
        s = ctx + text
        try:
            out = Template(s).render_unicode()
        except Exception as e:
            out = "<exception %r>" % e
        if out != s:
            fails.append({"source": s, "rendered": out})
    if emit and emit[0].status == DISCHARGED and not fails:
        rep.add(Result("C01.cascade.noskip", DISCHARGED, backend="rex-automata+z3", function=fn,
                       detail="where the text matcher's preferred match is empty with text remaining (e.g. %r), match_text emits the stepped-over character as Text (contract clause discharged); %d region witnesses render verbatim"
                       % (srcs[0][0] + srcs[0][1], len(srcs))))
    else:
        rep.add(Result("C01.cascade.noskip", VIOLATED, backend="rex-automata", function=fn,
                       detail="a source character is stepped over and not emitted: the text matcher matches empty ahead of an unrecognised directive start",
                       witness=fails or srcs, replayed=bool(fails),
                       replay={"how": "Template(source).render_unicode() compared with the source (it contains no directive)", "failures": fails},
                       output="region of context/remaining-text words is non-empty; witnesses: %r" % (srcs,)))


def eda_obligations(rep, tier):
    from vrf.rex import regex as R
    from vrf.rex.lang import Alphabet
    from vrf.rex.eda import Glushkov, eda_witness, count_paths_bruteforce
    order, table, pats = lexer_patterns()
    for name, (pat, fl) in sorted(pats.items()):
        t0 = time.time()
        oid = "C01.eda[%s]" % name
        try:
            n, _ = R.parse(pat, fl)
            n = R.expand_refs(n)
            A = Alphabet([n])
            g = Glushkov(n, A)
            w = eda_witness(g)
        except R.RexUnsupported as e:
            rep.add(Result(oid, UNDECIDED, function="mako.lexer", output="pattern outside the rex rules: %s" % e, detail=pat[:80]))
            continue
        if w is None:
            rep.add(Result(oid, DISCHARGED, backend="rex-eda", function="mako.lexer", time_s=time.time() - t0,
                           detail="no exponential ambiguity in %r (%d positions)" % (pat[:60], g.n)))
            continue
        pre, pump = w
        s = lambda ws: "".join(chr(A.blocks[x].sample()) for x in ws)
        growth = [count_paths_bruteforce(g, pre + pump * k) for k in (2, 4, 6, 8)]
        timing = time_pump(pat, fl, s(pre), s(pump))
        rep.add(Result(oid, VIOLATED, backend="rex-eda", function="mako.lexer", time_s=time.time() - t0,
                       detail="exponentially ambiguous repetition in %r" % pat[:80],
                       witness={"prefix": s(pre), "pump": s(pump), "paths_for_2_4_6_8_pumps": growth},
                       replayed=timing["exponential"], replay=timing,
                       output="two distinct loops on the same word %r from the same position" % s(pump)))


def time_pump(pat, fl, pre, pump, cap=4.0):
    """time the real regex on prefix + pump*n + a character that makes the match fail"""
    rx = re.compile(pat, fl)
    times = []
    n = 4
    while n <= 64:
        txt = pre + pump * n + "\x00"
        t0 = time.time()
        rx.match(txt)
        dt = time.time() - t0
        times.append((n, round(dt, 4)))
        if dt > cap:
            break
        n += 2
    big = [t for _, t in times if t > 0.02]
    expo = len(big) >= 3 and all(b2 > 1.7 * b1 for b1, b2 in zip(big, big[1:]))
    return {"how": "re.compile(pattern).match(prefix + pump*n + NUL) timed for growing n", "times": times, "exponential": bool(expo)}


def sweep(rep, tier):
    from vrf.bounded.lexsweep import run_chunk, TOKENS
    t0 = time.time()
    jobs = []
    if tier == "quick":
        jobs += [(2, i, 4, 0, 0) for i in range(4)]
        jobs += [(3, i, 16, 0, 0) for i in range(16)]
        jobs += [(k, 0, 1, rep.seed * 100 + k * 7 + j, 400) for k in (4, 5, 6, 8) for j in range(4)]
        bound = "all concatenations of <= 3 tokens from a %d-token alphabet + 6400 seeded random strings of 4-8 tokens" % len(TOKENS)
    else:
        jobs += [(3, i, 16, 0, 0) for i in range(16)]
        jobs += [(4, i, 64, 0, 0) for i in range(64)]
        jobs += [(k, 0, 1, rep.seed * 100 + k * 7 + j, 3000) for k in (5, 6, 8, 12) for j in range(8)]
        bound = "all concatenations of <= 4 tokens from a %d-token alphabet + 96000 seeded random strings of 5-12 tokens" % len(TOKENS)
    outs = pool_map(run_chunk, jobs)
    n = sum(o[0] for o in outs)
    fails = [f for o in outs for f in o[1]]
    if fails:
        f = fails[0]
        rep.add(Result("C01.sweep", VIOLATED, klass="B", backend="native-monitor", function="mako.lexer:Lexer.parse", bound=bound,
                       evaluations=n, detail="%s on %r" % (f["kind"], f["source"]), witness=f, replayed=True,
                       replay={"how": "Lexer(source).parse() under a match_reg span monitor; Template(source).render_unicode()", "failures": fails[:5]},
                       time_s=time.time() - t0))
    else:
        rep.add(Result("C01.sweep", BOUNDED_OK, klass="B", backend="native-monitor", function="mako.lexer:Lexer.parse", bound=bound,
                       evaluations=n, time_s=time.time() - t0,
                       detail="match spans tile the source, each span drops only documented syntax, text-only templates render to source minus escapes, only Mako exceptions, every lex < 1 s"))
    rep.sample({"sweep_tokens": TOKENS[:12], "example": "a </% b"})


def run(rep, tier):
    rep.trust(*BASE_TRUST)
    rep.trust("rex: /verif/vrf/rex (re._parser tree -> automata over minterms; Glushkov EDA test)")
    rep.assume(*BASE_ASSUME)
    rep.assume("CPython's re backtracks at most polynomially on a pattern whose position automaton has no exponential ambiguity",
               "the regex-literal extraction sees every pattern used while lexing (patterns built with %-formatting are instantiated with the arguments found at the call sites)")
    run_pyvc(rep, ["mako.lexer:Lexer.match_reg", "mako.lexer:Lexer.match_text"], native_limit=0)
    rex_obligations(rep, tier)
    noskip_result(rep)
    eda_obligations(rep, tier)
    sweep(rep, tier)
