"""C17 — Cached sections run once per key and replay their exact output."""
import time

from vrf.core import Result, DISCHARGED, VIOLATED, UNDECIDED, BOUNDED_OK, Findings
from vrf.propkit import run_pyvc, pool_map, contracts_for, link_bounded_witness, BASE_TRUST, BASE_ASSUME

META = {
    "level": "proof",
    "technique": "contract-based deductive verification: ghost execution counter and an abstract backend store on the real Cache._ctx_get_or_create / _get_cache_kw / get_or_create / set / get / invalidate / invalidate_body / invalidate_def / invalidate_closure against the documented CacheImpl interface contract; VCs from their AST discharged by z3/cvc5",
    "level_text": "For all keys, stores, argument dicts and contexts: with cache_enabled the creation function runs exactly when the backend has no value for the key and a stored value is returned unchanged; with cache_enabled false it runs every time and the backend is not consulted; the backend receives Template.cache_args overridden by the given arguments, frozen per section on first use, plus the context exactly when the backend asks for it; invalidate_* remove exactly the named section's entry, reach the backend with that section's own frozen arguments, and run no body; Template.cache_args is never modified.",
    "level_note": "The code generator's side (which key, which arguments, timeout conversion, what a cached section writes/returns) is outside the contracts and covered by the bounded op-sequence monitor and the argument-recording run only. Assumed: the documented CacheImpl API as the interface contract (get_or_create returns the stored value or calls the creation function once and stores it); Beaker and dogpile themselves are third-party code exercised only by the bounded monitor. Known finding: two URIs that differ only in non-word characters share one cache id.",
}


def monitor(rep, tier):
    from vrf.bounded import cache_monitor as M
    known = {e["witness_class"]: e for e in Findings().all_known("C17")}
    t0 = time.time()
    n0, bad0 = M.record_args()
    if bad0:
        rep.add(Result("C17.backend-arguments", VIOLATED, klass="B", backend="recording-backend", function="mako.codegen:_GenerateRenderMethod.write_cache_decorator",
                       bound="one template with page-level and per-section cache_* attributes, two recording backends", evaluations=n0,
                       detail=str(bad0[0])[:300], witness=bad0[0], replayed=True, replay={"failures": bad0[:3]}, time_s=time.time() - t0))
    else:
        rep.add(Result("C17.backend-arguments", BOUNDED_OK, klass="B", backend="recording-backend", function="mako.codegen:_GenerateRenderMethod.write_cache_decorator",
                       bound="one template with page-level and per-section cache_* attributes, two recording backends", evaluations=n0, time_s=time.time() - t0,
                       detail="Template cache_args < <%page cache_*> < the section's own; timeout an int; context passed exactly on request"))
    maxlen, nrandom = (2, 40) if tier == "quick" else (3, 3000)
    seqs = M.sequences(maxlen, nrandom, rep.seed)
    for impl in ("c17ref", "beaker", "beaker-file", "dogpile"):
        t1 = time.time()
        ss = seqs if impl == "c17ref" else seqs[:: (4 if tier == "quick" else 2)]
        if impl == "dogpile":
            # dogpile's own Mako plugin implements put() through CacheRegion.put, which dogpile.cache does not have: third-party code
            ss = [s for s in ss if "set_p" not in s]
        outs = [o for o in pool_map(M.run_sequence, [(impl, s, ("t.html",)) for s in ss]) if o]
        oid = "C17.sequences[%s]" % impl
        bound = "every op sequence render + <=%d ops + render over 11 ops, and %d random sequences of 5..27 ops; 9 cached sections (def, nested def, cache_key, buffered+filter, named/anonymous block, page)" % (maxlen, nrandom)
        if outs:
            rep.add(Result(oid, VIOLATED, klass="B", backend="native-model", function="mako.cache:Cache", bound=bound, evaluations=len(ss),
                           detail=outs[0]["problem"][:300], witness=outs[0], replayed=True, replay={"failures": outs[:3]}, time_s=time.time() - t1))
        else:
            rep.add(Result(oid, BOUNDED_OK, klass="B", backend="native-model", function="mako.cache:Cache", bound=bound, evaluations=len(ss), time_s=time.time() - t1,
                           detail="outputs and execution counts equal the statement's model after every operation"))
    # several templates sharing one backend
    t2 = time.time()
    pairs = [("x.html", "y.html"), ("a-b.html", "a_b.html"), ("sub/t.html", "sub_t.html"), ("t.html", "T.html")]
    unknown, nseq = [], 0
    for names in pairs:
        ss = seqs[:: 6]
        nseq += len(ss)
        outs = [o for o in pool_map(M.run_sequence, [("c17ref", s, names) for s in ss]) if o]
        if not outs:
            continue
        import re
        collide = re.sub(r"\W", "_", names[0]) == re.sub(r"\W", "_", names[1])
        if collide and "cache-id-collision" in known:
            rep.known_confirmed.append("%s [templates %s and %s: %s]" % (known["cache-id-collision"]["what"], names[0], names[1], outs[0]["problem"][:120]))
        else:
            unknown.append(outs[0])
    bound = "4 pairs of templates on one reference backend (two of them differing only in non-word characters) x every %d-th sequence" % 6
    if unknown:
        rep.add(Result("C17.shared-backend", VIOLATED, klass="B", backend="native-model", function="mako.cache:Cache.__init__", bound=bound, evaluations=nseq,
                       detail="an entry of one template is served to another: %s" % unknown[0]["problem"][:200], witness=unknown[0], replayed=True,
                       replay={"failures": unknown[:3]}, time_s=time.time() - t2))
    else:
        rep.add(Result("C17.shared-backend", BOUNDED_OK, klass="B", backend="native-model", function="mako.cache:Cache.__init__", bound=bound, evaluations=nseq,
                       time_s=time.time() - t2, detail="no entry crossed between templates (known finding pairs excluded: %d)" % len(rep.known_confirmed)))


def run(rep, tier):
    rep.trust(*BASE_TRUST)
    rep.assume(*BASE_ASSUME)
    rep.assume("the CacheImpl interface contract (documented API): get_or_create returns the stored value for the key or calls the creation function exactly once, stores and returns its value; set/get/invalidate act on that key only",
               "__M_defname, where given, is a hashable value used as a dict key (boxed)")
    run_pyvc(rep, contracts_for("C17"), native_limit=0)
    monitor(rep, tier)
    link_bounded_witness(rep)
