"""C15 — Module files are regenerated when stale and never observed half-written."""
import time

import z3

from vrf.core import Result, DISCHARGED, VIOLATED, UNDECIDED, ERROR, BOUNDED_OK
from vrf.propkit import run_pyvc, BASE_TRUST, BASE_ASSUME

LEVEL = "proof"
META = {
    "level": "proof",
    "technique": "contract-based deductive verification: ghost file-system event state (temp created / data written / move done / writer called) with postconditions and exceptional postconditions at every crash point of the real _compile_module_file, the rewrite-decision contract of Template._compile_from_file and the retry-loop invariant of verify_directory; VCs from their AST discharged by z3/cvc5; a glue lemma from the event contract to 'none / old / new'",
    "level_text": "For all sources, paths, mtimes and magic numbers, and for an exception raised by any call inside the writer: the target path is only ever the destination of one atomic move of a temp file created in the same directory after the whole encoded source was written to it; the module is rewritten iff missing or older than the source and then iff its magic number differs, reused unchanged otherwise, loaded after the last rewrite; a module_writer gets (encoded source, path) exactly when a rewrite is due.",
    "level_note": "Sequential view: concurrent constructors (the 'schedules' part of the quantifier) are not decided by contracts on one call; the atomic-rename argument covers readers that open the path at any instant, under the assumed contracts A-mkstemp, A-write (all-or-raise), A-rename (atomic within one directory). Process death is modelled as an exception at a call boundary plus the 'midway through write' case, which only affects the temp file. Fault injection and history enumeration are bounded stand-ins.",
}

KEYS = ["mako.template:_compile_module_file", "mako.util:verify_directory", "mako.template:Template._compile_from_file"]


def glue(rep):
    """From the event contract to the file-system statement: contents of the target path after a run that
    stopped anywhere, given A-rename (the destination's content becomes the source's, atomically) and the
    fact that only moves change the target (frame: no os.write on a descriptor other than the temp's)."""
    t0 = time.time()
    B = z3.StringSort()
    moves0, moves1, w0, w1 = z3.Ints("moves0 moves1 w0 w1")
    old, new, tmp_content, target = z3.Consts("old new tmp_content target", B)
    mv_src_is_tmp, w_fd_is_tmp, w_data_is_new = z3.Bools("mv_src_is_tmp w_fd_is_tmp w_data_is_new")
    crash_inv = z3.Or(moves1 == moves0,
                      z3.And(moves1 == moves0 + 1, mv_src_is_tmp, w1 == w0 + 1, w_data_is_new, w_fd_is_tmp))
    fs = [z3.Implies(z3.And(w1 == w0 + 1, w_fd_is_tmp, w_data_is_new), tmp_content == new),          # A-write on a fresh temp
          z3.Implies(moves1 == moves0, target == old),                                                # frame: only a move touches the target
          z3.Implies(z3.And(moves1 == moves0 + 1, mv_src_is_tmp), target == tmp_content)]             # A-rename
    sv = z3.Solver()
    sv.add(crash_inv, *fs, z3.Not(z3.Or(target == old, target == new)))
    r = sv.check()
    rep.add(Result("C15.crash.glue", DISCHARGED if r == z3.unsat else UNDECIDED, backend="z3", time_s=time.time() - t0,
                   function="mako.template:_compile_module_file",
                   detail="crash-point invariant (exceptional postcondition of the real writer) + A-write + A-rename + frame  =>  the module path holds the previous content (possibly none) or the complete new module"))


def bounded(rep, tier):
    from vrf.bounded.crashpoints import crash_sweep, history_sweep
    t0 = time.time()
    n, bad, fired = crash_sweep(14)
    bound = "k-th file-system call inside the writer for k <= 14 x {crash before, after, midway through a write} x {no previous module, previous module}; %d crash points reached: %s" % (n, ", ".join(fired))
    if bad:
        rep.add(Result("C15.crash-sweep", VIOLATED, klass="B", backend="fault-injection", function="mako.template:_compile_module_file",
                       bound=bound, evaluations=n, detail=bad[0]["problem"], witness=bad[0], replayed=True, replay={"failures": bad[:3]}, time_s=time.time() - t0))
    elif n == 0:
        rep.add(Result("C15.crash-sweep", ERROR, klass="B", function="mako.template:_compile_module_file", output="no crash point reached"))
    else:
        rep.add(Result("C15.crash-sweep", BOUNDED_OK, klass="B", backend="fault-injection", function="mako.template:_compile_module_file",
                       bound=bound, evaluations=n, time_s=time.time() - t0,
                       detail="after every crash the module path held nothing / the previous / the complete new module and a later Template rendered the current source"))
    t1 = time.time()
    L = 3 if tier == "quick" else 6
    n1, bad1 = history_sweep(L)
    n2, bad2 = history_sweep(L - 1, writer=True)
    bound = "all histories of length <= %d (and <= %d with a module_writer) over {source newer/older/equal, delete module, foreign magic, construct}, whole-second mtimes" % (L, L - 1)
    if bad1 or bad2:
        b = (bad1 or bad2)[0]
        rep.add(Result("C15.history-sweep", VIOLATED, klass="B", backend="native-oracle", function="mako.template:Template._compile_from_file",
                       bound=bound, evaluations=n1 + n2, detail=b["problem"], witness=b, replayed=True, replay={"failures": (bad1 + bad2)[:3]}, time_s=time.time() - t1))
    else:
        rep.add(Result("C15.history-sweep", BOUNDED_OK, klass="B", backend="native-oracle", function="mako.template:Template._compile_from_file",
                       bound=bound, evaluations=n1 + n2, time_s=time.time() - t1,
                       detail="rewritten iff missing/older/other magic, byte-identical otherwise, render = the source version the module was generated from, module_writer called exactly when due"))


def run(rep, tier):
    rep.trust(*BASE_TRUST)
    rep.assume(*BASE_ASSUME)
    rep.assume("A-mkstemp: tempfile.mkstemp(dir=d) atomically creates an empty file with an unused name inside d",
               "A-write: os.write(fd, data) writes all of data or raises (short counts assumed away); a crash midway leaves a partial temp file only",
               "A-rename: shutil.move within one directory is os.rename: the destination atomically becomes the source's content, or nothing changes",
               "process death at a call boundary is modelled as an exception raised by that call",
               "the file system is otherwise stable during one constructor call (sequential view; concurrent constructors rely on A-rename only)")
    run_pyvc(rep, KEYS, native_limit=0)
    glue(rep)
    bounded(rep, tier)
    fails = [r for r in rep.results if r.klass == "B" and r.status == VIOLATED]
    if fails:
        for r in rep.results:
            if r.klass == "P" and not r.replayed and (r.status == VIOLATED or (r.status == UNDECIDED and r.cand)):
                r.replayed = True
                r.replay = dict(r.replay or {}, native_input=fails[0].witness, how=fails[0].backend)
